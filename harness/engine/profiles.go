package engine

import (
	"fmt"
	"sort"

	"verifharness/core"
)

// Profiles: each concentrates on what one property quantifies over (DESIGN.md section 6, "Profile:" lines).
var Profiles = []string{"order", "conc", "tol", "final", "attempts", "gate", "cont", "persist", "mixed"}

type shapeParams struct {
	minBlocks, maxBlocks, minSeqs, maxSeqs, maxActs int
	planGroupP, blockGroupP                         float64
	maxRetries                                      int
}

var defaultParams = shapeParams{1, 3, 1, 4, 3, 0.4, 0.4, 3}

func randGroup(r *core.Rand, p float64, maxRetries int) *Group {
	if !r.Chance(p) {
		return nil
	}
	g := &Group{}
	for i, n := 0, r.Range(1, 2); i < n; i++ {
		g.Retries = append(g.Retries, r.Range(0, maxRetries))
	}
	return g
}

func randShape(r *core.Rand, sp shapeParams) Shape {
	var s Shape
	for g := range s.G {
		s.G[g] = randGroup(r, sp.planGroupP, sp.maxRetries)
	}
	for b, nb := 0, r.Range(sp.minBlocks, sp.maxBlocks); b < nb; b++ {
		bl := Block{Conc: r.Range(1, 3), Tol: r.Range(-1, 2)}
		for g := range bl.G {
			bl.G[g] = randGroup(r, sp.blockGroupP, sp.maxRetries)
		}
		for q, nq := 0, r.Range(sp.minSeqs, sp.maxSeqs); q < nq; q++ {
			var acts []int
			for a, na := 0, r.Range(1, sp.maxActs); a < na; a++ {
				acts = append(acts, r.Range(0, sp.maxRetries))
			}
			bl.Seqs = append(bl.Seqs, acts)
		}
		s.Blocks = append(s.Blocks, bl)
	}
	return s
}

func okRun() []Step { return []Step{{O: OOk}} }

// failRun is a run of an action that ends Failed, in one of the ways an action can fail.
func failRun(r *core.Rand, retries int, allowOverrun bool) []Step {
	k := r.Intn(10)
	switch {
	case k < 4:
		return []Step{{O: OPerm}}
	case k < 6:
		return []Step{{O: OWrongType}}
	case k < 7 && allowOverrun && retries <= 1:
		var s []Step
		for i := 0; i <= retries; i++ {
			s = append(s, Step{O: OOverrun})
		}
		return s
	default:
		var s []Step
		for i := 0; i < retries; i++ {
			s = append(s, Step{O: []Outcome{OErr, OErr, OErr, OOverrun}[r.Intn(4)]})
			if !allowOverrun {
				s[i].O = OErr
			}
		}
		if r.Chance(0.5) {
			return append(s, Step{O: OErr})
		}
		return append(s, Step{O: OPerm})
	}
}

// flakyRun fails some attempts and then succeeds within the retries (nil when retries = 0).
func flakyRun(r *core.Rand, retries int, allowOverrun bool) []Step {
	if retries == 0 {
		return okRun()
	}
	var s []Step
	for i, n := 0, r.Range(1, retries); i < n; i++ {
		o := OErr
		if allowOverrun && r.Chance(0.2) {
			o = OOverrun
		}
		s = append(s, Step{O: o})
	}
	return append(s, Step{O: OOk})
}

func newSpec(profile string, idx int, kind string, sh Shape, r *core.Rand) *Spec {
	return &Spec{Profile: profile, Index: idx, Kind: kind, Shape: sh, Scripts: map[string]Script{},
		ContDelayUs: [2]int{r.Range(1000, 3000), r.Range(1000, 3000)}, Short: map[string]int{}, Dist: map[string]any{}}
}

// Options are generator options that apply to every profile (flags of harness/cmd/engine). The zero value is
// the behaviour every check had before the options existed: the same cases for the same (seed, profile, index).
type Options struct {
	// DeferredP: after a profile has generated its shape, every scope (the plan and each block) WITHOUT a deferred
	// group gets one with this probability (1 action, retries 0..1; it fails with probability 0.2), drawn from a
	// PRNG forked for this purpose only, so the rest of the case is the same as with DeferredP = 0.
	DeferredP float64
	// RaceStart k >= 2: Workstream.Start is called for the plan from k goroutines released together; exactly one
	// call must succeed (dist/observed `start_ok`), the plan then runs as usual. A run option, not a generator one.
	RaceStart int
	// CancelCtxP: with this probability (own PRNG fork per case) Workstream.Start gets a cancellable context that the
	// harness cancels 0-3 ms after Start returned. Start documents that this does not stop execution, so on correct
	// code the trace is unaffected. Wait / Plan always use a live context. A run option.
	CancelCtxP float64
}

var (
	genOpts  Options
	genRand  *core.Rand // the option PRNG of the case being generated (set by Generate)
	varRand  *core.Rand // PRNG of the input-space variations applied to every profile (set by Generate)
	lateRand *core.Rand // PRNG of the late-answer flavour (profiles attempts, mixed)
)

// lateAnswer (profiles attempts and mixed, p 0.3; a PRNG of its own): one sequence gets, in front, an action a0
// (retries 1..2, timeout 30 ms) whose first invocation overruns, IGNORES the cancellation and answers ok 10-14 ms after
// the deadline, and whose retry is slow (20 ms, then fails) or overruns as well - so the late answer arrives while the
// retry is in flight. On correct code nobody reads the late answer. The sequence's other actions follow a0.
func (sp *Spec) lateAnswer() {
	p := map[string]float64{"attempts": 0.3, "mixed": 0.3}[sp.Profile]
	if lateRand == nil || p == 0 || len(sp.Shape.Blocks) == 0 || !lateRand.Chance(p) {
		return
	}
	lr := lateRand
	b := lr.Intn(len(sp.Shape.Blocks))
	bl := &sp.Shape.Blocks[b]
	q := lr.Intn(len(bl.Seqs))
	n := len(bl.Seqs[q])
	// shift the scripts of the sequence's actions by one position and put a0 in front
	for i := n - 1; i >= 0; i-- {
		if s, ok := sp.Scripts[SeqPath(b, q, i)]; ok {
			sp.Scripts[SeqPath(b, q, i+1)] = s
			delete(sp.Scripts, SeqPath(b, q, i))
		}
		if t, ok := sp.Short[SeqPath(b, q, i)]; ok {
			sp.Short[SeqPath(b, q, i+1)] = t
			delete(sp.Short, SeqPath(b, q, i))
		}
	}
	rt := lr.Range(1, 2)
	seq := append([]int{rt}, bl.Seqs[q]...)
	bl.Seqs[q] = seq
	second := Step{O: OPerm, SlowMs: 20}
	if lr.Chance(0.4) {
		second = Step{O: OOverrun}
	} else if lr.Chance(0.3) {
		second = Step{O: OOk, SlowMs: 20}
	}
	sp.Scripts[SeqPath(b, q, 0)] = Script{[]Step{{O: OOverrun, LateMs: lr.Range(10, 14)}, second}}
	sp.Short[SeqPath(b, q, 0)] = 30
	sp.Dist["late_answer_flavour"] = true
}

// vary applies input-space variations that must make no difference on correct code, to every profile, from a PRNG
// of their own: a continuous group's Delay is 0 (the effective default: runContChecks then ticks every 1 ns, runs
// follow each other back to back, paced only by the capacity-1 result channel) for the plan / for the blocks with
// probability 0.25 each; an unlimited tolerance (-1) is written -2 or -7 with probability 0.3.
func (sp *Spec) vary() {
	if varRand == nil {
		return
	}
	vr := varRand
	for i := range sp.ContDelayUs {
		if vr.Chance(0.25) {
			sp.ContDelayUs[i] = 0
		}
	}
	neg := 0
	for b := range sp.Shape.Blocks {
		if sp.Shape.Blocks[b].Tol == -1 && vr.Chance(0.3) {
			sp.Shape.Blocks[b].Tol = []int{-2, -7}[vr.Intn(2)]
			neg++
		}
	}
	sp.Dist["cont_delay_us"] = []int{sp.ContDelayUs[0], sp.ContDelayUs[1]}
	sp.Dist["cont_delay_zero"] = map[bool]int{true: 1}[sp.ContDelayUs[0] == 0] + map[bool]int{true: 1}[sp.ContDelayUs[1] == 0]
	sp.Dist["tol_other_negative"] = neg
}

// forceDeferred implements Options.DeferredP.
func (sp *Spec) forceDeferred() {
	n := 0
	if genOpts.DeferredP > 0 && genRand != nil {
		fr := genRand
		for scope := -1; scope < len(sp.Shape.Blocks); scope++ {
			gs := &sp.Shape.G
			if scope >= 0 {
				gs = &sp.Shape.Blocks[scope].G
			}
			if gs[GDeferred] != nil || !fr.Chance(genOpts.DeferredP) {
				continue
			}
			rt := fr.Range(0, 1)
			gs[GDeferred] = &Group{Retries: []int{rt}}
			if fr.Chance(0.2) {
				sp.Scripts[ChkPath(scope, GDeferred, 0)] = Script{failRun(fr, rt, false)}
			}
			n++
		}
	}
	sp.Dist["forced_deferred"] = n
}

// seal applies the generator options, then computes short timeouts (15-25 ms exactly where an overrun is scripted)
// and the distribution facts.
func (sp *Spec) seal(r *core.Rand) *Spec {
	sp.forceDeferred()
	sp.vary()
	sp.lateAnswer()
	nonok, holds := 0, 0
	hist := map[string]int{}
	paths := make([]string, 0, len(sp.Scripts))
	for p := range sp.Scripts {
		paths = append(paths, p)
	}
	sort.Strings(paths)
	for _, p := range paths {
		over, bad := false, false
		for _, run := range sp.Scripts[p] {
			for _, st := range run {
				if st.O == OOverrun {
					over = true
				}
				if st.O != OOk {
					bad = true
					hist[outcomeShort[st.O]]++
				}
				if st.Gate != 0 {
					holds++
				}
			}
		}
		if _, set := sp.Short[p]; over && !set {
			sp.Short[p] = r.Range(15, 25)
		}
		if bad {
			nonok++
		}
	}
	sh := sp.Shape
	nseq, nact, ngrp := 0, 0, 0
	mask := func(g [5]*Group) int {
		m := 0
		for i, x := range g {
			if x != nil {
				m |= 1 << i
				ngrp++
				nact += len(x.Retries)
			}
		}
		return m
	}
	pm := mask(sh.G)
	var bms, concs, tols, seqs []int
	for _, b := range sh.Blocks {
		bms = append(bms, mask(b.G))
		concs = append(concs, b.Conc)
		tols = append(tols, b.Tol)
		seqs = append(seqs, len(b.Seqs))
		nseq += len(b.Seqs)
		for _, q := range b.Seqs {
			nact += len(q)
		}
	}
	d := sp.Dist
	d["profile"], d["kind"] = sp.Profile, sp.Kind
	d["blocks"], d["sequences"], d["actions"], d["groups"] = len(sh.Blocks), nseq, nact, ngrp
	d["plan_group_mask"], d["block_group_masks"] = pm, bms
	d["conc"], d["tol"], d["seqs_per_block"] = concs, tols, seqs
	d["scripted_nonok_actions"], d["scripted_outcomes"], d["holds"] = nonok, hist, holds
	d["director_steps"] = len(sp.Sched)
	d["poll"] = sp.Poll
	return sp
}

// randomScripts gives every action, with probability pFail / pFlaky, a failing / flaky script; actions of
// continuous groups fail at their k-th run (k = 1..6) with probability pCont.
func randomScripts(sp *Spec, r *core.Rand, pFail, pFlaky, pCont float64, allowOverrun bool) {
	acts := sp.Shape.Actions()
	paths := make([]string, 0, len(acts))
	for p := range acts {
		paths = append(paths, p)
	}
	sort.Strings(paths)
	for _, p := range paths {
		rt := acts[p]
		var a, b, c int
		if p[0] == 'c' {
			fmt.Sscanf(p[2:], "%d/%d/%d", &a, &b, &c)
			if b == GCont {
				if r.Chance(pCont) {
					sp.Scripts[p] = contFailAt(r, r.Range(1, 6), rt)
				}
				continue
			}
		}
		switch {
		case r.Chance(pFail):
			sp.Scripts[p] = Script{failRun(r, rt, allowOverrun)}
		case r.Chance(pFlaky):
			sp.Scripts[p] = Script{flakyRun(r, rt, allowOverrun)}
		}
	}
}

// contFailAt: runs 1..k-1 succeed, run k fails (k = 1 is the initial run made together with the pre-checks).
func contFailAt(r *core.Rand, k, retries int) Script {
	var s Script
	for i := 1; i < k; i++ {
		s = append(s, okRun())
	}
	return append(s, failRun(r, retries, false))
}

// failBypasses scripts, with probability p each, a failure of every bypass group (a passing bypass group skips
// its whole scope, which most profiles do not want most of the time).
func failBypasses(sp *Spec, r *core.Rand, p float64) {
	sh := sp.Shape
	for scope := -1; scope < len(sh.Blocks); scope++ {
		gs := sh.G
		if scope >= 0 {
			gs = sh.Blocks[scope].G
		}
		if gs[GBypass] == nil || !r.Chance(p) {
			continue
		}
		i := r.Intn(len(gs[GBypass].Retries))
		sp.Scripts[ChkPath(scope, GBypass, i)] = Script{failRun(r, gs[GBypass].Retries[i], false)}
	}
}

func setGate(sp *Spec, path string, run, att, gate int) {
	s := sp.Scripts[path]
	for len(s) <= run {
		s = append(s, okRun())
	}
	for len(s[run]) <= att {
		s[run] = append(s[run], Step{O: OOk})
	}
	s[run][att].Gate = gate
	sp.Scripts[path] = s
}

func perm(r *core.Rand, n int) []int {
	p := make([]int, n)
	for i := range p {
		p[i] = i
	}
	for i := n - 1; i > 0; i-- {
		j := r.Intn(i + 1)
		p[i], p[j] = p[j], p[i]
	}
	return p
}

// Generate is the deterministic map (seed, profile, index, options) -> Spec. Not safe for concurrent use.
func Generate(seed uint64, profile string, idx int, o Options) *Spec {
	genOpts = o
	genRand = core.NewRand(seed).Fork(uint64(idx)).Fork(0xdefe77ed)
	varRand = core.NewRand(seed).Fork(uint64(idx)).Fork(0x7a41a7e)
	lateRand = core.NewRand(seed).Fork(uint64(idx)).Fork(0x1a7ea5)
	r := core.NewRand(seed).Fork(uint64(idx)).Fork(uint64(len(profile))*131 + uint64(profile[0]))
	switch profile {
	case "order":
		return genOrder(r, idx)
	case "conc":
		return genConc(r, idx)
	case "tol":
		return genTol(r, seed, idx)
	case "final":
		return genFinal(r, idx)
	case "attempts":
		return genAttempts(r, seed, idx)
	case "gate":
		return genGate(r, seed, idx)
	case "cont":
		return genCont(r, idx)
	case "persist":
		sp := genMixed(r, idx, "persist", shapeParams{1, 2, 1, 3, 2, 0.3, 0.3, 2})
		sp.Poll = true
		sp.Dist["poll"] = true
		return sp
	default:
		return genMixed(r, idx, "mixed", defaultParams)
	}
}

// ---- mixed ------------------------------------------------------------------------------------------------

func genMixed(r *core.Rand, idx int, profile string, p shapeParams) *Spec {
	sh := randShape(r, p)
	sp := newSpec(profile, idx, "random", sh, r)
	randomScripts(sp, r, 0.12, 0.12, 0.3, true)
	failBypasses(sp, r, 0.6)
	if r.Chance(0.4) {
		sp.Kind = "random+holds"
		g := 0
		var gates []int
		for b, bl := range sh.Blocks {
			for q, sq := range bl.Seqs {
				g++
				setGate(sp, SeqPath(b, q, r.Intn(len(sq))), 0, 0, g)
				gates = append(gates, g)
			}
		}
		for _, i := range perm(r, len(gates)) {
			sp.Sched = append(sp.Sched, DirStep{Wait: Cond{Kind: "parked", Gates: []int{gates[i]}, N: 1}, MaxWaitMs: 3,
				SleepUs: r.Intn(800), Open: []int{gates[i]}, Note: "release a held sequence action"})
		}
	}
	return sp.seal(r)
}

// ---- order (C01) ------------------------------------------------------------------------------------------

func genOrder(r *core.Rand, idx int) *Spec {
	sh := randShape(r, shapeParams{1, 2, 2, 4, 3, 0.4, 0.4, 2})
	for b := range sh.Blocks {
		if r.Chance(0.75) {
			sh.Blocks[b].Conc = r.Range(2, 3)
		}
	}
	sp := newSpec("order", idx, "later-sequences-finish-first", sh, r)
	randomScripts(sp, r, 0.05, 0.1, 0.15, false)
	failBypasses(sp, r, 0.8)
	if r.Chance(0.5) { // a failing action at a chosen position of one sequence
		b := r.Intn(len(sh.Blocks))
		q := r.Intn(len(sh.Blocks[b].Seqs))
		a := r.Intn(len(sh.Blocks[b].Seqs[q]))
		sp.Scripts[SeqPath(b, q, a)] = Script{failRun(r, sh.Blocks[b].Seqs[q][a], false)}
		sp.Dist["failing_action_pos"] = a
		sp.Kind += "+failing-action"
	}
	g := 0
	for b, bl := range sh.Blocks {
		var gates []int
		for q, sq := range bl.Seqs {
			g++
			setGate(sp, SeqPath(b, q, len(sq)-1), 0, 0, g)
			gates = append(gates, g)
		}
		for i := len(gates) - 1; i >= 0; i-- { // reverse order: the last sequence is released first
			sp.Sched = append(sp.Sched, DirStep{Wait: Cond{Kind: "parked", Gates: []int{gates[i]}, N: 1}, MaxWaitMs: 3,
				SleepUs: r.Intn(300), Open: []int{gates[i]}, Note: fmt.Sprintf("release block %d sequence %d (reverse order)", b, i)})
		}
	}
	return sp.seal(r)
}

// ---- conc (C02) -------------------------------------------------------------------------------------------

func genConc(r *core.Rand, idx int) *Spec {
	c := 1 + idx%3
	nq := c - 1 + (idx/3)%4
	if nq < 1 {
		nq = 1
	}
	sh := randShape(r, shapeParams{1, 2, 1, 3, 2, 0.15, 0.15, 1})
	b0 := &sh.Blocks[0]
	b0.Conc, b0.Tol = c, -1
	if r.Chance(0.3) {
		b0.Tol = r.Range(0, 2)
	}
	b0.Seqs = nil
	for q := 0; q < nq; q++ {
		var acts []int
		for a, na := 0, r.Range(1, 2); a < na; a++ {
			acts = append(acts, r.Range(0, 1))
		}
		b0.Seqs = append(b0.Seqs, acts)
	}
	sp := newSpec("conc", idx, fmt.Sprintf("park-conc=%d-seqs=%d", c, nq), sh, r)
	randomScripts(sp, r, 0.08, 0.08, 0.1, false)
	failBypasses(sp, r, 0.9)
	var gates []int
	for q := 0; q < nq; q++ {
		setGate(sp, SeqPath(0, q, 0), 0, 0, q+1)
		gates = append(gates, q+1)
	}
	want := min(c, nq)
	sp.Sched = append(sp.Sched, DirStep{Wait: Cond{Kind: "parked", Gates: gates, N: want}, MaxWaitMs: 150, SleepUs: 5000, Probe: true,
		Note: fmt.Sprintf("park %d sequences in flight, verify for 5 ms that no further sequence starts", want)})
	for k, i := range perm(r, nq) {
		left := nq - k
		sp.Sched = append(sp.Sched, DirStep{Wait: Cond{Kind: "parked", Gates: gates, N: min(c, left)}, MaxWaitMs: 5, SleepUs: 300, Probe: true,
			Open: []int{gates[i]}, Note: fmt.Sprintf("release sequence %d", i)})
	}
	sp.Dist["conc_vs_seqs"] = map[bool]string{true: "seqs<=conc", false: "seqs>conc"}[nq <= c]
	return sp.seal(r)
}

// ---- tol (C03): bounded-exhaustive tol x conc x failing-position subsets for <= 4 sequences ------------------

type tolCombo struct{ tol, conc, nseq, mask int }

func tolFamily() []tolCombo {
	var f []tolCombo
	for _, tol := range []int{-7, -2, -1, 0, 1, 2} { // every negative value means unlimited
		for conc := 1; conc <= 3; conc++ {
			for n := 1; n <= 4; n++ {
				for m := 0; m < 1<<n; m++ {
					f = append(f, tolCombo{tol, conc, n, m})
				}
			}
		}
	}
	return f
}

// FamilySize of the bounded-exhaustive part of a profile (0 = none).
func FamilySize(profile string) int {
	switch profile {
	case "tol":
		return len(tolFamily())
	case "gate":
		return len(gateFamily())
	case "attempts":
		return (3125 + attemptsPerPlan - 1) / attemptsPerPlan
	}
	return 0
}

func famIndex(seed uint64, n, idx int) int {
	p := perm(core.NewRand(seed).Fork(0xfa), n)
	return p[idx%n]
}

func genTol(r *core.Rand, seed uint64, idx int) *Spec {
	fam := tolFamily()
	c := fam[famIndex(seed, len(fam), idx)]
	var sh Shape
	bl := Block{Conc: c.conc, Tol: c.tol}
	for g := range bl.G {
		bl.G[g] = randGroup(r, 0.12, 1)
	}
	sp := newSpec("tol", idx, fmt.Sprintf("tol=%d-conc=%d-seqs=%d-fail=%04b", c.tol, c.conc, c.nseq, c.mask), sh, r)
	for q := 0; q < c.nseq; q++ {
		var acts []int
		for a, na := 0, r.Range(1, 2); a < na; a++ {
			acts = append(acts, r.Range(0, 1))
		}
		bl.Seqs = append(bl.Seqs, acts)
		if c.mask&(1<<q) != 0 {
			a := r.Intn(len(acts))
			sp.Scripts[SeqPath(0, q, a)] = Script{failRun(r, acts[a], false)}
		}
	}
	sh.Blocks = append(sh.Blocks, bl)
	if r.Chance(0.5) { // a later block, to see that nothing of it runs after a failed block
		sh.Blocks = append(sh.Blocks, randShape(r, shapeParams{1, 1, 1, 2, 2, 0, 0.15, 1}).Blocks[0])
	}
	if r.Chance(0.15) {
		sh.G[GDeferred] = &Group{Retries: []int{0}}
	}
	sp.Shape = sh
	failBypasses(sp, r, 0.9)
	var gates []int
	for q := 0; q < c.nseq; q++ { // the director permutes the completion order
		setGate(sp, SeqPath(0, q, len(bl.Seqs[q])-1), 0, 0, q+1)
		gates = append(gates, q+1)
	}
	for _, i := range perm(r, c.nseq) {
		sp.Sched = append(sp.Sched, DirStep{Wait: Cond{Kind: "parked", Gates: []int{gates[i]}, N: 1}, MaxWaitMs: 3,
			SleepUs: r.Intn(400), Open: []int{gates[i]}, Note: fmt.Sprintf("let sequence %d complete", i)})
	}
	sp.Dist["tol_family"] = fmt.Sprintf("tol=%d conc=%d n=%d", c.tol, c.conc, c.nseq)
	sp.Dist["failing_seqs"] = popcount(c.mask)
	return sp.seal(r)
}

func popcount(m int) int {
	n := 0
	for ; m != 0; m &= m - 1 {
		n++
	}
	return n
}

// ---- gate (C06): all presence subsets of the 5 groups x first failing group, plan level and one block -------

type gateCombo struct {
	block    bool // level: plan or block 0
	mask     int  // presence subset
	bypassOK bool // the bypass group (if present) succeeds: the scope is skipped
	fail     int  // first failing group among pre/cont/post/deferred, -1 = none
	delay0   bool // fail = cont only: the continuous group has Delay 0 (the effective default)
}

func gateFamily() []gateCombo {
	var f []gateCombo
	for _, lvl := range []bool{false, true} {
		for m := 0; m < 32; m++ {
			if m&1 != 0 {
				f = append(f, gateCombo{lvl, m, true, -1, false})
			}
			f = append(f, gateCombo{lvl, m, false, -1, false})
			for g := GPre; g <= GDeferred; g++ {
				if m&(1<<g) != 0 {
					f = append(f, gateCombo{lvl, m, false, g, false})
					if g == GCont {
						f = append(f, gateCombo{lvl, m, false, g, true})
					}
				}
			}
		}
	}
	return f
}

func genGate(r *core.Rand, seed uint64, idx int) *Spec {
	fam := gateFamily()
	c := fam[famIndex(seed, len(fam), idx)]
	sh := randShape(r, shapeParams{1, 2, 1, 2, 2, 0, 0, 1})
	var gs [5]*Group
	for g := 0; g < 5; g++ {
		if c.mask&(1<<g) != 0 {
			gs[g] = &Group{Retries: []int{r.Range(0, 1)}}
			if r.Chance(0.3) {
				gs[g].Retries = append(gs[g].Retries, 0)
			}
		}
	}
	scope := -1
	lvl := "plan"
	if c.block {
		scope, lvl = 0, "block"
		sh.Blocks[0].G = gs
		sh.G = [5]*Group{nil, nil, randGroup(r, 0.2, 0), nil, randGroup(r, 0.2, 0)}
	} else {
		sh.G = gs
		sh.Blocks[0].G = [5]*Group{nil, randGroup(r, 0.2, 0), randGroup(r, 0.2, 0), nil, nil}
	}
	failName := "none"
	if c.fail >= 0 {
		failName = grpShort[c.fail]
	}
	if c.delay0 {
		failName += "-delay0"
	}
	sp := newSpec("gate", idx, fmt.Sprintf("%s-mask=%05b-bypassok=%v-fail=%s", lvl, c.mask, c.bypassOK, failName), sh, r)
	if c.delay0 {
		sp.ContDelayUs[map[bool]int{false: 0, true: 1}[c.block]] = 0
	}
	if c.mask&1 != 0 && !c.bypassOK {
		sp.Scripts[ChkPath(scope, GBypass, 0)] = Script{failRun(r, gs[GBypass].Retries[0], false)}
	}
	if c.fail >= 0 {
		i := r.Intn(len(gs[c.fail].Retries))
		sp.Scripts[ChkPath(scope, c.fail, i)] = Script{failRun(r, gs[c.fail].Retries[i], false)}
	}
	sp.Dist["gate_level"], sp.Dist["gate_mask"], sp.Dist["gate_fail"], sp.Dist["gate_bypass_ok"] = lvl, c.mask, failName, c.bypassOK
	return sp.seal(r)
}

// ---- attempts (C05): all outcome scripts of length 4 x retries 0..4, spread over plans -----------------------

const attemptsPerPlan = 12

func genAttempts(r *core.Rand, seed uint64, idx int) *Spec {
	nplans := FamilySize("attempts")
	pi := famIndex(seed, nplans, idx)
	var sh Shape
	bl := Block{Conc: 3, Tol: -1}
	combos := make([][2]int, 0, attemptsPerPlan) // (script code, retries)
	for j := 0; j < attemptsPerPlan; j++ {
		code := (pi*attemptsPerPlan + j) % 3125
		combos = append(combos, [2]int{code % 625, code / 625})
	}
	script := func(code int) []Step {
		var s []Step
		for k := 0; k < 4; k++ {
			s = append(s, Step{O: Outcome(code % 5)})
			code /= 5
		}
		return s
	}
	sp := newSpec("attempts", idx, fmt.Sprintf("scripts-%d..%d", pi*attemptsPerPlan, pi*attemptsPerPlan+attemptsPerPlan-1), sh, r)
	for j := 0; j < 8; j++ {
		bl.Seqs = append(bl.Seqs, []int{combos[j][1]})
		sp.Scripts[SeqPath(0, j, 0)] = Script{script(combos[j][0])}
	}
	bl.G[GDeferred] = &Group{Retries: []int{combos[8][1], combos[9][1]}}
	sp.Scripts[ChkPath(0, GDeferred, 0)] = Script{script(combos[8][0])}
	sp.Scripts[ChkPath(0, GDeferred, 1)] = Script{script(combos[9][0])}
	sh.G[GDeferred] = &Group{Retries: []int{combos[10][1], combos[11][1]}}
	sp.Scripts[ChkPath(-1, GDeferred, 0)] = Script{script(combos[10][0])}
	sp.Scripts[ChkPath(-1, GDeferred, 1)] = Script{script(combos[11][0])}
	sh.Blocks = []Block{bl}
	sp.Shape = sh
	return sp.seal(r)
}

// ---- final (C04): a failing stage at every position; a continuous check parked in flight at the end ---------

var finalStages = []string{"none", "plan.pre", "plan.cont-initial", "plan.cont-kth", "sequence", "plan.post", "plan.deferred",
	"block.pre", "block.cont-initial", "block.cont-kth", "block.post", "block.deferred", "block.bypass-ok", "plan.bypass-ok",
	"plan.cont-parked-at-end", "block.cont-parked-at-end"}

func genFinal(r *core.Rand, idx int) *Spec {
	stage := finalStages[idx%len(finalStages)]
	sh := randShape(r, shapeParams{1, 3, 1, 3, 2, 0.3, 0.3, 2})
	fb := r.Intn(len(sh.Blocks)) // the block the stage refers to
	need := func(scope, g int) string {
		gs := &sh.G
		if scope >= 0 {
			gs = &sh.Blocks[scope].G
		}
		if gs[g] == nil {
			gs[g] = &Group{Retries: []int{r.Range(0, 2)}}
		}
		return ChkPath(scope, g, r.Intn(len(gs[g].Retries)))
	}
	sp := newSpec("final", idx, "stage="+stage, sh, r)
	type todo struct {
		path string
		k    int // 0: single run fails; k>=1: continuous, fail at run k
	}
	var t *todo
	parked := ""
	switch stage {
	case "plan.pre":
		t = &todo{need(-1, GPre), 0}
	case "plan.cont-initial":
		t = &todo{need(-1, GCont), 1}
	case "plan.cont-kth":
		t = &todo{need(-1, GCont), r.Range(2, 6)}
	case "plan.post":
		t = &todo{need(-1, GPost), 0}
	case "plan.deferred":
		t = &todo{need(-1, GDeferred), 0}
	case "block.pre":
		t = &todo{need(fb, GPre), 0}
	case "block.cont-initial":
		t = &todo{need(fb, GCont), 1}
	case "block.cont-kth":
		t = &todo{need(fb, GCont), r.Range(2, 6)}
	case "block.post":
		t = &todo{need(fb, GPost), 0}
	case "block.deferred":
		t = &todo{need(fb, GDeferred), 0}
	case "block.bypass-ok":
		need(fb, GBypass)
	case "plan.bypass-ok":
		need(-1, GBypass)
	case "plan.cont-parked-at-end":
		parked = need(-1, GCont)
		fb = len(sh.Blocks) - 1
	case "block.cont-parked-at-end":
		parked = need(fb, GCont)
	}
	sp.Shape = sh
	randomScripts(sp, r, 0.04, 0.08, 0, true)
	// bypass groups other than the staged one fail (so that the scope is entered) unless the stage is bypass-ok
	for scope := -1; scope < len(sh.Blocks); scope++ {
		gs := sh.G
		if scope >= 0 {
			gs = sh.Blocks[scope].G
		}
		if gs[GBypass] == nil {
			continue
		}
		ok := (stage == "plan.bypass-ok" && scope == -1) || (stage == "block.bypass-ok" && scope == fb)
		for i := range gs[GBypass].Retries {
			delete(sp.Scripts, ChkPath(scope, GBypass, i))
		}
		if !ok && r.Chance(0.85) {
			sp.Scripts[ChkPath(scope, GBypass, 0)] = Script{failRun(r, gs[GBypass].Retries[0], false)}
		}
	}
	if t != nil {
		rt := sh.Actions()[t.path]
		if t.k == 0 {
			sp.Scripts[t.path] = Script{failRun(r, rt, true)}
		} else {
			sp.Scripts[t.path] = contFailAt(r, t.k, rt)
		}
	}
	if stage == "sequence" {
		q := r.Intn(len(sh.Blocks[fb].Seqs))
		a := r.Intn(len(sh.Blocks[fb].Seqs[q]))
		sp.Scripts[SeqPath(fb, q, a)] = Script{failRun(r, sh.Blocks[fb].Seqs[q][a], true)}
		sh.Blocks[fb].Tol = r.Range(-1, 1)
	}
	if stage == "block.cont-kth" || stage == "plan.cont-kth" || parked != "" {
		// keep block fb busy so that the continuous thread gets its runs: hold the first action of its sequences
		var gates []int
		for q := range sh.Blocks[fb].Seqs {
			setGate(sp, SeqPath(fb, q, 0), 0, 0, 10+q)
			gates = append(gates, 10+q)
		}
		if parked != "" {
			// run 2 of the continuous action parks on gate 90; the sequences are released once it is parked;
			// it is released only after the block's sequences are over (block level: the drain in BlockEnd is
			// then waiting for it) / after the last block's terminal write (plan level: PlanPostChecks waits).
			delete(sp.Scripts, parked)
			setGate(sp, parked, 1, 0, 90)
			sp.Sched = append(sp.Sched, DirStep{Wait: Cond{Kind: "parked", Gates: []int{90}, N: 1}, MaxWaitMs: 60, Open: gates,
				Note: "continuous check parked in flight; release the sequences"})
			c := Cond{Kind: "written", Obj: objBlock(fb).Term}
			if stage == "block.cont-parked-at-end" {
				c = Cond{Kind: "written", Obj: objSeq(fb, len(sh.Blocks[fb].Seqs)-1).Term}
			}
			sp.Sched = append(sp.Sched, DirStep{Wait: c, MaxWaitMs: 100, SleepUs: r.Range(300, 2500), Open: []int{90},
				Note: "the scope has finished its work while the continuous check is still in flight; release it"})
		} else {
			k := len(sp.Scripts[t.path])
			d := sp.ContDelayUs[0]
			if stage == "block.cont-kth" {
				d = sp.ContDelayUs[1]
			}
			sp.Sched = append(sp.Sched, DirStep{MaxWaitMs: 1, SleepUs: (k - 1) * d * r.Range(60, 140) / 100, Open: gates,
				Note: "hold the sequences for about k-1 continuous-check periods"})
		}
	}
	sp.Dist["final_stage"] = stage
	return sp.seal(r)
}

// ---- cont (C07): failure at the k-th run, placed around sequence boundaries ---------------------------------

func genCont(r *core.Rand, idx int) *Spec {
	sh := randShape(r, shapeParams{1, 2, 1, 3, 3, 0.3, 0.3, 1})
	where := idx % 3 // 0 plan, 1 block, 2 both
	fb := r.Intn(len(sh.Blocks))
	if where != 1 && sh.G[GCont] == nil {
		sh.G[GCont] = &Group{Retries: []int{r.Range(0, 1)}}
	}
	if where != 0 && sh.Blocks[fb].G[GCont] == nil {
		sh.Blocks[fb].G[GCont] = &Group{Retries: []int{r.Range(0, 1)}}
	}
	k := (idx / 3) % 7 // 0 = no failure, 1..6 = the failing run
	scope := -1        // the scope whose continuous group fails
	if k > 0 && (where == 1 || (where == 2 && r.Chance(0.5))) {
		scope = fb
	}
	tb := 0 // the block during which run k is to happen
	if scope >= 0 {
		tb = scope
	}
	// The result channel has capacity 1 and is read once per sequence launch (by a select that picks the other,
	// closed or ready, channel half of the time): while nothing is launched the thread completes at most 2 runs.
	// Run k >= 4 therefore needs about 2(k-3) further launches in block tb: give it that many one-action
	// sequences, launched one at a time.
	if k >= 4 {
		b := &sh.Blocks[tb]
		for need := 2*(k-3) + 4; len(b.Seqs) < need; {
			b.Seqs = append(b.Seqs, []int{r.Range(0, 1)})
		}
		b.Conc, b.Tol = 1, -1
		if r.Chance(0.3) {
			b.Conc = 2
		}
	}
	sp := newSpec("cont", idx, fmt.Sprintf("where=%s-k=%d", []string{"plan", "block", "both"}[where], k), sh, r)
	randomScripts(sp, r, 0.05, 0.08, 0, false)
	failBypasses(sp, r, 0.9)
	d := sp.ContDelayUs[1] // period of the failing group
	if scope < 0 {
		d = sp.ContDelayUs[0]
	}
	if k > 0 {
		gs := sh.G
		if scope >= 0 {
			gs = sh.Blocks[scope].G
		}
		i := r.Intn(len(gs[GCont].Retries))
		sp.Scripts[ChkPath(scope, GCont, i)] = contFailAt(r, k, gs[GCont].Retries[i])
		sp.Dist["cont_fail_scope"] = map[bool]string{true: "plan", false: "block"}[scope < 0]
	}
	// Every sequence's first action is held; the director releases them one at a time. Before the FIRST release
	// in block tb it holds for about min(k-1, 2) periods (+- half a period), so that run k <= 3 falls just before
	// or just after the first sequence boundary; the later releases are 0..2.5 periods apart (k >= 4: 1.1..1.9,
	// so that a run completes between two launches): run k then falls before/after the later boundaries and,
	// with the last release, into the window between the last poll and the drain. Total hold <= ~100 ms.
	g := 0
	for b, bl := range sh.Blocks {
		for q := range bl.Seqs {
			g++
			setGate(sp, SeqPath(b, q, 0), 0, 0, g)
			st := DirStep{Wait: Cond{Kind: "parked", Gates: []int{g}, N: 1}, MaxWaitMs: 4,
				SleepUs: r.Intn(d*5/2 + 1), Open: []int{g}, Note: fmt.Sprintf("release block %d sequence %d", b, q)}
			if k >= 4 && b == tb {
				st.SleepUs = d * r.Range(110, 190) / 100
			}
			if k >= 2 && b == tb && q == 0 {
				st.MaxWaitMs = 25
				st.SleepUs = max(0, min(k-1, 2)*d+d*r.Range(-50, 50)/100)
				st.Note += fmt.Sprintf(" after holding for about %d periods", min(k-1, 2))
			}
			sp.Sched = append(sp.Sched, st)
		}
	}
	sp.Dist["cont_fail_run"] = k
	sp.Dist["cont_where"] = []string{"plan", "block", "both"}[where]
	return sp.seal(r)
}
