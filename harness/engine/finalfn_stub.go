//go:build !verif

package engine

import "verifharness/core"

// FinalFn needs the verif hooks of the repository (build tag verif).
func FinalFn(seed uint64, from, n int) []core.Case { return nil }
