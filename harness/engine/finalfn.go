//go:build verif

package engine

import (
	"context"
	"fmt"

	"verifharness/core"
	"verifharness/plangen"

	"github.com/element-of-surprise/coercion/verifhooks"
	"github.com/element-of-surprise/coercion/workflow"
)

// FinalFn is the DIRECT function-equality correspondence of Coercion.Engine.Final with finalStates
// (internal/execute/sm/final.go, through verifhooks.FinalStates): every combination of absent / NotStarted /
// Running / Completed / Failed / Stopped for the plan's five groups (6^5 = 7776, seed-permuted), each paired
// with a vector of 0-3 block statuses (incl. the invalid ones at End).  One case = one call.
func FinalFn(seed uint64, from, n int) []core.Case {
	sts := []workflow.Status{workflow.NotStarted, workflow.Running, workflow.Completed, workflow.Failed, workflow.Stopped}
	const total = 7776
	order := perm(core.NewRand(seed).Fork(0xf1a1), total)
	var out []core.Case
	for k := 0; k < n; k++ {
		idx := from + k
		code := order[idx%total]
		r := core.NewRand(seed).Fork(uint64(idx)).Fork(0xf1)
		p := &workflow.Plan{ID: plangen.V7(r), Name: "final", Descr: "final", State: &workflow.State{Status: workflow.Running}}
		var sh Shape
		var cells []string
		human := map[string]string{}
		slots := []**workflow.Checks{&p.BypassChecks, &p.PreChecks, &p.ContChecks, &p.PostChecks, &p.DeferredChecks}
		c := code
		for g := 0; g < 5; g++ {
			v := c % 6
			c /= 6
			if v == 0 {
				continue
			}
			*slots[g] = &workflow.Checks{ID: plangen.V7(r), State: &workflow.State{Status: sts[v-1]}}
			sh.G[g] = &Group{Retries: []int{}}
			cells = append(cells, core.Pair(objChecks(-1, g).Term, statusTerm(int(sts[v-1]))))
			human[objChecks(-1, g).Human] = statusTerm(int(sts[v-1]))
		}
		nb := r.Intn(4)
		for b := 0; b < nb; b++ {
			// mostly Completed, so that the later stages of finalStates are reached
			s := workflow.Completed
			if r.Chance(0.35) {
				s = sts[r.Intn(5)]
			}
			p.Blocks = append(p.Blocks, &workflow.Block{ID: plangen.V7(r), Name: "b", Descr: "b", State: &workflow.State{Status: s}})
			sh.Blocks = append(sh.Blocks, Block{Conc: 1, Seqs: [][]int{}})
			cells = append(cells, core.Pair(objBlock(b).Term, statusTerm(int(s))))
			human[objBlock(b).Human] = statusTerm(int(s))
		}
		note := ""
		func() {
			defer func() {
				if x := recover(); x != nil {
					note = fmt.Sprintf("panic: %v", x)
				}
			}()
			verifhooks.FinalStates(context.Background(), p)
		}()
		res := core.Pair(statusTerm(int(p.State.Status)), reasonTerm(int(p.Reason)))
		out = append(out, core.Case{
			ID: fmt.Sprintf("finalfn-%d", idx), Kind: "finalfn", Nontrivial: len(cells) > 0,
			Coq:      core.Sprintf("(%s, %s, %s)", sh.Coq(), core.List(cells), res),
			Hash:     core.Hash(sh.Coq(), core.List(cells)),
			Dist:     map[string]any{"groups_present": len(cells) - nb, "blocks": nb, "result": statusTerm(int(p.State.Status)) + "/" + reasonTerm(int(p.Reason))},
			Input:    map[string]any{"seed": seed, "index": idx, "statuses": human},
			Observed: map[string]any{"status": statusTerm(int(p.State.Status)), "reason": reasonTerm(int(p.Reason))},
			Note:     note,
		})
	}
	return out
}
