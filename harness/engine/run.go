package engine

import (
	"context"
	"fmt"
	"sort"
	"strings"
	"sync"
	"time"

	"verifharness/core"
	"verifharness/hplug"
	"verifharness/plangen"

	coercion "github.com/element-of-surprise/coercion"
	"github.com/element-of-surprise/coercion/workflow"
	"github.com/element-of-surprise/coercion/workflow/storage/sqlite"
	"github.com/google/uuid"
)

// WaitDeadline is how long Wait may take before the observation is Hang.
var WaitDeadline = 5 * time.Second

// RereadDelay is the pause between Release and the re-read ("never changes afterwards").
var RereadDelay = 30 * time.Millisecond

var (
	setOnce sync.Once
	plugSet *hplug.Set
)

func plugSetup() *hplug.Set {
	setOnce.Do(func() {
		plugSet = hplug.NewSet()
		plugSet.Action.SetBehaviour(Behave)
		plugSet.Check.SetBehaviour(Behave)
	})
	return plugSet
}

// build makes the workflow.Plan of a spec and registers every object id with its path.
func build(sp *Spec, r *core.Rand) (*workflow.Plan, *PlanRun) {
	run := &PlanRun{Spec: sp, Nonce: fmt.Sprintf("n%016x-%d", r.Uint64(), sp.Index), acts: map[string]*actState{},
		gates: map[int]*gate{}, written: map[string]map[int]int{}}
	reg := func(id uuid.UUID, ref ObjRef, act string) {
		run.refs = append(run.refs, ref)
		run.ids = append(run.ids, id)
		objs[id] = &objEntry{run: run, ref: ref, act: act}
	}
	st := func() *workflow.State { return &workflow.State{Status: workflow.NotStarted} }
	action := func(path string, retries int, check bool) *workflow.Action {
		a := &workflow.Action{ID: plangen.V7(r), Name: "a " + path, Descr: "action " + path, Retries: retries,
			Timeout: 2 * time.Second, State: st(), Req: hplug.Req{Nonce: run.Nonce, Path: path, Arg: int64(retries)}}
		if ms, ok := sp.Short[path]; ok {
			a.Timeout = time.Duration(ms) * time.Millisecond
		}
		a.Plugin = hplug.ActionName
		if check {
			a.Plugin = hplug.CheckName
		}
		run.acts[path] = &actState{path: path, retries: retries, script: sp.Scripts[path], timeout: a.Timeout}
		for _, runSteps := range sp.Scripts[path] {
			for _, s := range runSteps {
				if s.Gate != 0 && run.gates[s.Gate] == nil {
					run.gates[s.Gate] = &gate{ch: make(chan struct{})}
				}
			}
		}
		return a
	}
	checks := func(scope, g int, grp *Group) *workflow.Checks {
		if grp == nil {
			return nil
		}
		k := &workflow.Checks{ID: plangen.V7(r), State: st()}
		if g == GCont {
			d := sp.ContDelayUs[0]
			if scope >= 0 {
				d = sp.ContDelayUs[1]
			}
			k.Delay = time.Duration(d) * time.Microsecond
		}
		reg(k.ID, objChecks(scope, g), "")
		for i, rt := range grp.Retries {
			p := ChkPath(scope, g, i)
			a := action(p, rt, true)
			k.Actions = append(k.Actions, a)
			reg(a.ID, objAct(p), p)
		}
		return k
	}
	p := &workflow.Plan{ID: plangen.V7(r), Name: "plan " + run.Nonce, Descr: sp.Profile + " " + sp.Kind, State: st(),
		SubmitTime: time.Now().UTC()}
	run.ID = p.ID
	reg(p.ID, objPlan(), "")
	p.BypassChecks = checks(-1, GBypass, sp.Shape.G[GBypass])
	p.PreChecks = checks(-1, GPre, sp.Shape.G[GPre])
	p.ContChecks = checks(-1, GCont, sp.Shape.G[GCont])
	p.PostChecks = checks(-1, GPost, sp.Shape.G[GPost])
	p.DeferredChecks = checks(-1, GDeferred, sp.Shape.G[GDeferred])
	for bi, bs := range sp.Shape.Blocks {
		b := &workflow.Block{ID: plangen.V7(r), Name: fmt.Sprintf("block %d", bi), Descr: "block", State: st(),
			Concurrency: bs.Conc, ToleratedFailures: bs.Tol}
		reg(b.ID, objBlock(bi), "")
		b.BypassChecks = checks(bi, GBypass, bs.G[GBypass])
		b.PreChecks = checks(bi, GPre, bs.G[GPre])
		b.ContChecks = checks(bi, GCont, bs.G[GCont])
		b.PostChecks = checks(bi, GPost, bs.G[GPost])
		b.DeferredChecks = checks(bi, GDeferred, bs.G[GDeferred])
		for si, sq := range bs.Seqs {
			s := &workflow.Sequence{ID: plangen.V7(r), Name: fmt.Sprintf("seq %d.%d", bi, si), Descr: "sequence", State: st()}
			reg(s.ID, objSeq(bi, si), "")
			for ai, rt := range sq {
				pth := SeqPath(bi, si, ai)
				a := action(pth, rt, false)
				s.Actions = append(s.Actions, a)
				reg(a.ID, objAct(pth), pth)
			}
			b.Sequences = append(b.Sequences, s)
		}
		p.Blocks = append(p.Blocks, b)
	}
	for _, st := range sp.Sched {
		for _, g := range st.Open {
			if run.gates[g] == nil {
				run.gates[g] = &gate{ch: make(chan struct{})}
			}
		}
	}
	runs[run.Nonce] = run
	return p, run
}

// ---- the director -----------------------------------------------------------------------------------------

func (r *PlanRun) condLocked(c Cond) bool {
	switch c.Kind {
	case "":
		return true
	case "parked":
		n := 0
		for _, g := range c.Gates {
			if gt := r.gates[g]; gt != nil {
				n += gt.parked
			}
		}
		return n >= c.N
	case "ended":
		a := r.acts[c.Path]
		return a != nil && a.ends >= max(1, c.N)
	case "written":
		m := r.written[c.Obj]
		if c.Status != 0 {
			return m[c.Status] >= max(1, c.N)
		}
		return m[int(workflow.Completed)]+m[int(workflow.Failed)] >= max(1, c.N)
	}
	return true
}

func (r *PlanRun) inFlightSeqLocked() int {
	n := 0
	for p, a := range r.acts {
		if strings.HasPrefix(p, "s/") && a.flying {
			n++
		}
	}
	return n
}

// direct runs the schedule: each step waits (bounded) for its condition, sleeps, opens gates. Whatever happens,
// every gate is open at the end: only acceptance is checked, never a specific schedule.
func (r *PlanRun) direct(done <-chan struct{}) {
	defer r.openAll()
	for i, st := range r.Spec.Sched {
		deadline := time.Now().Add(time.Duration(max(1, st.MaxWaitMs)) * time.Millisecond)
		met := false
		for {
			logMu.Lock()
			met = r.condLocked(st.Wait)
			fin := r.released || r.hang
			logMu.Unlock()
			if met || fin || time.Now().After(deadline) {
				break
			}
			select {
			case <-done:
				return
			case <-time.After(50 * time.Microsecond):
			}
		}
		if st.SleepUs > 0 {
			select {
			case <-done:
				return
			case <-time.After(time.Duration(st.SleepUs) * time.Microsecond):
			}
		}
		logMu.Lock()
		if st.Probe {
			r.probes = append(r.probes, r.inFlightSeqLocked())
		}
		r.dirLog = append(r.dirLog, fmt.Sprintf("step %d %s met=%v open=%v at +%dus", i, st.Note, met, st.Open, time.Since(r.t0).Microseconds()))
		for _, g := range st.Open {
			r.openLocked(g)
		}
		logMu.Unlock()
	}
}

// ---- running plans ----------------------------------------------------------------------------------------

// Result of one plan run.
type Result struct {
	Case  core.Case `json:"case"`
	Hang  bool      `json:"hang"`
	Taint bool      `json:"taint"` // the process must not be reused (hang, leak, activity after release)
	Late  bool      `json:"late"`  // a plugin was entered after its attempt's deadline (machine load): rerun
}

// RunGroup runs the given specs concurrently on ONE Workstream over one fresh in-memory sqlite vault.
func RunGroup(specs []*Spec, seed uint64, o Options) []Result {
	ctx := context.Background()
	set := plugSetup()
	res := make([]Result, len(specs))
	inner, err := sqlite.New(ctx, "", set.Reg, sqlite.WithInMemory())
	if err != nil {
		for i, sp := range specs {
			res[i] = Result{Case: core.Case{ID: caseID(sp), Kind: sp.Kind, Note: "harness: sqlite.New: " + err.Error()}, Taint: true}
		}
		return res
	}
	// The vault is closed only when every plan was released cleanly: closing it under an engine that is still running
	// (a missed Wait deadline on a loaded machine, a leak) makes the engine's next write fail and log.Fatalf kills the
	// process before the observation is reported. A tainted child is discarded anyway.
	closeVault := true
	defer func() {
		if closeVault {
			inner.Close(ctx)
		}
	}()
	vault := LogVault{Vault: inner}
	ws, err := coercion.New(ctx, set.Reg, vault)
	if err != nil {
		for i, sp := range specs {
			res[i] = Result{Case: core.Case{ID: caseID(sp), Kind: sp.Kind, Note: "harness: coercion.New: " + err.Error()}, Taint: true}
		}
		return res
	}
	prs := make([]*PlanRun, len(specs))
	logMu.Lock()
	plans := make([]*workflow.Plan, len(specs))
	for i, sp := range specs {
		plans[i], prs[i] = build(sp, core.NewRand(seed).Fork(uint64(sp.Index)).Fork(0x1d))
		prs[i].msgSeed = core.NewRand(seed).Fork(uint64(sp.Index)).Fork(0xe77).Uint64()
	}
	logMu.Unlock()
	for i := range specs {
		if err := vault.Create(ctx, plans[i]); err != nil {
			prs[i].startErr = "create: " + err.Error()
		}
	}
	var wg sync.WaitGroup
	done := make(chan struct{})
	for i := range specs {
		r := prs[i]
		r.t0 = time.Now()
		sctx := ctx // the context passed to Start
		var cancelStart context.CancelFunc
		if cr := core.NewRand(seed).Fork(uint64(r.Spec.Index)).Fork(0xca9ce1); o.CancelCtxP > 0 && cr.Chance(o.CancelCtxP) {
			sctx, cancelStart = context.WithCancel(ctx)
			r.ctxCancelUs = cr.Intn(3001)
			r.ctxCancelled = true
		}
		if r.startErr == "" && o.RaceStart >= 2 {
			// k racing Start calls released together: the losers' errors are expected, exactly one must win
			var sw sync.WaitGroup
			var smu sync.Mutex
			gun := make(chan struct{})
			lastErr := ""
			for j := 0; j < o.RaceStart; j++ {
				sw.Add(1)
				go func() {
					defer sw.Done()
					<-gun
					err := ws.Start(sctx, r.ID)
					smu.Lock()
					if err == nil {
						r.startOK++
					} else {
						lastErr = err.Error()
					}
					smu.Unlock()
				}()
			}
			close(gun)
			sw.Wait()
			r.raced = o.RaceStart
			if r.startOK == 0 {
				r.startErr = "start: none of the racing Start calls succeeded: " + lastErr
			}
		} else if r.startErr == "" {
			if err := ws.Start(sctx, r.ID); err != nil {
				r.startErr = "start: " + err.Error()
			} else {
				r.startOK = 1
			}
		}
		if cancelStart != nil { // Start has returned: cancel its context after the drawn delay
			time.AfterFunc(time.Duration(r.ctxCancelUs)*time.Microsecond, cancelStart)
		}
		if r.startErr != "" {
			continue
		}
		wg.Add(1)
		go func() {
			defer wg.Done()
			wctx, cancel := context.WithTimeout(ctx, WaitDeadline)
			defer cancel()
			p, err := ws.Wait(wctx, r.ID)
			logMu.Lock()
			if err != nil || p == nil {
				r.hang = true
			} else {
				r.released = true
				r.logLocked(Event{Kind: 'X', Img: r.imageOf(p)})
			}
			logMu.Unlock()
			r.openAll()
		}()
		go r.direct(done)
		if r.Spec.Poll {
			go func() {
				var last *Image
				for {
					select {
					case <-done:
						return
					default:
					}
					p, err := ws.Plan(ctx, r.ID)
					if err == nil && p != nil {
						im := r.imageOf(p)
						logMu.Lock()
						stop := r.released || r.hang
						if !stop && !im.equal(last) {
							r.logLocked(Event{Kind: 'R', Img: im})
							last = im
						}
						logMu.Unlock()
						if stop {
							return
						}
					}
					time.Sleep(200 * time.Microsecond)
				}
			}()
		}
	}
	wg.Wait()
	time.Sleep(RereadDelay)
	for i, r := range prs {
		if r.startErr == "" && r.released {
			p, err := ws.Plan(ctx, r.ID)
			logMu.Lock()
			if err == nil {
				r.logLocked(Event{Kind: 'R', Img: r.imageOf(p)})
			}
			logMu.Unlock()
		}
		res[i] = r.finish()
		if res[i].Taint {
			closeVault = false
		}
	}
	close(done)
	return res
}

func caseID(sp *Spec) string { return fmt.Sprintf("%s-%d", sp.Profile, sp.Index) }

// finish closes the run's log and renders the case.
func (r *PlanRun) finish() Result {
	logMu.Lock()
	r.closed = true
	evs := r.events
	hang, late := r.hang, r.lateStarts > 0 || r.lateEnds > 0 || r.lateNever > 0
	lateStarts, lateEnds, lateNever := r.lateStarts, r.lateEnds, r.lateNever
	inflight := 0
	for _, a := range r.acts {
		if a.flying && !a.overrunFly {
			inflight++
		}
	}
	probes, dirLog := r.probes, r.dirLog
	delete(runs, r.Nonce)
	for _, id := range r.ids {
		delete(objs, id)
	}
	logMu.Unlock()

	sp := r.Spec
	terms := make([]string, len(evs))
	human := make([]string, len(evs))
	after := 0
	seenRel := false
	kinds := map[string]int{}
	outcomes := map[string]int{}
	for i, e := range evs {
		terms[i] = r.eventTerm(e)
		human[i] = r.eventHuman(i, e)
		if seenRel && e.Kind != 'R' {
			after++
		}
		if e.Kind == 'X' {
			seenRel = true
		}
		kinds[string(e.Kind)]++
		if e.Kind == 'E' {
			outcomes[outcomeShort[e.O]]++
		}
	}
	shape := sp.Shape.Coq()
	var hashed []string
	for i, e := range evs {
		if e.Kind != 'R' || seenRel {
			hashed = append(hashed, terms[i])
		}
	}
	allOK := outcomes["err"]+outcomes["perm"]+outcomes["wrongtype"]+outcomes["overrun"] == 0
	dist := map[string]any{"events": len(evs), "kinds": kinds, "outcomes": outcomes, "hang": hang,
		"after_release": after, "probes": probes, "empty_error_messages": r.emptyMsgs, "errors_with_response": r.errWithResp, "late_answers": r.lateAnswers, "late_starts": lateStarts, "late_ends": lateEnds, "late_never": lateNever,
		"start_ok": r.startOK, "racing_starts": r.raced, "start_ctx_cancelled": r.ctxCancelled, "start_ctx_cancel_us": r.ctxCancelUs}
	for k, v := range sp.Dist {
		dist[k] = v
	}
	sp.ScriptsText = map[string]string{}
	keys := make([]string, 0, len(sp.Scripts))
	for k := range sp.Scripts {
		keys = append(keys, k)
	}
	sort.Strings(keys)
	for _, k := range keys {
		sp.ScriptsText[PathHuman(k)] = sp.Scripts[k].String()
	}
	c := core.Case{
		ID:         caseID(sp),
		Kind:       sp.Kind,
		Coq:        core.Pair(shape, core.List(terms)),
		Nontrivial: !(sp.Shape.Trivial() && allOK),
		Hash:       core.Hash(shape, strings.Join(hashed, ";")),
		Dist:       dist,
		Input:      map[string]any{"seed": core.Seed(), "index": sp.Index, "profile": sp.Profile, "spec": sp},
		Observed:   map[string]any{"events": human, "director": dirLog, "hang": hang, "start_ok": r.startOK, "racing_starts": r.raced},
	}
	switch {
	case r.startErr != "":
		c.Note = "harness: " + r.startErr
	case r.startOK > 1:
		c.Note = fmt.Sprintf("start: %d of %d racing Start calls returned nil", r.startOK, r.raced)
	case hang:
		c.Note = "hang: Wait did not return within " + WaitDeadline.String()
	case after > 0:
		c.Note = fmt.Sprintf("activity after release: %d events", after)
	case inflight > 0:
		c.Note = fmt.Sprintf("leak: %d plugin invocations still in flight after release", inflight)
	}
	return Result{Case: c, Hang: hang, Taint: hang || after > 0 || inflight > 0 || r.startErr != "", Late: late}
}
