package engine

import (
	"context"
	"fmt"
	"strings"
	"sync"
	"time"

	"verifharness/core"
	"verifharness/hplug"

	"github.com/element-of-surprise/coercion/plugins"
	"github.com/element-of-surprise/coercion/workflow"
	"github.com/element-of-surprise/coercion/workflow/storage"
	"github.com/google/uuid"
)

// ---- the event log ----------------------------------------------------------------------------------------
//
// ONE lock for every event of every plan of the process. A plugin logs Start on entry and End just before it
// returns; the vault wrapper logs a write after Update* returned; the waiter logs Release after Wait returned.
// So "e1 before e2 in the log" implies e1's logging point happened before e2's.

var (
	logMu sync.Mutex
	runs  = map[string]*PlanRun{}     // by nonce
	objs  = map[uuid.UUID]*objEntry{} // by object id
)

type objEntry struct {
	run *PlanRun
	ref ObjRef
	act string // action path, "" for non-actions
}

// Cell is the durable value of one object as far as the engine properties look at it.
type Cell struct {
	St     int  `json:"st"`
	N      int  `json:"n"`
	LastOK bool `json:"ok"`
	// time flags (final image / snapshots only): start zero, end zero, start <= end (true when either is zero)
	SZ, EZ, Ord bool
}

// Image is a full read of a plan: every object's cell, in walk order, and the plan's failure reason.
type Image struct {
	Cells  []Cell
	Reason int
}

type Event struct {
	Kind   byte // 'S' start, 'E' end, 'W' write, 'R' read, 'X' release
	Path   string
	O      Outcome
	CtxErr string
	Obj    ObjRef
	C      Cell
	Reason int
	Img    *Image
	AtUs   int64
}

type actState struct {
	path    string
	retries int
	script  Script
	inv     sync.Mutex // held from before Start is logged until End is logged: same-action invocations do not overlap in the log
	run     int        // guarded by inv
	att     int        // guarded by inv
	// guarded by logMu:
	starts, ends int
	flying       bool
	overrunFly   bool
	lastEnd      Outcome // outcome logged by the last End
	endPending   bool    // that End has not yet been followed by a write of the action
	timeout      time.Duration
	lastWriteAt  time.Time // when the previous write of this action was logged
	startsAtLW   int       // starts at that moment
	lastN        int       // attempts that write showed
	lastDeadline time.Time // deadline of the context of the last invocation (zero = none)
}

type gate struct {
	ch     chan struct{}
	open   bool
	parked int
}

// PlanRun is one plan instance being observed.
type PlanRun struct {
	Spec   *Spec
	Nonce  string
	ID     uuid.UUID
	refs   []ObjRef // walk order (the order of Image.Cells)
	ids    []uuid.UUID
	acts   map[string]*actState
	t0     time.Time
	events []Event
	gates  map[int]*gate
	// guarded by logMu
	released     bool
	hang         bool
	closed       bool
	written      map[string]map[int]int // obj term -> status -> count
	probes       []int
	dirLog       []string
	lateStarts   int
	lateNever    int // the engine timed an attempt out before the worker pool had entered the plugin (no Start at all)
	lateEnds     int // an invocation logged a non-overrun End before its deadline, yet the engine recorded a timeout AFTER the deadline
	startErr     string
	msgSeed      uint64
	emptyMsgs    int  // plugin errors delivered with an empty message
	errWithResp  int  // plugin errors delivered together with a well-typed response
	lateAnswers  int  // overrun invocations that ignored cancellation and answered ok after the deadline
	startOK      int  // Start calls that returned nil
	raced        int  // racing Start calls made (0 = one ordinary call)
	ctxCancelled bool // Start got a context that the harness cancelled afterwards
	ctxCancelUs  int  // ... this long after Start returned
}

func (r *PlanRun) logLocked(e Event) {
	if r.closed {
		return
	}
	e.AtUs = time.Since(r.t0).Microseconds()
	r.events = append(r.events, e)
}

func statusTerm(s int) string {
	switch workflow.Status(s) {
	case workflow.NotStarted:
		return "NotStarted"
	case workflow.Running:
		return "Running"
	case workflow.Completed:
		return "Completed"
	case workflow.Failed:
		return "Failed"
	case workflow.Stopped:
		return "Stopped"
	}
	return "Stopped"
}

func reasonTerm(r int) string {
	switch workflow.FailureReason(r) {
	case workflow.FRUnknown:
		return "FRUnknown"
	case workflow.FRPreCheck:
		return "FRPreCheck"
	case workflow.FRBlock:
		return "FRBlock"
	case workflow.FRPostCheck:
		return "FRPostCheck"
	case workflow.FRContCheck:
		return "FRContCheck"
	case workflow.FRDeferredCheck:
		return "FRDeferredCheck"
	case workflow.FRStopped:
		return "FRStopped"
	case workflow.FRExceedRecovery:
		return "FRExceedRecovery"
	}
	return "FRExceedRecovery"
}

func cellOf(st *workflow.State, attempts []*workflow.Attempt) Cell {
	c := Cell{SZ: true, EZ: true, Ord: true}
	if st != nil {
		c.St = int(st.Status)
		c.SZ = st.Start.IsZero()
		c.EZ = st.End.IsZero()
		c.Ord = c.SZ || c.EZ || !st.End.Before(st.Start)
	}
	c.N = len(attempts)
	if c.N > 0 {
		c.LastOK = attempts[c.N-1] != nil && attempts[c.N-1].Err == nil
	}
	return c
}

// ---- plugins ----------------------------------------------------------------------------------------------

// Behave is the hplug.Behaviour of the action and the check plugin. Events are attributed by the plan nonce
// and the tree path carried INSIDE the request, never by "the current case".
func Behave(ctx context.Context, p *hplug.Plugin, req any) (any, *plugins.Error) {
	rq, ok := req.(hplug.Req)
	if !ok {
		return p.OKResp(req), nil
	}
	logMu.Lock()
	run := runs[rq.Nonce]
	logMu.Unlock()
	if run == nil {
		return p.OKResp(req), nil
	}
	a := run.acts[rq.Path]
	if a == nil {
		return p.OKResp(req), nil
	}
	a.inv.Lock()
	locked := true
	defer func() {
		if locked {
			a.inv.Unlock()
		}
	}()

	st := Step{O: OOk}
	if a.run < len(a.script) && a.att < len(a.script[a.run]) {
		st = a.script[a.run][a.att]
	}
	late := ctx.Err() != nil // the attempt's deadline passed before the plugin was even entered
	logMu.Lock()
	a.starts++
	a.flying = true
	a.overrunFly = false
	if late {
		run.lateStarts++
	}
	run.logLocked(Event{Kind: 'S', Path: a.path})
	logMu.Unlock()

	o := st.O
	if st.Gate != 0 {
		if g := run.park(st.Gate); g != nil {
			select {
			case <-g:
			case <-ctx.Done():
				o = OOverrun
			}
			run.unpark(st.Gate)
		}
	}
	if st.SlowMs > 0 && o != OOverrun { // a slow invocation: works for a while (honouring its context), then answers
		select {
		case <-ctx.Done():
		case <-time.After(time.Duration(st.SlowMs) * time.Millisecond):
		}
	}
	ctxErr := ""
	if o == OOverrun {
		logMu.Lock()
		a.overrunFly = true
		logMu.Unlock()
		select {
		case <-ctx.Done():
		case <-time.After(4 * time.Second):
		}
	}
	var resp any
	var perr *plugins.Error
	logMu.Lock()
	if err := ctx.Err(); err != nil {
		// whatever was scripted, the engine has stopped listening to this invocation
		o = OOverrun
		ctxErr = err.Error()
	} else if o == OOverrun {
		o = OOk // the context never fired (cap reached): report what really happens
	}
	a.ends++
	a.flying = false
	a.lastEnd = o
	a.endPending = true
	a.lastDeadline, _ = ctx.Deadline()
	run.logLocked(Event{Kind: 'E', Path: a.path, O: o, CtxErr: ctxErr})
	logMu.Unlock()
	switch o {
	case OOk:
		resp = p.OKResp(req)
	case OErr:
		perr = &plugins.Error{Code: 1, Message: "scripted transient error"}
	case OPerm:
		perr = &plugins.Error{Code: 2, Message: "scripted permanent error", Permanent: true}
	}
	if perr != nil && (o == OErr || o == OPerm) {
		// an error is an error whatever its text: with probability 0.3 (a PRNG of its own, keyed by the case, the
		// action and the invocation) the plugin's error has an EMPTY message
		h := uint64(0)
		for _, ch := range a.path {
			h = h*131 + uint64(ch)
		}
		if core.NewRand(run.msgSeed).Fork(h).Fork(uint64(a.starts)).Chance(0.3) {
			perr.Message = ""
			logMu.Lock()
			run.emptyMsgs++
			logMu.Unlock()
		}
		// ... and whatever comes with it: with probability 0.3 a well-typed RESPONSE is returned together with the error
		if core.NewRand(run.msgSeed).Fork(h).Fork(uint64(a.starts)).Fork(0x4e5).Chance(0.3) {
			resp = p.OKResp(req)
			logMu.Lock()
			run.errWithResp++
			logMu.Unlock()
		}
	}
	switch o {
	case OWrongType:
		resp = hplug.AltResp{Echo: "wrong response type"}
	case OOverrun:
		perr = &plugins.Error{Code: 3, Message: "scripted overrun: returned after the deadline"}
	}
	// advance the script position: a run of this action ends with a final outcome or with the retries used up
	if o == OOk || o == OPerm || o == OWrongType || a.att+1 > a.retries {
		a.run++
		a.att = 0
	} else {
		a.att++
	}
	if o == OOverrun && st.LateMs > 0 {
		// A plugin that IGNORES cancellation: its End was logged when its deadline fired (the engine stopped listening
		// then), but it goes on working and answers ok LateMs later - into a channel nobody reads any more on correct
		// code. The next invocation of the action is held only until that End was logged, not until this return.
		logMu.Lock()
		run.lateAnswers++
		logMu.Unlock()
		locked = false
		a.inv.Unlock()
		time.Sleep(time.Duration(st.LateMs) * time.Millisecond)
		return p.OKResp(req), nil
	}
	return resp, perr
}

func (r *PlanRun) park(g int) chan struct{} {
	logMu.Lock()
	defer logMu.Unlock()
	gt := r.gates[g]
	if gt == nil || gt.open {
		return nil
	}
	gt.parked++
	return gt.ch
}

func (r *PlanRun) unpark(g int) {
	logMu.Lock()
	r.gates[g].parked--
	logMu.Unlock()
}

func (r *PlanRun) openLocked(g int) {
	gt := r.gates[g]
	if gt != nil && !gt.open {
		gt.open = true
		close(gt.ch)
	}
}

func (r *PlanRun) openAll() {
	logMu.Lock()
	for g := range r.gates {
		r.openLocked(g)
	}
	logMu.Unlock()
}

// ---- the logging vault ------------------------------------------------------------------------------------

// LogVault embeds a storage.Vault VALUE, so the unexported private() method is promoted and LogVault is a
// storage.Vault. It logs each Update* AFTER it returned, into the same lock-protected log as the plugins.
type LogVault struct {
	storage.Vault
}

// engineTimeout: the last attempt carries the engine's own non-permanent error (code 0; every scripted plugin
// error has a code): the engine gave up on the invocation at its deadline.
func engineTimeout(attempts []*workflow.Attempt) bool {
	if n := len(attempts); n > 0 && attempts[n-1] != nil {
		e := attempts[n-1].Err
		return e != nil && e.Code == 0 && !e.Permanent
	}
	return false
}

func logWrite(id uuid.UUID, c Cell, reason int, err error) { logWriteTO(id, c, reason, err, false) }

func logWriteTO(id uuid.UUID, c Cell, reason int, err error, timedOut bool) {
	if err != nil {
		return
	}
	logMu.Lock()
	if e := objs[id]; e != nil {
		r := e.run
		a := r.acts[e.act]
		pending := a != nil && a.endPending
		if a != nil {
			a.endPending = false
		}
		if timedOut && pending && !a.flying && a.lastEnd != OOverrun &&
			!a.lastDeadline.IsZero() && !time.Now().Before(a.lastDeadline) {
			// The plugin had returned in time (its End is in the log) but on this loaded machine the engine looked
			// at the answer only after the deadline: a disturbance like a late start, not an observation. The same
			// signature BEFORE the deadline is not excused.
			r.lateEnds++
		}
		if a != nil {
			// The engine recorded its own timeout for an attempt whose plugin invocation was never entered (no Start
			// since the previous write of the action, nothing in flight): the worker pool had not reached the plugin
			// when the deadline fired. A load disturbance iff a whole timeout has elapsed since that previous write
			// (the attempt's deadline starts after it); earlier than that it is not excused.
			// Only a write that records a NEW attempt counts (the End state re-writes every action much later).
			if timedOut && c.St == int(workflow.Running) && c.N == a.lastN+1 && !pending && !a.flying && a.starts == a.startsAtLW && !a.lastWriteAt.IsZero() &&
				a.timeout > 0 && time.Since(a.lastWriteAt) >= a.timeout {
				r.lateNever++
			}
			a.lastWriteAt, a.startsAtLW, a.lastN = time.Now(), a.starts, c.N
		}
		r.logLocked(Event{Kind: 'W', Obj: e.ref, C: c, Reason: reason})
		m := r.written[e.ref.Term]
		if m == nil {
			m = map[int]int{}
			r.written[e.ref.Term] = m
		}
		m[c.St]++
	}
	logMu.Unlock()
}

func (v LogVault) UpdatePlan(ctx context.Context, p *workflow.Plan) error {
	c, rs := cellOf(p.State, nil), int(p.Reason)
	err := v.Vault.UpdatePlan(ctx, p)
	logWrite(p.ID, c, rs, err)
	return err
}
func (v LogVault) UpdateChecks(ctx context.Context, k *workflow.Checks) error {
	c := cellOf(k.State, nil)
	err := v.Vault.UpdateChecks(ctx, k)
	logWrite(k.ID, c, 0, err)
	return err
}
func (v LogVault) UpdateBlock(ctx context.Context, b *workflow.Block) error {
	c := cellOf(b.State, nil)
	err := v.Vault.UpdateBlock(ctx, b)
	logWrite(b.ID, c, 0, err)
	return err
}
func (v LogVault) UpdateSequence(ctx context.Context, s *workflow.Sequence) error {
	c := cellOf(s.State, nil)
	err := v.Vault.UpdateSequence(ctx, s)
	logWrite(s.ID, c, 0, err)
	return err
}
func (v LogVault) UpdateAction(ctx context.Context, a *workflow.Action) error {
	c, to := cellOf(a.State, a.Attempts), engineTimeout(a.Attempts)
	err := v.Vault.UpdateAction(ctx, a)
	logWriteTO(a.ID, c, 0, err, to)
	return err
}

// ---- images -----------------------------------------------------------------------------------------------

// imageOf projects a plan (as returned by Workstream.Plan / Wait) to an Image in the run's walk order.
func (r *PlanRun) imageOf(p *workflow.Plan) *Image {
	byID := map[uuid.UUID]Cell{}
	if p != nil {
		byID[p.ID] = cellOf(p.State, nil)
		chk := func(k *workflow.Checks) {
			if k == nil {
				return
			}
			byID[k.ID] = cellOf(k.State, nil)
			for _, a := range k.Actions {
				byID[a.ID] = cellOf(a.State, a.Attempts)
			}
		}
		chk(p.BypassChecks)
		chk(p.PreChecks)
		chk(p.ContChecks)
		chk(p.PostChecks)
		chk(p.DeferredChecks)
		for _, b := range p.Blocks {
			byID[b.ID] = cellOf(b.State, nil)
			chk(b.BypassChecks)
			chk(b.PreChecks)
			chk(b.ContChecks)
			chk(b.PostChecks)
			chk(b.DeferredChecks)
			for _, s := range b.Sequences {
				byID[s.ID] = cellOf(s.State, nil)
				for _, a := range s.Actions {
					byID[a.ID] = cellOf(a.State, a.Attempts)
				}
			}
		}
	}
	im := &Image{Cells: make([]Cell, len(r.ids))}
	for i, id := range r.ids {
		c, ok := byID[id]
		if !ok {
			c = Cell{St: int(workflow.Stopped), N: 99} // object missing from the read: matches nothing
		}
		im.Cells[i] = c
	}
	if p != nil {
		im.Reason = int(p.Reason)
	}
	return im
}

func (im *Image) equal(o *Image) bool {
	if im == nil || o == nil || len(im.Cells) != len(o.Cells) || im.Reason != o.Reason {
		return false
	}
	for i := range im.Cells {
		if im.Cells[i] != o.Cells[i] {
			return false
		}
	}
	return true
}

// ---- terms ------------------------------------------------------------------------------------------------

func (r *PlanRun) imageTerm(im *Image) string {
	cs := make([]string, len(im.Cells))
	for i, c := range im.Cells {
		cs[i] = core.Pair(r.refs[i].Term, core.App("OC", statusTerm(c.St), core.Nat(c.N), core.B(c.LastOK),
			core.App("TF", core.B(c.SZ), core.B(c.EZ), core.B(c.Ord))))
	}
	return core.App("IM", core.List(cs), reasonTerm(im.Reason))
}

func (r *PlanRun) eventTerm(e Event) string {
	switch e.Kind {
	case 'S':
		return core.App("EvStart", ArefTerm(e.Path))
	case 'E':
		return core.App("EvEnd", ArefTerm(e.Path), OutcomeName[e.O])
	case 'W':
		return core.App("EvWrite", e.Obj.Term, statusTerm(e.C.St), core.Nat(e.C.N), core.B(e.C.LastOK), reasonTerm(e.Reason))
	case 'R':
		return core.App("EvRead", r.imageTerm(e.Img))
	case 'X':
		return core.App("EvRelease", r.imageTerm(e.Img))
	}
	return "EvBad"
}

func (r *PlanRun) imageHuman(im *Image) string {
	var xs []string
	for i, c := range im.Cells {
		x := fmt.Sprintf("%s=%s", r.refs[i].Human, statusTerm(c.St))
		if c.N > 0 {
			x += fmt.Sprintf("/%d%s", c.N, map[bool]string{true: "ok", false: "err"}[c.LastOK])
		}
		xs = append(xs, x)
	}
	return strings.Join(xs, " ") + " reason=" + reasonTerm(im.Reason)
}

func (r *PlanRun) eventHuman(i int, e Event) string {
	h := fmt.Sprintf("#%d +%dus ", i, e.AtUs)
	switch e.Kind {
	case 'S':
		return h + "Start " + PathHuman(e.Path)
	case 'E':
		x := h + "End " + PathHuman(e.Path) + " " + outcomeShort[e.O]
		if e.CtxErr != "" {
			x += " (ctx: " + e.CtxErr + ")"
		}
		return x
	case 'W':
		x := h + fmt.Sprintf("Write %s %s n=%d lastok=%v", e.Obj.Human, statusTerm(e.C.St), e.C.N, e.C.LastOK)
		if e.Obj.Term == "OPlan" {
			x += " reason=" + reasonTerm(e.Reason)
		}
		return x
	case 'R':
		return h + "Read " + r.imageHuman(e.Img)
	case 'X':
		return h + "Release " + r.imageHuman(e.Img)
	}
	return h + "?"
}
