// Package engine is the shared harness of the engine properties (C01-C08, later C09/C10): it generates plan
// shapes, outcome scripts and director schedules from one PRNG state, runs the real engine through the public
// API (coercion.New, vault.Create, Workstream.Start/Wait/Plan) with scripted plugins and a logging vault
// wrapper, and prints what it observed as a Coq term of type Coercion.Engine.Accept.case.
//
// Everything here is the harness's own code and part of the trusted base: path numbering, the single lock of
// the event log (its order is the happens-before witness), the abstraction of Go values to constructor terms.
package engine

import (
	"fmt"
	"strings"

	"verifharness/core"
)

// Group indices, in the order of Coercion.Base.Plan.grp.
const (
	GBypass = iota
	GPre
	GCont
	GPost
	GDeferred
)

var GrpName = [...]string{"GBypass", "GPre", "GCont", "GPost", "GDeferred"}
var grpShort = [...]string{"bypass", "pre", "cont", "post", "deferred"}

// Group is one check group: the retries of its actions. A nil *Group is an absent group.
type Group struct {
	Retries []int `json:"retries"`
}

// Block is the control-flow relevant part of a workflow.Block.
type Block struct {
	G    [5]*Group `json:"groups"`
	Seqs [][]int   `json:"seqs"` // per sequence: retries per action
	Conc int       `json:"conc"`
	Tol  int       `json:"tol"`
}

// Shape is the erasure of a plan to what the engine's control flow depends on (Coercion.Engine.Shape.shape).
type Shape struct {
	G      [5]*Group `json:"groups"`
	Blocks []Block   `json:"blocks"`
}

func natList(xs []int) string {
	s := make([]string, len(xs))
	for i, x := range xs {
		s[i] = core.Nat(x)
	}
	return core.List(s)
}

func groupsTerm(g [5]*Group) string {
	f := make([]string, 5)
	for i, x := range g {
		if x == nil {
			f[i] = "None"
		} else {
			f[i] = core.Some(natList(x.Retries))
		}
	}
	return core.App("Build_groups", f...)
}

// Coq prints the shape as a term of Coercion.Engine.Shape.shape.
func (s Shape) Coq() string {
	bs := make([]string, len(s.Blocks))
	for i, b := range s.Blocks {
		qs := make([]string, len(b.Seqs))
		for j, q := range b.Seqs {
			qs[j] = natList(q)
		}
		bs[i] = core.App("Build_bshape", groupsTerm(b.G), core.List(qs), core.Nat(b.Conc), core.Z(int64(b.Tol)))
	}
	return core.App("Build_shape", groupsTerm(s.G), core.List(bs))
}

// ---- action paths -----------------------------------------------------------------------------------------

// ChkPath is the path string of a check action: scope -1 = plan, else block index.
func ChkPath(scope, g, i int) string { return fmt.Sprintf("c/%d/%d/%d", scope, g, i) }

// SeqPath is the path string of a sequence action.
func SeqPath(b, s, i int) string { return fmt.Sprintf("s/%d/%d/%d", b, s, i) }

func scopeTerm(scope int) string {
	if scope < 0 {
		return "SPlan"
	}
	return core.App("SBlock", core.Nat(scope))
}

// ArefTerm turns a path string into a term of Coercion.Base.Plan.aref.
func ArefTerm(path string) string {
	var k string
	var a, b, c int
	p := strings.SplitN(path, "/", 2)
	k = p[0]
	fmt.Sscanf(p[1], "%d/%d/%d", &a, &b, &c)
	if k == "c" {
		return core.App("AChk", scopeTerm(a), GrpName[b], core.Nat(c))
	}
	return core.App("ASeq", core.Nat(a), core.Nat(b), core.Nat(c))
}

// Human readable form of a path, for `input`/`observed`.
func PathHuman(path string) string {
	var a, b, c int
	p := strings.SplitN(path, "/", 2)
	fmt.Sscanf(p[1], "%d/%d/%d", &a, &b, &c)
	if p[0] == "c" {
		if a < 0 {
			return fmt.Sprintf("plan.%s[%d]", grpShort[b], c)
		}
		return fmt.Sprintf("block%d.%s[%d]", a, grpShort[b], c)
	}
	return fmt.Sprintf("block%d.seq%d[%d]", a, b, c)
}

// Object references (terms of Coercion.Base.Plan.obj) and their human names.
type ObjRef struct {
	Term  string
	Human string
}

func objPlan() ObjRef { return ObjRef{"OPlan", "plan"} }
func objChecks(scope, g int) ObjRef {
	h := "plan." + grpShort[g]
	if scope >= 0 {
		h = fmt.Sprintf("block%d.%s", scope, grpShort[g])
	}
	return ObjRef{core.App("OChecks", scopeTerm(scope), GrpName[g]), h}
}
func objBlock(b int) ObjRef {
	return ObjRef{core.App("OBlock", core.Nat(b)), fmt.Sprintf("block%d", b)}
}
func objSeq(b, s int) ObjRef {
	return ObjRef{core.App("OSeq", core.Nat(b), core.Nat(s)), fmt.Sprintf("block%d.seq%d", b, s)}
}
func objAct(path string) ObjRef { return ObjRef{core.App("OAct", ArefTerm(path)), PathHuman(path)} }

// ---- scripts ----------------------------------------------------------------------------------------------

// Outcome of one plugin invocation, in the order of Coercion.Engine.Event.outcome.
type Outcome int

const (
	OOk Outcome = iota
	OErr
	OPerm
	OWrongType
	OOverrun
)

var OutcomeName = [...]string{"OOk", "OErr", "OPerm", "OWrongType", "OOverrun"}
var outcomeShort = [...]string{"ok", "err", "perm", "wrongtype", "overrun"}

// Step scripts one invocation: optionally park on a gate first (0 = no gate), then deliver the outcome.
type Step struct {
	O    Outcome `json:"o"`
	Gate int     `json:"gate,omitempty"`
	// SlowMs: the invocation works this long (honouring its context) before it delivers its outcome.
	SlowMs int `json:"slow_ms,omitempty"`
	// LateMs (with OOverrun): the plugin ignores cancellation and answers ok this long after its deadline.
	LateMs int `json:"late_ms,omitempty"`
}

// Script of one action: per RUN of the action (check actions of a continuous group run many times, everything
// else once) the steps per invocation. Invocations beyond the script succeed at once.
type Script [][]Step

func (s Script) String() string {
	var rs []string
	for _, run := range s {
		var xs []string
		for _, st := range run {
			x := outcomeShort[st.O]
			if st.LateMs != 0 {
				x = fmt.Sprintf("%s+answers-ok-%dms-late", x, st.LateMs)
			}
			if st.SlowMs != 0 {
				x = fmt.Sprintf("slow%dms>%s", st.SlowMs, x)
			}
			if st.Gate != 0 {
				x = fmt.Sprintf("hold%d>%s", st.Gate, x)
			}
			xs = append(xs, x)
		}
		rs = append(rs, strings.Join(xs, ","))
	}
	return strings.Join(rs, " | ")
}

// ---- director schedule ------------------------------------------------------------------------------------

// Cond is what the director waits for before a step (always bounded by MaxWaitMs).
type Cond struct {
	Kind   string `json:"kind"`             // "", "parked", "ended", "written", "verdicts"
	Gates  []int  `json:"gates,omitempty"`  // parked: total holders parked on these gates >= N
	N      int    `json:"n,omitempty"`      //
	Path   string `json:"path,omitempty"`   // ended: this action logged N Ends
	Obj    string `json:"obj,omitempty"`    // written / verdicts: object term
	Status int    `json:"status,omitempty"` // written: status value (0 = any terminal)
}

// DirStep: wait for Cond (at most MaxWaitMs), sleep SleepUs, then open gates.
type DirStep struct {
	Wait      Cond   `json:"wait"`
	MaxWaitMs int    `json:"max_wait_ms"`
	SleepUs   int    `json:"sleep_us,omitempty"`
	Open      []int  `json:"open,omitempty"`
	Note      string `json:"note,omitempty"`
	Probe     bool   `json:"probe,omitempty"` // record how many sequence actions are in flight after the sleep
}

// Spec is a complete case input: deterministic function of (seed, profile, index).
type Spec struct {
	Profile     string            `json:"profile"`
	Index       int               `json:"index"`
	Kind        string            `json:"kind"` // generator family within the profile
	Shape       Shape             `json:"shape"`
	Scripts     map[string]Script `json:"-"`
	ScriptsText map[string]string `json:"scripts"`
	ContDelayUs [2]int            `json:"cont_delay_us"` // plan level / block level
	Short       map[string]int    `json:"short_timeouts_ms,omitempty"`
	Sched       []DirStep         `json:"schedule,omitempty"`
	Poll        bool              `json:"poll,omitempty"`
	Dist        map[string]any    `json:"-"`
}

// Actions lists every action path of the shape with its retries.
func (s Shape) Actions() map[string]int {
	m := map[string]int{}
	for g, x := range s.G {
		if x != nil {
			for i, r := range x.Retries {
				m[ChkPath(-1, g, i)] = r
			}
		}
	}
	for b, bl := range s.Blocks {
		for g, x := range bl.G {
			if x != nil {
				for i, r := range x.Retries {
					m[ChkPath(b, g, i)] = r
				}
			}
		}
		for q, sq := range bl.Seqs {
			for i, r := range sq {
				m[SeqPath(b, q, i)] = r
			}
		}
	}
	return m
}

// Trivial: single block, single sequence, single action, no groups (the script decides the rest).
func (s Shape) Trivial() bool {
	for _, x := range s.G {
		if x != nil {
			return false
		}
	}
	if len(s.Blocks) != 1 || len(s.Blocks[0].Seqs) != 1 || len(s.Blocks[0].Seqs[0]) != 1 {
		return false
	}
	for _, x := range s.Blocks[0].G {
		if x != nil {
			return false
		}
	}
	return true
}
