package main

// Plans carrying generated request/response values; the clone entry points and reports.Render on them.

import (
	"encoding/json"
	"fmt"
	"io/fs"
	"reflect"
	"runtime/debug"
	"strings"
	"time"

	"verifharness/core"

	"github.com/element-of-surprise/coercion/plugins"
	"github.com/element-of-surprise/coercion/workflow"
	"github.com/element-of-surprise/coercion/workflow/utils/clone"
	"github.com/element-of-surprise/coercion/workflow/utils/html/reports"
	"github.com/google/uuid"
	"github.com/gostdlib/base/context"
)

// actRec remembers what was planted in one action.
type actRec struct {
	a       *workflow.Action
	reqC    []*Canary
	respC   [][]*Canary // per attempt
	reqTy   string
	respTys []string
}

type planCase struct {
	AllPlanGroups bool    // the four plan-level groups Pre/Cont/Post/Deferred are all present (needed by WithRemoveCompletedSequences)
	PMethods      float64 // share of payloads that are hand-declared types with methods
	nStatic       int
	r             *core.Rand
	tab           *Table
	tg            *TypeGen
	vg            *ValGen
	plan          *workflow.Plan
	recs          map[*workflow.Action]*actRec
	order         []*actRec
}

func (pc *planCase) id() uuid.UUID {
	var u uuid.UUID
	for i := 0; i < 16; i += 8 {
		x := pc.r.Uint64()
		for j := 0; j < 8; j++ {
			u[i+j] = byte(x >> (8 * j))
		}
	}
	u[6] = (u[6] & 0x0f) | 0x70
	u[8] = (u[8] & 0x3f) | 0x80
	return u
}

func (pc *planCase) state() *workflow.State {
	st := []workflow.Status{workflow.NotStarted, workflow.Running, workflow.Completed, workflow.Failed}[pc.r.Intn(4)]
	s := &workflow.State{Status: st}
	if st != workflow.NotStarted {
		s.Start = time.Date(2024, 5, 1, 10, 0, pc.r.Intn(50), 0, time.UTC)
	}
	if st == workflow.Completed || st == workflow.Failed {
		s.End = s.Start.Add(time.Duration(1+pc.r.Intn(50)) * time.Second)
	}
	return s
}

// payload makes one request/response value: mostly *struct or struct, sometimes another kind or nil.
func (pc *planCase) payload(path string) (any, []*Canary, string) {
	if pc.r.Chance(pc.PMethods) {
		// a hand-declared type with methods (json.Marshaler, TextMarshaler, Stringer, error): see methods.go
		pc.nStatic++
		pl := &planter{n: pc.nStatic * 200}
		if pc.r.Chance(0.3) {
			x, name := pl.tagPayload(pc.r.Intn(2*nTagPayloads), path) // tag on an embedded field: see static.go
			return x, pl.cans, name
		}
		if pc.r.Chance(0.5) {
			x, name := pl.recPayload(pc.r.Intn(3*nRecPayloads), path) // recursive types: see recursive.go
			return x, pl.cans, name
		}
		x, name := pl.methodPayload(pc.r.Intn(nMethodPayloads), path)
		return x, pl.cans, name
	}
	from := len(pc.vg.Canaries)
	d := 1 + pc.r.Intn(pc.tg.MaxDepth)
	var n *TNode
	switch pc.r.Intn(10) {
	case 0, 1, 2, 3, 4:
		n = &TNode{Kind: KPtr, Elem: pc.tg.Struct(d)}
	case 5, 6, 7:
		n = pc.tg.Struct(d)
	case 8:
		n = &TNode{Kind: KMap, Elem: &TNode{Kind: KIface, Dyn: pc.tg.Struct(maxInt(1, d-1))}}
	default:
		if pc.r.Chance(0.5) {
			return nil, nil, "nil"
		}
		n = &TNode{Kind: KSlice, Elem: pc.tg.Struct(maxInt(1, d-1))}
	}
	v := pc.vg.Value(n, vctx{path: path})
	if n.Kind == KPtr && v.IsNil() { // keep the top pointer non-nil most of the time
		p := reflect.New(n.Elem.RType())
		p.Elem().Set(pc.vg.Value(n.Elem, vctx{path: path}.down(KPtr, "*")))
		v = p
	}
	return v.Interface(), pc.vg.Canaries[from:], n.String()
}

func maxInt(a, b int) int {
	if a > b {
		return a
	}
	return b
}

func (pc *planCase) action(path string) *workflow.Action {
	a := &workflow.Action{ID: pc.id(), Name: "act " + path, Descr: "d", Plugin: "p", Timeout: 30 * time.Second, State: pc.state()}
	rec := &actRec{a: a}
	a.Req, rec.reqC, rec.reqTy = pc.payload(path + ".Req")
	na := pc.r.Intn(3)
	if na == 0 && pc.r.Chance(0.3) {
		a.Attempts = []*workflow.Attempt{}
	}
	for i := 0; i < na; i++ {
		at := &workflow.Attempt{Start: time.Date(2024, 5, 1, 11, 0, i, 0, time.UTC), End: time.Date(2024, 5, 1, 11, 1, i, 0, time.UTC)}
		var cs []*Canary
		var ty string
		at.Resp, cs, ty = pc.payload(fmt.Sprintf("%s.Attempts[%d].Resp", path, i))
		if pc.r.Chance(0.2) {
			at.Err = &plugins.Error{Code: 3, Message: "plugin failed"}
		}
		rec.respC = append(rec.respC, cs)
		rec.respTys = append(rec.respTys, ty)
		a.Attempts = append(a.Attempts, at)
	}
	pc.recs[a] = rec
	pc.order = append(pc.order, rec)
	return a
}

func (pc *planCase) checks(path string, p float64) *workflow.Checks {
	if !pc.r.Chance(p) {
		return nil
	}
	c := &workflow.Checks{ID: pc.id(), State: pc.state(), Delay: time.Second}
	for i, n := 0, 1+pc.r.Intn(2); i < n; i++ {
		c.Actions = append(c.Actions, pc.action(fmt.Sprintf("%s[%d]", path, i)))
	}
	return c
}

func (pc *planCase) build(groupP float64) {
	p := &workflow.Plan{ID: pc.id(), Name: "plan", Descr: "generated", State: pc.state(), SubmitTime: time.Date(2024, 5, 1, 9, 0, 0, 0, time.UTC), Meta: []byte("m")}
	p.BypassChecks = pc.checks("plan.Bypass", groupP/2)
	gp := groupP
	if pc.AllPlanGroups {
		gp = 1
	}
	p.PreChecks = pc.checks("plan.Pre", gp)
	p.ContChecks = pc.checks("plan.Cont", gp)
	p.PostChecks = pc.checks("plan.Post", gp)
	p.DeferredChecks = pc.checks("plan.Deferred", gp)
	for bi, nb := 0, 1+pc.r.Intn(2); bi < nb; bi++ {
		bp := fmt.Sprintf("b%d", bi)
		b := &workflow.Block{ID: pc.id(), Name: bp, Descr: "block", State: pc.state(), Concurrency: 1}
		b.BypassChecks = pc.checks(bp+".Bypass", groupP/2)
		b.PreChecks = pc.checks(bp+".Pre", groupP)
		b.ContChecks = pc.checks(bp+".Cont", groupP)
		b.PostChecks = pc.checks(bp+".Post", groupP)
		b.DeferredChecks = pc.checks(bp+".Deferred", groupP)
		for si, ns := 0, 1+pc.r.Intn(2); si < ns; si++ {
			sp := fmt.Sprintf("%s.s%d", bp, si)
			s := &workflow.Sequence{ID: pc.id(), Name: sp, Descr: "seq", State: pc.state()}
			for ai, na := 0, 1+pc.r.Intn(2); ai < na; ai++ {
				s.Actions = append(s.Actions, pc.action(fmt.Sprintf("%s.a%d", sp, ai)))
			}
			b.Sequences = append(b.Sequences, s)
		}
		p.Blocks = append(p.Blocks, b)
	}
	pc.plan = p
}

// ---------------------------------------------------------------- skeleton terms (Surfaces.plan_sk etc.)

func (pc *planCase) actionSk(a *workflow.Action) string {
	atts := "None"
	if a.Attempts != nil {
		xs := make([]string, len(a.Attempts))
		for i, at := range a.Attempts {
			xs[i] = fmt.Sprintf("{| k_resp := %s; k_err := %s |}", AbstractAny(pc.tab, at.Resp), core.B(at.Err != nil))
		}
		atts = core.Some(core.List(xs))
	}
	return fmt.Sprintf("{| a_req := %s; a_attempts := %s |}", AbstractAny(pc.tab, a.Req), atts)
}

func (pc *planCase) actionsSk(as []*workflow.Action) string {
	xs := make([]string, len(as))
	for i, a := range as {
		xs[i] = pc.actionSk(a)
	}
	return core.List(xs)
}

func (pc *planCase) checksOptSk(c *workflow.Checks) string {
	if c == nil {
		return "None"
	}
	return core.Some(pc.actionsSk(c.Actions))
}

func (pc *planCase) blockSk(b *workflow.Block) string {
	ss := make([]string, len(b.Sequences))
	for i, s := range b.Sequences {
		ss[i] = pc.actionsSk(s.Actions)
	}
	return fmt.Sprintf("{| b_bypass := %s; b_pre := %s; b_cont := %s; b_post := %s; b_deferred := %s; b_seqs := %s |}",
		pc.checksOptSk(b.BypassChecks), pc.checksOptSk(b.PreChecks), pc.checksOptSk(b.ContChecks), pc.checksOptSk(b.PostChecks), pc.checksOptSk(b.DeferredChecks), core.List(ss))
}

func (pc *planCase) planSk(p *workflow.Plan) string {
	bs := make([]string, len(p.Blocks))
	for i, b := range p.Blocks {
		bs[i] = pc.blockSk(b)
	}
	return fmt.Sprintf("{| p_bypass := %s; p_pre := %s; p_cont := %s; p_post := %s; p_deferred := %s; p_blocks := %s |}",
		pc.checksOptSk(p.BypassChecks), pc.checksOptSk(p.PreChecks), pc.checksOptSk(p.ContChecks), pc.checksOptSk(p.PostChecks), pc.checksOptSk(p.DeferredChecks), core.List(bs))
}

// ---------------------------------------------------------------- reading actions off workflow objects, in struct order

func actionsOfChecks(c *workflow.Checks) []*workflow.Action {
	if c == nil {
		return nil
	}
	return c.Actions
}

func actionsOfBlock(b *workflow.Block) []*workflow.Action {
	var as []*workflow.Action
	for _, c := range []*workflow.Checks{b.BypassChecks, b.PreChecks, b.ContChecks, b.PostChecks, b.DeferredChecks} {
		as = append(as, actionsOfChecks(c)...)
	}
	for _, s := range b.Sequences {
		if s != nil {
			as = append(as, s.Actions...)
		}
	}
	return as
}

func actionsOfPlan(p *workflow.Plan) []*workflow.Action {
	var as []*workflow.Action
	for _, c := range []*workflow.Checks{p.BypassChecks, p.PreChecks, p.ContChecks, p.PostChecks, p.DeferredChecks} {
		as = append(as, actionsOfChecks(c)...)
	}
	for _, b := range p.Blocks {
		if b != nil {
			as = append(as, actionsOfBlock(b)...)
		}
	}
	return as
}

func (pc *planCase) reqsResps(as []*workflow.Action) (reqs, resps []string) {
	reqs, resps = []string{}, []string{}
	for _, a := range as {
		if a == nil {
			reqs = append(reqs, "(VNum 999%Z)") // a nil action in a clone: no model output has it
			continue
		}
		reqs = append(reqs, AbstractAny(pc.tab, a.Req))
		for _, at := range a.Attempts {
			resps = append(resps, AbstractAny(pc.tab, at.Resp))
		}
	}
	return
}

// ---------------------------------------------------------------- clone entry points

type cloneObs struct {
	Entry     string   `json:"entry"`
	KeepState bool     `json:"keep_state"`
	Nil       bool     `json:"nil,omitempty"`
	Panic     string   `json:"panic,omitempty"`
	Leaked    []string `json:"leaked,omitempty"`  // secure canaries found in the clone's JSON (harness labels)
	Missing   []string `json:"missing,omitempty"` // plain canaries expected in the clone's JSON and not found
	NSecret   int      `json:"n_secret"`
	NPlain    int      `json:"n_plain"`
	OrigSame  bool     `json:"original_unchanged"`
	JSONLen   int      `json:"json_len"`
}

func leafList(t *Table, cs []*Canary) string {
	xs := make([]string, len(cs))
	for i, c := range cs {
		xs[i] = c.Coq(t)
	}
	return core.List(xs)
}

// cloneCase runs one entry point. rootTerm is the SecureCheck.root term, origActs the actions of the original root.
func (pc *planCase) cloneCase(entry string, ks bool, rootTerm string, origActs []*workflow.Action, run func(opts []clone.Option) (any, []*workflow.Action, bool)) (string, cloneObs) {
	ob := cloneObs{Entry: entry, KeepState: ks}
	var opts []clone.Option
	if ks {
		opts = append(opts, clone.WithKeepState())
	}
	oreqsBefore, orespsBefore := pc.reqsResps(origActs)
	var cl any
	var cacts []*workflow.Action
	var isNil bool
	func() {
		defer func() {
			if r := recover(); r != nil {
				ob.Panic = fmt.Sprintf("%v\n%s", r, debug.Stack())
			}
		}()
		cl, cacts, isNil = run(opts)
	}()
	head := fmt.Sprintf("CClone %s %s ", core.B(ks), rootTerm)
	if ob.Panic != "" {
		return "(" + head + "ClonePanic)", ob
	}
	if isNil {
		ob.Nil = true
		return "(" + head + "CloneNil)", ob
	}
	reqs, resps := pc.reqsResps(cacts)
	oreqs, oresps := pc.reqsResps(origActs)
	ob.OrigSame = strings.Join(oreqs, "|") == strings.Join(oreqsBefore, "|") && strings.Join(oresps, "|") == strings.Join(orespsBefore, "|")
	js, err := json.Marshal(cl)
	text := string(js)
	if err != nil {
		text = "json error: " + err.Error()
	}
	ob.JSONLen = len(text)
	var found, secret, plain []*Canary
	for _, a := range origActs {
		rec := pc.recs[a]
		groups := [][]*Canary{rec.reqC}
		copied := []bool{true}
		for _, cs := range rec.respC {
			groups = append(groups, cs)
			copied = append(copied, ks)
		}
		for gi, cs := range groups {
			for _, c := range cs {
				if c.NoJSON {
					continue // not serialised at all (hidden by a promoted MarshalJSON): compared through the model only
				}
				f := c.Found(text)
				if f {
					found = append(found, c)
				}
				switch {
				case c.Secret:
					secret = append(secret, c)
					if f {
						ob.Leaked = append(ob.Leaked, c.Pattern()+" @ "+c.Path)
					}
				case copied[gi]:
					plain = append(plain, c)
					if !f {
						ob.Missing = append(ob.Missing, c.Pattern()+" @ "+c.Path)
					}
				}
			}
		}
	}
	ob.NSecret, ob.NPlain = len(secret), len(plain)
	term := fmt.Sprintf("(%s(CloneOk %s %s %s %s %s %s %s))", head, core.List(reqs), core.List(resps), core.List(oreqs), core.List(oresps),
		leafList(pc.tab, found), leafList(pc.tab, secret), leafList(pc.tab, plain))
	return term, ob
}

// ---------------------------------------------------------------- reports.Render

type renderObs struct {
	Err     string   `json:"err,omitempty"`
	Panic   string   `json:"panic,omitempty"`
	Files   int      `json:"files"`
	Bytes   int      `json:"bytes"`
	Leaked  []string `json:"leaked,omitempty"`
	Missing []string `json:"missing,omitempty"`
	NSecret int      `json:"n_secret"`
	NExpect int      `json:"n_expect"`
}

func (pc *planCase) renderCase(planTerm string) (string, renderObs) {
	var ob renderObs
	var texts []string
	func() {
		defer func() {
			if r := recover(); r != nil {
				ob.Panic = fmt.Sprintf("%v\n%s", r, debug.Stack())
			}
		}()
		fsys, err := reports.Render(context.Background(), pc.plan)
		if err != nil {
			ob.Err = err.Error()
			return
		}
		werr := fs.WalkDir(fsys, ".", func(path string, d fs.DirEntry, err error) error {
			if err != nil {
				return err
			}
			if d.IsDir() {
				return nil
			}
			b, err := fsys.ReadFile(path)
			if err != nil {
				return err
			}
			ob.Files++
			ob.Bytes += len(b)
			texts = append(texts, string(b))
			return nil
		})
		if werr != nil {
			ob.Err = "walk: " + werr.Error()
		}
	}()
	ok := ob.Err == "" && ob.Panic == ""
	text := strings.Join(texts, "\n")
	var found, expect []*Canary
	for _, rec := range pc.order {
		groups := [][]*Canary{rec.reqC}
		shown := []bool{true}
		for i, cs := range rec.respC {
			groups = append(groups, cs)
			shown = append(shown, rec.a.Attempts[i].Err == nil) // action.tmpl prints Err instead of Resp when Err is set
		}
		for gi, cs := range groups {
			for _, c := range cs {
				if c.NoJSON {
					continue
				}
				f := c.Found(text)
				if f {
					found = append(found, c)
				}
				if c.Secret {
					ob.NSecret++
					if f {
						ob.Leaked = append(ob.Leaked, c.Pattern()+" @ "+c.Path)
					}
				} else if shown[gi] {
					expect = append(expect, c)
					if !f && ok {
						ob.Missing = append(ob.Missing, c.Pattern()+" @ "+c.Path)
					}
				}
			}
		}
	}
	ob.NExpect = len(expect)
	term := fmt.Sprintf("(CRender %s %s %s %s)", planTerm, core.B(ok), leafList(pc.tab, found), leafList(pc.tab, expect))
	return term, ob
}

// ---------------------------------------------------------------- clone.Plan with WithRemoveCompletedSequences

type keptObs struct {
	KeepState bool     `json:"keep_state"`
	Nil       bool     `json:"nil,omitempty"`
	Panic     string   `json:"panic,omitempty"`
	Kept      int      `json:"kept_actions"`
	Dropped   int      `json:"dropped_actions"`
	NilActs   int      `json:"nil_actions_in_result"`
	Blocks    int      `json:"blocks_in_result"`
	Leaked    []string `json:"leaked,omitempty"`
	Missing   []string `json:"missing,omitempty"`
	NSecret   int      `json:"n_secret"`
}

// removeCompletedCase clones the plan with WithRemoveCompletedSequences (and WithKeepState if ks). Which objects the
// option drops is not C17's business: every request / response STILL in the result is paired with the original's (by
// action name) and must be its scrubbed copy; nil actions left in the result are treated as absent.
func (pc *planCase) removeCompletedCase(ks bool) (string, keptObs, bool) {
	ob := keptObs{KeepState: ks}
	opts := []clone.Option{clone.WithRemoveCompletedSequences()}
	if ks {
		opts = append(opts, clone.WithKeepState())
	}
	byName := map[string]*workflow.Action{}
	for _, a := range actionsOfPlan(pc.plan) {
		byName[a.Name] = a
	}
	var cl *workflow.Plan
	func() {
		defer func() {
			if r := recover(); r != nil {
				ob.Panic = fmt.Sprintf("%v\n%s", r, debug.Stack())
			}
		}()
		cl = clone.Plan(context.Background(), pc.plan, opts...)
	}()
	if ob.Panic != "" {
		return "", ob, false // the option's own (known, non-C17) problems: not judged here
	}
	if cl == nil {
		ob.Nil = true
		return "", ob, false
	}
	ob.Blocks = len(cl.Blocks)
	js, err := json.Marshal(cl)
	text := string(js)
	if err != nil {
		text = "json error: " + err.Error()
	}
	var pairs []string
	var found, secret, plain []*Canary
	keptSet := map[*workflow.Action]bool{}
	for _, ca := range actionsOfPlan(cl) {
		if ca == nil {
			ob.NilActs++
			continue
		}
		oa := byName[ca.Name]
		if oa == nil {
			continue
		}
		keptSet[oa] = true
		ob.Kept++
		pairs = append(pairs, core.Pair(AbstractAny(pc.tab, ca.Req), AbstractAny(pc.tab, oa.Req)))
		for i, at := range ca.Attempts {
			if i < len(oa.Attempts) {
				pairs = append(pairs, core.Pair(AbstractAny(pc.tab, at.Resp), AbstractAny(pc.tab, oa.Attempts[i].Resp)))
			}
		}
	}
	for _, rec := range pc.order {
		groups := [][]*Canary{rec.reqC}
		present := []bool{keptSet[rec.a]}
		for _, cs := range rec.respC {
			groups = append(groups, cs)
			present = append(present, keptSet[rec.a] && ks)
		}
		if !keptSet[rec.a] {
			ob.Dropped++
		}
		for gi, cs := range groups {
			for _, c := range cs {
				if c.NoJSON {
					continue
				}
				f := c.Found(text)
				if f {
					found = append(found, c)
				}
				switch {
				case c.Secret:
					secret = append(secret, c)
					if f {
						ob.Leaked = append(ob.Leaked, c.Pattern()+" @ "+c.Path)
					}
				case present[gi]:
					plain = append(plain, c)
					if !f {
						ob.Missing = append(ob.Missing, c.Pattern()+" @ "+c.Path)
					}
				}
			}
		}
	}
	ob.NSecret = len(secret)
	term := fmt.Sprintf("(CKept %s %s %s %s)", core.List(pairs), leafList(pc.tab, found), leafList(pc.tab, secret), leafList(pc.tab, plain))
	return term, ob, true
}
