package main

// Statically declared (named) types, as a plugin author would write them - what reflect.StructOf cannot build:
// named string types, embedded structs of exported and UNEXPORTED types (whose exported fields are promoted and
// serialised), embedded *struct, ordinary unexported fields, []byte secrets, **T, *[]T, *map, *any, time elements.
// They carry canaries and go through the same abstraction and the same comparison as the generated types.

import (
	"encoding/json"
	"fmt"
	"strings"
	"time"

	"verifharness/core"
)

type Token string

type Creds struct {
	User     string
	Password string `coerce:"secure"`
	Key      []byte `coerce:"secure"`
}

type Base struct {
	Region string
	Token  Token `coerce:"secure"`
}

type Endpoint struct {
	URL   string
	Creds Creds
	When  time.Time
}

type StaticReq struct {
	Base
	Name      string
	Endpoints []Endpoint
	ByName    map[string]*Endpoint
	Extra     map[string]any
	Any       any
	Times     []time.Time
	TimeMap   map[string]time.Time
	TimePtrs  []*time.Time
	PP        **Creds
	PSlice    *[]Creds
	PMap      *map[string]Creds
	PAny      *any
	Limit     int64     `coerce:"secure"`
	Expires   time.Time `coerce:"secure"`
}

// base and more are UNEXPORTED types: embedded, their exported fields are promoted.
type base struct {
	Password string `coerce:"secure"`
	Region   string
	When     time.Time
	note     string // ordinary unexported field: out of scope of the scrubber, must survive copies
}

type more struct {
	APIKey string `coerce:"secure"`
	Zone   string
}

type EmbReq struct {
	base
	*more
	Name string
}

type EmbHolder struct {
	ByPtr  *EmbReq
	ByAny  any // EmbReq by value
	AnyPtr any // *EmbReq
	Slice  []EmbReq
	Map    map[string]EmbReq
	PtrMap map[string]*EmbReq
	NoMore EmbReq // embedded *more is nil
	Title  string
}

// ---- a secure (or ignore) tag ON an embedded field of unexported type (X6): every promoted field is secret
type EmbTagged struct {
	base  `coerce:"secure"`
	*more `coerce:"secure"`
	Name  string
}
type deep2 struct {
	Low string
	N   int64
}
type deep1 struct {
	deep2
	Top  string
	priv string
}
type EmbDeep struct {
	deep1 `coerce:"secure"`
	Keep  string
}
type EmbNil struct {
	*more `coerce:"secure"`
	Keep  string
}
type EmbIgn struct {
	base `coerce:"ignore"`
	Name string
}
type TagHolder struct {
	P     *EmbTagged
	A     any // EmbTagged by value
	AP    any // *EmbDeep
	L     []EmbTagged
	M     map[string]EmbDeep
	D     *EmbDeep
	N     EmbNil
	I     EmbIgn
	Title string
}

func (p *planter) secretTime(path string) time.Time { return p.tm(true, path) }

func (p *planter) embTagged(path string, withMore bool) EmbTagged {
	r := EmbTagged{
		base: base{Password: p.secret(path + ".base.Password"), Region: p.secret(path + ".base.Region"), When: p.secretTime(path + ".base.When"),
			note: p.hiddenField(path + ".base.note")},
		Name: p.plain(path + ".Name"),
	}
	if withMore {
		r.more = &more{APIKey: p.secret(path + ".more.APIKey"), Zone: p.secret(path + ".more.Zone")}
	}
	return r
}

func (p *planter) embDeep(path string) EmbDeep {
	return EmbDeep{deep1: deep1{deep2: deep2{Low: p.secret(path + ".deep1.deep2.Low"), N: p.add("n", true, false, path+".deep1.deep2.N").Num},
		Top: p.secret(path + ".deep1.Top"), priv: p.hiddenField(path + ".deep1.priv")}, Keep: p.plain(path + ".Keep")}
}

func (p *planter) tagHolder(path string, variant int) *TagHolder {
	pt := p.embTagged(path+".P*", true)
	d := p.embDeep(path + ".D*")
	ap := p.embDeep(path + ".AP.(dyn)*")
	h := &TagHolder{
		P: &pt, A: p.embTagged(path+".A.(dyn)", variant%2 == 0), AP: &ap,
		L: []EmbTagged{p.embTagged(path+".L[0]", true), p.embTagged(path+".L[1]", false)},
		M: map[string]EmbDeep{"k": p.embDeep(path + ".M[k]")}, D: &d,
		N: EmbNil{Keep: p.plain(path + ".N.Keep")},
		I: EmbIgn{base: base{Password: p.secret(path + ".I.base.Password"), Region: p.plain(path + ".I.base.Region"), When: p.tm(false, path+".I.base.When"),
			note: p.hiddenField(path + ".I.base.note")}, Name: p.plain(path + ".I.Name")},
		Title: p.plain(path + ".Title"),
	}
	return h
}

const nTagPayloads = 4

func (p *planter) tagPayload(k int, path string) (any, string) {
	switch k % nTagPayloads {
	case 0:
		return p.tagHolder(path+"*", k/nTagPayloads), "*TagHolder (embedded fields of unexported type tagged secure / ignore: by pointer, any, slice, map; two levels; nil *struct)"
	case 1:
		e := p.embTagged(path+"*", true)
		return &e, "*EmbTagged{base `secure`; *more `secure`; Name}"
	case 2:
		return p.embDeep(path), "EmbDeep{deep1 `secure` (embeds deep2); Keep} by value"
	default:
		e := p.embTagged(path, false)
		return e, "EmbTagged by value, embedded *more nil"
	}
}

// planter hands out canaries with the harness's own labels.
type planter struct {
	cans      []*Canary
	n         int
	secFields int
}

func (p *planter) add(kind string, secret, noJSON bool, path string) *Canary {
	p.n++
	c := &Canary{Kind: kind, Secret: secret, NoJSON: noJSON, Path: path, Depth: 4, Pair: "static"}
	switch kind {
	case "s":
		c.Str = fmt.Sprintf("cnry9%04dq", p.n)
	case "n":
		c.Num = 7700900077 + int64(p.n)*100
	default:
		c.Num = timeBase.Unix() + 900000 + int64(p.n)
	}
	if secret {
		p.secFields++
	}
	p.cans = append(p.cans, c)
	return c
}

// drop forgets the canaries planted under the given path prefixes (the value holding them is not used).
func (p *planter) drop(prefixes ...string) {
	var keep []*Canary
	for _, c := range p.cans {
		dropped := false
		for _, pre := range prefixes {
			if strings.HasPrefix(c.Path, pre) {
				dropped = true
			}
		}
		if dropped {
			if c.Secret {
				p.secFields--
			}
			continue
		}
		keep = append(keep, c)
	}
	p.cans = keep
}
func (p *planter) plain(path string) string  { return p.add("s", false, false, path).Str }
func (p *planter) secret(path string) string { return p.add("s", true, false, path).Str }
func (p *planter) hiddenField(path string) string {
	return p.add("s", false, true, path).Str
}
func (p *planter) tm(secret bool, path string) time.Time {
	return time.Unix(p.add("t", secret, false, path).Num, 0).UTC()
}

func (p *planter) creds(path string) Creds {
	return Creds{User: p.plain(path + ".User"), Password: p.secret(path + ".Password"), Key: []byte(p.secret(path + ".Key"))}
}

func (p *planter) embReq(path string, withMore bool) EmbReq {
	r := EmbReq{
		base: base{Password: p.secret(path + ".base.Password"), Region: p.plain(path + ".base.Region"), When: p.tm(false, path+".base.When"),
			note: p.hiddenField(path + ".base.note")},
		Name: p.plain(path + ".Name"),
	}
	if withMore {
		r.more = &more{APIKey: p.secret(path + ".more.APIKey"), Zone: p.plain(path + ".more.Zone")}
	}
	return r
}

func staticCases(w *core.Writer, r *core.Rand) {
	// ---- named types, exported embedded struct, pointers to non-struct values, time elements
	for i := 0; i < 2; i++ {
		p := &planter{}
		c1 := p.creds("PP**")
		pc := &c1
		sl := []Creds{p.creds("PSlice*[0]"), p.creds("PSlice*[1]")}
		mp := map[string]Creds{"x": p.creds("PMap*[x]")}
		var an any = p.creds("PAny*.(dyn)")
		t1 := p.tm(false, "TimePtrs[0]*")
		req := &StaticReq{
			Base: Base{Region: p.plain("Base.Region"), Token: Token(p.secret("Base.Token"))}, Name: p.plain("Name"),
			Endpoints: []Endpoint{{URL: p.plain("Endpoints[0].URL"), Creds: p.creds("Endpoints[0].Creds"), When: p.tm(false, "Endpoints[0].When")}},
			ByName:    map[string]*Endpoint{"m": {URL: p.plain("ByName[m].URL"), Creds: p.creds("ByName[m].Creds"), When: p.tm(false, "ByName[m].When")}},
			Extra: map[string]any{"a": p.creds("Extra[a]"), "b": &Endpoint{Creds: p.creds("Extra[b]*.Creds")},
				"c": []any{p.creds("Extra[c][0]"), p.plain("Extra[c][1]")}, "d": p.tm(false, "Extra[d]")},
			Any:   []any{map[string]any{"z": p.creds("Any[0][z]")}},
			Times: []time.Time{p.tm(false, "Times[0]"), p.tm(false, "Times[1]")}, TimeMap: map[string]time.Time{"t": p.tm(false, "TimeMap[t]")},
			TimePtrs: []*time.Time{&t1},
			PP:       &pc, PSlice: &sl, PMap: &mp, PAny: &an,
			Limit: p.add("n", true, false, "Limit").Num, Expires: p.tm(true, "Expires"),
		}
		if i == 1 {
			req.Any = p.creds("Any.(dyn)")
			req.PP, req.PSlice, req.PMap, req.PAny = nil, nil, nil, nil
			p.drop("PP", "PSlice", "PMap", "PAny*", "Any[0]")
		}
		runSecure(w, fmt.Sprintf("static-%d", i), "secure-static",
			"*StaticReq (named types, exported embedded struct, []byte, **T, *[]T, *map, *any, time elements)", "ptr", req, p.cans, p.secFields)
	}
	// ---- embedded struct / *struct of unexported types: by pointer, by value in an `any`, in a slice, as a map value
	for i := 0; i < 3; i++ {
		p := &planter{}
		byPtr := p.embReq("ByPtr*", true)
		anyPtr := p.embReq("AnyPtr.(dyn)*", i != 2)
		ptrMap := p.embReq("PtrMap[k]*", true)
		h := &EmbHolder{
			ByPtr: &byPtr, ByAny: p.embReq("ByAny.(dyn)", true), AnyPtr: &anyPtr,
			Slice:  []EmbReq{p.embReq("Slice[0]", true), p.embReq("Slice[1]", i == 0)},
			Map:    map[string]EmbReq{"k": p.embReq("Map[k]", true)},
			PtrMap: map[string]*EmbReq{"k": &ptrMap},
			NoMore: p.embReq("NoMore", false), Title: p.plain("Title"),
		}
		var x any = h
		name := "*EmbHolder (embedded unexported struct and *struct: by pointer, by value in any, in a slice, as map value)"
		switch i {
		case 1: // the request itself, by pointer
			x, name = &byPtr, "*EmbReq (embedded unexported struct and *struct)"
			p2 := &planter{}
			r2 := p2.embReq("v*", true)
			x, p = &r2, p2
		case 2:
			h.ByPtr, h.PtrMap = nil, nil
			p.drop("ByPtr", "PtrMap")
		}
		runSecure(w, fmt.Sprintf("static-emb-%d", i), "secure-static", name, "ptr", x, p.cans, p.secFields)
	}
	// ---- a secure / ignore tag on the embedded field itself
	for k := 0; k < 2*nTagPayloads; k++ {
		p := &planter{}
		x, name := p.tagPayload(k, "v")
		switch v := x.(type) {
		case EmbDeep:
			x, name = &v, "*"+name
		case EmbTagged:
			x, name = &v, "*"+name
		}
		runSecure(w, fmt.Sprintf("static-tag-%d", k), "secure-static", name, "ptr", x, p.cans, p.secFields)
	}
	// ---- types with methods (json.Marshaler by value / pointer receiver, embedded, as fields; TextMarshaler; Stringer; error)
	for k := 0; k < nMethodPayloads; k++ {
		p := &planter{}
		x, name := methodRoot(p, k)
		runSecure(w, fmt.Sprintf("static-meth-%d", k), "secure-static", name, "ptr", x, p.cans, p.secFields)
	}
	// ---- self-recursive and mutually recursive types, finite values, secrets at depth 1..4
	for k := 0; k < 3*nRecPayloads; k++ {
		p := &planter{}
		x, name := recRoot(p, k)
		runSecure(w, fmt.Sprintf("static-rec-%d", k), "secure-static", name, "ptr", x, p.cans, p.secFields)
	}
}

func jsonOf(x any) string {
	b, err := json.Marshal(x)
	if err != nil {
		return "json error: " + err.Error()
	}
	return string(b)
}
