package main

// A few statically declared (named) types, as a plugin author would write them: named string types,
// embedded structs, []byte secrets, time fields. They go through the same abstraction.

import (
	"encoding/json"
	"fmt"
	"reflect"
	"runtime/debug"
	"time"

	"verifharness/core"

	"github.com/element-of-surprise/coercion/workflow/utils/clone"
)

type Token string

type Creds struct {
	User     string
	Password string `coerce:"secure"`
	Key      []byte `coerce:"secure"`
}

type Base struct {
	Region string
	Token  Token `coerce:"secure"`
}

type Endpoint struct {
	URL   string
	Creds Creds
	When  time.Time
}

type StaticReq struct {
	Base
	Name      string
	Endpoints []Endpoint
	ByName    map[string]*Endpoint
	Extra     map[string]any
	Any       any
	Times     []time.Time
	TimeMap   map[string]time.Time
	TimePtrs  []*time.Time
	PP        **Creds
	PSlice    *[]Creds
	PMap      *map[string]Creds
	PAny      *any
	Limit     int `coerce:"secure"`
	Expires   time.Time `coerce:"secure"`
}

func staticCases(w *core.Writer, r *core.Rand) {
	mk := func(i int) *StaticReq {
		s := func(k string) string { return fmt.Sprintf("cnry9%d%sq", i, k) }
		tm := func(k int) time.Time { return timeBase.Add(time.Duration(900000+i*100+k) * time.Second) }
		cr := func(k string) Creds { return Creds{User: s("u" + k), Password: s("p" + k), Key: []byte(s("k" + k))} }
		c1 := cr("a")
		pc := &c1
		sl := []Creds{cr("b"), cr("c")}
		mp := map[string]Creds{"x": cr("d")}
		var an any = cr("e")
		t1 := tm(1)
		req := &StaticReq{
			Base: Base{Region: s("r"), Token: Token(s("t"))}, Name: s("n"),
			Endpoints: []Endpoint{{URL: s("url"), Creds: cr("f"), When: tm(2)}},
			ByName:    map[string]*Endpoint{"m": {URL: s("url2"), Creds: cr("g"), When: tm(3)}},
			Extra:     map[string]any{"a": cr("h"), "b": &Endpoint{Creds: cr("i")}, "c": []any{cr("j"), s("plain")}, "d": tm(4)},
			Any:       []any{map[string]any{"z": cr("k")}},
			Times:     []time.Time{tm(5), tm(6)}, TimeMap: map[string]time.Time{"t": tm(7)}, TimePtrs: []*time.Time{&t1},
			PP: &pc, PSlice: &sl, PMap: &mp, PAny: &an, Limit: 7700099077 + i, Expires: tm(8),
		}
		if i == 1 {
			req.Any = cr("l")
			req.PP, req.PSlice, req.PMap, req.PAny = nil, nil, nil, nil
		}
		return req
	}
	for i := 0; i < 2; i++ {
		tab := NewTable()
		x := mk(i)
		before := Abstract(tab, reflect.ValueOf(x))
		ob := secureObs{Type: "StaticReq (named types, embedded struct, []byte, **T, *[]T, *map, *any, time elements)"}
		var err error
		func() {
			defer func() {
				if rec := recover(); rec != nil {
					ob.Panic = fmt.Sprintf("%v\n%s", rec, debug.Stack())
				}
			}()
			err = clone.Secure(x)
		}()
		o := "ObsPanic"
		switch {
		case ob.Panic != "":
			ob.Result = "panic"
		case err != nil:
			ob.Result, o = "err", "ObsErr"
		default:
			ob.Result = "ok"
			o = core.App("ObsOk", Abstract(tab, reflect.ValueOf(x)))
			ob.After = jsonOf(x)
		}
		w.Put(core.Case{ID: fmt.Sprintf("static-%d", i), Kind: "secure-static", Coq: fmt.Sprintf("(CSecure %s %s)", before, o),
			Nontrivial: true, Hash: core.Hash(before, o),
			Dist:     map[string]any{"depth": 5, "secure_leaves": 40, "pairs": []string{"static"}, "result": ob.Result, "root": "ptr"},
			Input:    map[string]any{"type": ob.Type, "variant": i},
			Observed: ob})
	}
}

func jsonOf(x any) string {
	b, err := json.Marshal(x)
	if err != nil {
		return "json error: " + err.Error()
	}
	return string(b)
}
