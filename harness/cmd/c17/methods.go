package main

// Hand-declared request/response types WITH METHODS. Methods must make no difference to scrubbing (the model has no
// notion of methods: that is the specification): json.Marshaler by value and by pointer receiver (alias pattern, so the
// secure-tagged fields ARE serialised), structs embedding such a type (the method is promoted), fields of such types by
// value / pointer / in a slice / in a map / behind an `any`, encoding.TextMarshaler, fmt.Stringer and error implementers.

import (
	"encoding/json"
	"fmt"
	"time"
)

type MReq struct {
	User     string
	Password string `coerce:"secure"`
	Inner    Creds
	Seen     time.Time
}

// value receiver; the alias pattern adds a discriminator and serialises every field
func (m MReq) MarshalJSON() ([]byte, error) {
	type alias MReq
	return json.Marshal(struct {
		alias
		Kind string
	}{alias(m), "mreq"})
}

type PReq struct {
	Owner  string
	APIKey string `coerce:"secure"`
	Nested *Creds
}

// pointer receiver
func (p *PReq) MarshalJSON() ([]byte, error) {
	if p == nil {
		return []byte("null"), nil
	}
	type alias PReq
	return json.Marshal(struct {
		*alias
		Kind string
	}{(*alias)(p), "preq"})
}

// Wrap embeds a json.Marshaler: MarshalJSON is promoted (so Extra and Note are not even serialised).
type Wrap struct {
	MReq
	Extra string `coerce:"secure"`
	Note  string
}

type WrapP struct {
	*PReq
	Pin  string `coerce:"secure"`
	Note string
}

type TReq struct {
	ID     string
	Cipher string `coerce:"secure"`
}

func (t TReq) MarshalText() ([]byte, error) { return []byte(t.ID + "|" + t.Cipher), nil }

type SReq struct {
	Label  string
	Cookie string `coerce:"secure"`
}

func (s SReq) String() string { return "SReq(" + s.Label + ")" }

type EReq struct {
	Msg   string
	Trace string `coerce:"secure"`
}

func (e *EReq) Error() string { return e.Msg }

type Carrier struct {
	V     MReq
	P     *PReq
	L     []MReq
	LP    []*PReq
	M     map[string]PReq
	MV    map[string]*MReq
	A     any // MReq by value
	AP    any // *PReq
	W     Wrap
	WP    *WrapP
	T     TReq
	TP    *TReq
	TL    []TReq
	S     SReq
	E     *EReq
	EI    any // error value holding *EReq
	Plain string
}

func (p *planter) hiddenSecret(path string) string { return p.add("s", true, true, path).Str }

func (p *planter) mreq(path string) MReq {
	return MReq{User: p.plain(path + ".User"), Password: p.secret(path + ".Password"), Inner: p.creds(path + ".Inner"), Seen: p.tm(false, path+".Seen")}
}

func (p *planter) preq(path string) *PReq {
	c := p.creds(path + ".Nested*")
	return &PReq{Owner: p.plain(path + ".Owner"), APIKey: p.secret(path + ".APIKey"), Nested: &c}
}

func (p *planter) treq(path string) TReq {
	return TReq{ID: p.plain(path + ".ID"), Cipher: p.secret(path + ".Cipher")}
}

func (p *planter) wrap(path string) Wrap {
	return Wrap{MReq: p.mreq(path + ".MReq"), Extra: p.hiddenSecret(path + ".Extra"), Note: p.hiddenField(path + ".Note")}
}

func (p *planter) wrapP(path string) *WrapP {
	return &WrapP{PReq: p.preq(path + ".PReq*"), Pin: p.hiddenSecret(path + ".Pin"), Note: p.hiddenField(path + ".Note")}
}

func (p *planter) carrier(path string) *Carrier {
	tp := p.treq(path + ".TP*")
	mv := p.mreq(path + ".MV[k]*")
	e := &EReq{Msg: p.plain(path + ".EI.(dyn)*.Msg"), Trace: p.secret(path + ".EI.(dyn)*.Trace")}
	var err error = e
	return &Carrier{
		V: p.mreq(path + ".V"), P: p.preq(path + ".P*"),
		L: []MReq{p.mreq(path + ".L[0]"), p.mreq(path + ".L[1]")}, LP: []*PReq{p.preq(path + ".LP[0]*")},
		M: map[string]PReq{"k": *p.preq(path + ".M[k]")}, MV: map[string]*MReq{"k": &mv},
		A: p.mreq(path + ".A.(dyn)"), AP: p.preq(path + ".AP.(dyn)*"),
		W: p.wrap(path + ".W"), WP: p.wrapP(path + ".WP*"),
		T: p.treq(path + ".T"), TP: &tp, TL: []TReq{p.treq(path + ".TL[0]")},
		S: SReq{Label: p.plain(path + ".S.Label"), Cookie: p.secret(path + ".S.Cookie")},
		E: &EReq{Msg: p.plain(path + ".E*.Msg"), Trace: p.secret(path + ".E*.Trace")}, EI: err,
		Plain: p.plain(path + ".Plain"),
	}
}

const nMethodPayloads = 9

// methodPayload builds the k-th kind of request/response value with methods (what is put into an `any`).
func (p *planter) methodPayload(k int, path string) (any, string) {
	switch k % nMethodPayloads {
	case 0:
		return p.carrier(path + "*"), "*Carrier (fields of json.Marshaler / TextMarshaler / Stringer / error types: by value, pointer, slice, map, any; embedded)"
	case 1:
		return p.mreq(path), "MReq (value-receiver MarshalJSON, alias pattern)"
	case 2:
		m := p.mreq(path + "*")
		return &m, "*MReq (value-receiver MarshalJSON, alias pattern)"
	case 3:
		return p.preq(path + "*"), "*PReq (pointer-receiver MarshalJSON, alias pattern)"
	case 4:
		return *p.preq(path), "PReq by value (pointer-receiver MarshalJSON)"
	case 5:
		w := p.wrap(path + "*")
		return &w, "*Wrap (embeds a json.Marshaler: promoted MarshalJSON)"
	case 6:
		return p.wrapP(path + "*"), "*WrapP (embeds a *json.Marshaler)"
	case 7:
		t := p.treq(path + "*")
		return &t, "*TReq (encoding.TextMarshaler)"
	default:
		return &struct {
			S  SReq
			E  *EReq
			Er error
		}{SReq{Label: p.plain(path + "*.S.Label"), Cookie: p.secret(path + "*.S.Cookie")},
			&EReq{Msg: p.plain(path + "*.E*.Msg"), Trace: p.secret(path + "*.E*.Trace")},
			&EReq{Msg: p.plain(path + "*.Er.(dyn)*.Msg"), Trace: p.secret(path + "*.Er.(dyn)*.Trace")}}, "*struct{S SReq; E *EReq; Er error} (fmt.Stringer, error implementers)"
	}
}

// methodRoots: the same kinds as pointers to structs, for clone.Secure directly.
func methodRoot(p *planter, k int) (any, string) {
	x, name := p.methodPayload(k, "v")
	switch v := x.(type) {
	case MReq:
		return &v, "*" + name
	case PReq:
		return &v, "*" + name
	}
	return x, name
}

var _ = fmt.Sprint
