package main

// Registry cases: plugins whose Request()/Response() are generated types.

import (
	"fmt"
	"reflect"
	"time"

	"verifharness/core"

	"github.com/element-of-surprise/coercion/plugins"
	"github.com/element-of-surprise/coercion/plugins/registry"
	"github.com/element-of-surprise/coercion/workflow/context"
	"github.com/gostdlib/base/retry/exponential"
)

type dynPlugin struct {
	name      string
	req, resp any
}

func (p *dynPlugin) Name() string { return p.name }
func (p *dynPlugin) Execute(ctx context.Context, req any) (any, *plugins.Error) {
	return p.resp, nil
}
func (p *dynPlugin) ValidateReq(req any) error { return nil }
func (p *dynPlugin) Request() any              { return p.req }
func (p *dynPlugin) Response() any             { return p.resp }
func (p *dynPlugin) IsCheck() bool             { return false }
func (p *dynPlugin) RetryPolicy() exponential.Policy {
	return exponential.Policy{InitialInterval: time.Millisecond, Multiplier: 2, RandomizationFactor: 0, MaxInterval: time.Second}
}
func (p *dynPlugin) Init() error { return nil }

// tyTerm renders a type as a Registry.ty term.
func tyTerm(t *Table, n *TNode) string {
	switch n.Kind {
	case KStr:
		return "TyStr"
	case KInt, KInt64, KUint64, KFloat:
		return "TyNum"
	case KBool:
		return "TyBool"
	case KTime:
		return "TyTime"
	case KIface:
		return "TyIface"
	case KStruct:
		fs := make([]string, len(n.Fields))
		for i, f := range n.Fields {
			// the tag as the harness reads the concrete spelling back (parseTag), not the generator's intention
			tag := parseTag(reflect.StructTag(f.TagText))
			fs[i] = core.Pair(fmt.Sprintf("{| t_name := %s; t_secretish := %s; t_tag := %s |}", core.N(t.nameID(f.Name)), core.B(looksSecret(f.Name)), tag.Coq()), tyTerm(t, f.Type))
		}
		return core.App("TyStruct", core.List(fs))
	case KPtr:
		return core.App("TyPtr", tyTerm(t, n.Elem))
	case KSlice:
		return core.App("TySlice", tyTerm(t, n.Elem))
	case KMap:
		return core.App("TyMap", tyTerm(t, n.Elem))
	case KArray:
		return core.App("TyArray", tyTerm(t, n.Elem))
	}
	return "TyNum"
}

// offending lists the paths of fields with a secret-looking name and neither tag, with the constructors above them
// (harness bookkeeping for the distribution and for replays; the verdict comes from the Coq model).
func offending(n *TNode, path, ctors string, out *[][2]string) {
	switch n.Kind {
	case KStruct:
		for _, f := range n.Fields {
			tag := parseTag(reflect.StructTag(f.TagText))
			if looksSecret(f.Name) && tag == TagNone {
				*out = append(*out, [2]string{path + "." + f.Name, ctors + "S"})
			}
			offending(f.Type, path+"."+f.Name, ctors+"S", out)
		}
	case KPtr, KSlice, KMap, KArray:
		offending(n.Elem, path+"{"+kletter[n.Kind]+"}", ctors+kletter[n.Kind], out)
	case KIface:
		if n.Dyn != nil {
			offending(n.Dyn, path+"{I}", ctors+"I", out)
		}
	}
}

type regObs struct {
	ReqType    string      `json:"req_type"`
	RespType   string      `json:"resp_type"`
	Registered bool        `json:"registered"`
	Err        string      `json:"err,omitempty"`
	Panic      string      `json:"panic,omitempty"`
	Offending  [][2]string `json:"offending,omitempty"`
}

// zeroOf returns the zero value of the type as Request()/Response() would (an `any`).
func zeroOf(n *TNode, pointer bool) any {
	if pointer {
		return reflect.New(n.RType()).Interface()
	}
	return reflect.New(n.RType()).Elem().Interface()
}

func regCase(t *Table, req, resp *TNode, reqPtr, respPtr bool) (string, regObs) {
	ob := regObs{ReqType: req.String(), RespType: resp.String()}
	if reqPtr {
		ob.ReqType = "*" + ob.ReqType
	}
	if respPtr {
		ob.RespType = "*" + ob.RespType
	}
	offending(req, "Req", "", &ob.Offending)
	offending(resp, "Resp", "", &ob.Offending)
	func() {
		defer func() {
			if r := recover(); r != nil {
				ob.Panic = fmt.Sprint(r)
			}
		}()
		reg := registry.New()
		err := reg.Register(&dynPlugin{name: "verif/c17", req: zeroOf(req, reqPtr), resp: zeroOf(resp, respPtr)})
		ob.Registered = err == nil && reg.Plugin("verif/c17") != nil
		if err != nil {
			ob.Err = err.Error()
		}
	}()
	rt, pt := tyTerm(t, req), tyTerm(t, resp)
	if reqPtr {
		rt = core.App("TyPtr", rt)
	}
	if respPtr {
		pt = core.App("TyPtr", pt)
	}
	return fmt.Sprintf("(CReg %s %s %s)", rt, pt, core.B(ob.Registered)), ob
}
