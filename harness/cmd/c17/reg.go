package main

// Registry cases: plugins whose Request()/Response() are generated types.

import (
	"fmt"
	"reflect"
	"strings"
	"time"

	"verifharness/core"

	"github.com/element-of-surprise/coercion/plugins"
	"github.com/element-of-surprise/coercion/plugins/registry"
	"github.com/element-of-surprise/coercion/workflow/context"
	"github.com/gostdlib/base/retry/exponential"
)

type dynPlugin struct {
	name      string
	req, resp any
}

func (p *dynPlugin) Name() string { return p.name }
func (p *dynPlugin) Execute(ctx context.Context, req any) (any, *plugins.Error) {
	return p.resp, nil
}
func (p *dynPlugin) ValidateReq(req any) error { return nil }
func (p *dynPlugin) Request() any              { return p.req }
func (p *dynPlugin) Response() any             { return p.resp }
func (p *dynPlugin) IsCheck() bool             { return false }
func (p *dynPlugin) RetryPolicy() exponential.Policy {
	return exponential.Policy{InitialInterval: time.Millisecond, Multiplier: 2, RandomizationFactor: 0, MaxInterval: time.Second}
}
func (p *dynPlugin) Init() error { return nil }

// tyTerm renders a type as a Registry.ty term.
func tyTerm(t *Table, n *TNode) string {
	switch n.Kind {
	case KStr:
		return "TyStr"
	case KInt, KInt64, KUint64, KFloat:
		return "TyNum"
	case KBool:
		return "TyBool"
	case KTime:
		return "TyTime"
	case KIface:
		return "TyIface"
	case KStruct:
		fs := make([]string, len(n.Fields))
		for i, f := range n.Fields {
			// the tag as the harness reads the concrete spelling back (parseTag), not the generator's intention
			tag := parseTag(reflect.StructTag(f.TagText))
			fs[i] = core.Pair(fmt.Sprintf("{| t_name := %s; t_secretish := %s; t_tag := %s |}", core.N(t.nameID(f.Name)), core.B(looksSecret(f.Name)), tag.Coq()), tyTerm(t, f.Type))
		}
		return core.App("TyStruct", core.List(fs))
	case KPtr:
		return core.App("TyPtr", tyTerm(t, n.Elem))
	case KSlice:
		return core.App("TySlice", tyTerm(t, n.Elem))
	case KMap:
		return core.App("TyMap", "TyStr", tyTerm(t, n.Elem))
	case KArray:
		return core.App("TyArray", tyTerm(t, n.Elem))
	}
	return "TyNum"
}

// offending lists the paths of fields with a secret-looking name and neither tag, with the constructors above them
// (harness bookkeeping for the distribution and for replays; the verdict comes from the Coq model).
func offending(n *TNode, path, ctors string, out *[][2]string) {
	switch n.Kind {
	case KStruct:
		for _, f := range n.Fields {
			tag := parseTag(reflect.StructTag(f.TagText))
			if looksSecret(f.Name) && tag == TagNone {
				*out = append(*out, [2]string{path + "." + f.Name, ctors + "S"})
			}
			offending(f.Type, path+"."+f.Name, ctors+"S", out)
		}
	case KPtr, KSlice, KMap, KArray:
		offending(n.Elem, path+"{"+kletter[n.Kind]+"}", ctors+kletter[n.Kind], out)
	case KIface:
		if n.Dyn != nil {
			offending(n.Dyn, path+"{I}", ctors+"I", out)
		}
	}
}

type regObs struct {
	ReqType    string      `json:"req_type"`
	RespType   string      `json:"resp_type"`
	Registered bool        `json:"registered"`
	Err        string      `json:"err,omitempty"`
	Panic      string      `json:"panic,omitempty"`
	Offending  [][2]string `json:"offending,omitempty"`
}

// zeroOf returns the zero value of the type as Request()/Response() would (an `any`).
func zeroOf(n *TNode, pointer bool) any {
	if pointer {
		return reflect.New(n.RType()).Interface()
	}
	return reflect.New(n.RType()).Elem().Interface()
}

func regCase(t *Table, req, resp *TNode, reqPtr, respPtr bool) (string, regObs) {
	ob := regObs{ReqType: req.String(), RespType: resp.String()}
	if reqPtr {
		ob.ReqType = "*" + ob.ReqType
	}
	if respPtr {
		ob.RespType = "*" + ob.RespType
	}
	offending(req, "Req", "", &ob.Offending)
	offending(resp, "Resp", "", &ob.Offending)
	register(&ob, zeroOf(req, reqPtr), zeroOf(resp, respPtr))
	rt, pt := tyTerm(t, req), tyTerm(t, resp)
	if reqPtr {
		rt = core.App("TyPtr", rt)
	}
	if respPtr {
		pt = core.App("TyPtr", pt)
	}
	return fmt.Sprintf("(CReg %s %s %s)", rt, pt, core.B(ob.Registered)), ob
}

// register runs the real Register on a plugin with these Request()/Response() values.
func register(ob *regObs, req, resp any) {
	func() {
		defer func() {
			if r := recover(); r != nil {
				ob.Panic = fmt.Sprint(r)
			}
		}()
		reg := registry.New()
		err := reg.Register(&dynPlugin{name: "verif/c17", req: req, resp: resp})
		ob.Registered = err == nil && reg.Plugin("verif/c17") != nil
		if err != nil {
			ob.Err = err.Error()
		}
	}()
}

// tyOf abstracts a Go type (of a hand-declared plugin request/response) to a Registry.ty term, with reflect only.
// It also lists the untagged secret-looking fields it meets (harness bookkeeping for the distribution).
func tyOf(t *Table, rt reflect.Type, path, ctors string, out *[][2]string, stack map[reflect.Type]bool) string {
	switch rt.Kind() {
	case reflect.String:
		return "TyStr"
	case reflect.Bool:
		return "TyBool"
	case reflect.Interface:
		return "TyIface"
	case reflect.Ptr:
		return core.App("TyPtr", tyOf(t, rt.Elem(), path+"{P}", ctors+"P", out, stack))
	case reflect.Slice:
		return core.App("TySlice", tyOf(t, rt.Elem(), path+"{L}", ctors+"L", out, stack))
	case reflect.Map:
		return core.App("TyMap", tyOf(t, rt.Key(), path+"{K}", ctors+"K", out, stack), tyOf(t, rt.Elem(), path+"{M}", ctors+"M", out, stack))
	case reflect.Array:
		return core.App("TyArray", tyOf(t, rt.Elem(), path+"{A}", ctors+"A", out, stack))
	case reflect.Struct:
		if rt == timeType {
			return "TyTime"
		}
		if stack[rt] {
			// a recursive type is unfolded along each path until a struct type repeats; the repeat is cut (a type without
			// fields). The code's `seen` set visits every struct type reachable through struct/pointer nesting exactly once
			// and reports an error iff one of them has an offending field; every such type is expanded at least once in
			// this unfolding (along a simple path), so the verdicts coincide.
			return "TyNum"
		}
		stack[rt] = true
		defer delete(stack, rt)
		fs := make([]string, rt.NumField())
		for i := range fs {
			f := rt.Field(i)
			tag := parseTag(f.Tag)
			if looksSecret(f.Name) && tag == TagNone {
				kind := "S"
				switch {
				case f.Anonymous && !f.IsExported():
					kind = "e" // embedded, unexported type
				case !f.IsExported():
					kind = "u"
				}
				*out = append(*out, [2]string{path + "." + f.Name, ctors + kind})
			}
			c := "S"
			switch {
			case f.Anonymous && !f.IsExported():
				c = "e"
			case !f.IsExported():
				c = "u"
			}
			fs[i] = core.Pair(fmt.Sprintf("{| t_name := %s; t_secretish := %s; t_tag := %s |}", core.N(t.nameID(f.Name)), core.B(looksSecret(f.Name)), tag.Coq()),
				tyOf(t, f.Type, path+"."+f.Name, ctors+c, out, stack))
		}
		return core.App("TyStruct", core.List(fs))
	}
	return "TyNum"
}

// ---- hand-declared plugin request/response types (what reflect.StructOf cannot build)

type login struct{ Password string } // unexported type, untagged secret-looking exported field
type loginSecure struct {
	Password string `coerce:"secure"`
}
type loginTagged struct { // like loginSecure, but the embedded field's own name does not look like a secret
	Password string `coerce:"secure"`
}
type loginIgnore struct {
	Password string `coerce:"ignore"`
}
type outer struct{ login } // two levels of embedding, both unexported types
type outerP struct{ *login }
type plainInner struct{ Host string }

type RegEmbVal struct { // Password is promoted and serialised
	login
	Host string
}
type RegEmbPtr struct {
	*login
	Host string
}
type RegEmbTwo struct {
	outer
	Host string
}
type RegEmbTwoP struct {
	*outerP
	Host string
}
type RegEmbSecure struct {
	loginSecure
	Host string
}
type RegEmbTagged struct {
	loginTagged
	*loginIgnore
	Host string
}
type RegNamedOK struct {
	Host    string
	Account Creds
	When    time.Time
}
type RegEmbIgnore struct {
	*loginIgnore
	Host string
}
type RegEmbPlain struct {
	plainInner
	Host string
}
type RegUnexpField struct { // an ordinary unexported field of struct type holding an untagged Password
	Host  string
	inner login
}
type RegUnexpPtrField struct {
	Host  string
	inner *login
}
type RegUnexpLeaf struct { // an ordinary unexported field with a secret-looking name
	Host     string
	keyCache map[string]string
}
type RegUnexpLeafTagged struct {
	Host        string
	tokenSource string `coerce:"ignore"`
}
type RegExportedEmb struct { // embedded struct of an EXPORTED type
	Base
	Host string
}
type RegNamed struct {
	Host  string
	Creds Creds // fully tagged named type
	When  time.Time
}
type RegBelowSlice struct { // not followed by the walk: modelled as is
	Host  string
	Items []login
}
type RegOK struct{ Host string }

// containers around a struct with an untagged secret-looking field (X7), and the tagged controls
type XHost struct{ Password string }
type XHostT struct {
	Password string `coerce:"secure"`
}
type RegSlice struct{ Hosts []XHost }
type RegSlicePtr struct{ Hosts []*XHost }
type RegMapElem struct{ Hosts map[string]XHost }
type RegArray struct{ Hosts [2]XHost }
type RegMapKey struct{ Hosts map[XHost]bool }
type RegSliceSlice struct{ Hosts [][]XHost }
type RegContainersTagged struct {
	A []XHostT
	B []*XHostT
	C map[string]XHostT
	D [2]XHostT
	E map[XHostT]bool
	F [][]XHostT
}

func regStatic(w *core.Writer) {
	types := []struct {
		name string
		v    any
	}{
		{"RegEmbVal", RegEmbVal{}}, {"*RegEmbVal", &RegEmbVal{}}, {"RegEmbPtr", RegEmbPtr{}}, {"*RegEmbPtr", &RegEmbPtr{}},
		{"RegEmbTwo", RegEmbTwo{}}, {"RegEmbTwoP", RegEmbTwoP{}}, {"*RegEmbTwoP", &RegEmbTwoP{}},
		{"RegEmbSecure", RegEmbSecure{}}, {"RegEmbTagged", RegEmbTagged{}}, {"*RegNamedOK", &RegNamedOK{}}, {"RegEmbIgnore", RegEmbIgnore{}}, {"RegEmbPlain", RegEmbPlain{}},
		{"RegUnexpField", RegUnexpField{}}, {"RegUnexpPtrField", &RegUnexpPtrField{}}, {"RegUnexpLeaf", RegUnexpLeaf{}},
		{"RegUnexpLeafTagged", RegUnexpLeafTagged{}}, {"RegExportedEmb", RegExportedEmb{}}, {"RegNamed", &RegNamed{}},
		{"RegBelowSlice", RegBelowSlice{}}, {"MReq", MReq{}}, {"*PReq", &PReq{}}, {"Wrap", Wrap{}}, {"*WrapP", &WrapP{}}, {"*Carrier", &Carrier{}},
		{"TReq", TReq{}}, {"SReq", SReq{}}, {"*EReq", &EReq{}},
		{"RegSlice", RegSlice{}}, {"*RegSlicePtr", &RegSlicePtr{}}, {"RegMapElem", RegMapElem{}}, {"RegArray", RegArray{}}, {"RegMapKey", RegMapKey{}},
		{"*RegSliceSlice", &RegSliceSlice{}}, {"[]XHost", []XHost{}}, {"map[string]*XHost", map[string]*XHost{}}, {"[1]XHost", [1]XHost{}},
		{"RegContainersTagged", RegContainersTagged{}}, {"[]XHostT", []XHostT{}},
		{"EmbTagged", EmbTagged{}}, {"*EmbDeep", &EmbDeep{}}, {"EmbNil", EmbNil{}}, {"EmbIgn", EmbIgn{}}, {"*TagHolder", &TagHolder{}},
		{"*RHost", &RHost{}}, {"RLink", RLink{}}, {"RHostB", RHostB{}}, {"*RNode", &RNode{}}, {"RTree", RTree{}}, {"*RA", &RA{}}, {"RB", RB{}},
		{"*RI", &RI{}}, {"RJ", RJ{}}, {"*RBadSelf", &RBadSelf{}}, {"RBadOuter", RBadOuter{}}, {"*RBadInner", &RBadInner{}}, {"EmbReq", EmbReq{}}, {"*EmbHolder", &EmbHolder{}}, {"*StaticReq", &StaticReq{}},
	}
	for i, ty := range types {
		for _, asReq := range []bool{true, false} {
			var req, resp any = ty.v, RegOK{}
			if !asReq {
				req, resp = RegOK{}, ty.v
			}
			tab := NewTable()
			ob := regObs{ReqType: fmt.Sprintf("%T", req), RespType: fmt.Sprintf("%T", resp)}
			rt := tyOf(tab, reflect.TypeOf(req), "Req", "", &ob.Offending, map[reflect.Type]bool{})
			pt := tyOf(tab, reflect.TypeOf(resp), "Resp", "", &ob.Offending, map[reflect.Type]bool{})
			register(&ob, req, resp)
			term := fmt.Sprintf("(CReg %s %s %s)", rt, pt, core.B(ob.Registered))
			via := ""
			for _, o := range ob.Offending {
				via += o[1] + " "
			}
			w.Put(core.Case{ID: fmt.Sprintf("regs-%d-%s-%v", i, ty.name, asReq), Kind: "registry-static", Coq: term, Nontrivial: len(ob.Offending) > 0, Hash: core.Hash(term),
				Dist:     map[string]any{"offending": len(ob.Offending), "registered": ob.Registered, "path": strings.TrimSpace(via), "tag": "-"},
				Input:    map[string]any{"req": ob.ReqType, "resp": ob.RespType, "declared_in": "harness/cmd/c17/reg.go"},
				Observed: ob})
		}
	}
}
