// c17: drives clone.Secure, the clone entry points, reports.Render and registry.Register on request/response
// types built at run time, and prints one case per observation (see coq/secure/SecureCheck.v).
package main

import (
	"flag"
	"fmt"
	"os"
	"reflect"
	"runtime/debug"
	"strings"

	"verifharness/core"

	"github.com/element-of-surprise/coercion/workflow"
	"github.com/element-of-surprise/coercion/workflow/utils/clone"
	"github.com/gostdlib/base/context"
)

type secureObs struct {
	Type    string   `json:"type"`
	Result  string   `json:"result"` // ok | err | panic
	Panic   string   `json:"panic,omitempty"`
	Leaked  []string `json:"leaked,omitempty"`  // harness labels: secure canaries still in the value (JSON search)
	Missing []string `json:"missing,omitempty"` // plain canaries no longer in the value
	Before  string   `json:"before,omitempty"`
	After   string   `json:"after,omitempty"`
}

// secureCase builds a value of the generated type n and runs clone.Secure on it.
func secureCase(w *core.Writer, id, kind string, n *TNode, r *core.Rand, pnil float64) {
	vg := &ValGen{r: r, PNil: pnil}
	v := vg.Value(n, vctx{path: "v"})
	if n.Kind == KPtr && n.Elem.Kind == KStruct && v.IsNil() && !r.Chance(0.05) {
		p := reflect.New(n.Elem.RType())
		p.Elem().Set(vg.Value(n.Elem, vctx{path: "v"}.down(KPtr, "*")))
		v = p
	}
	runSecure(w, id, kind, n.String(), kname[n.Kind], v.Interface(), vg.Canaries, vg.SecFields)
}

// runSecure runs clone.Secure(x) and emits the CSecure case: abstracted argument before, observation after,
// and the harness's own canary verdicts (secure canaries still in the JSON of the value, plain ones gone).
func runSecure(w *core.Writer, id, kind, typeName, rootKind string, x any, cans []*Canary, secFields int) {
	tab := NewTable()
	// what Secure receives is the dynamic value of the `any` argument
	abstractArg := func() string {
		if x == nil {
			return "(VIface None)"
		}
		return Abstract(tab, reflect.ValueOf(x))
	}
	before := abstractArg()
	ob := secureObs{Type: typeName, Before: jsonOf(x)}
	var err error
	func() {
		defer func() {
			if rec := recover(); rec != nil {
				ob.Panic = fmt.Sprintf("%v\n%s", rec, debug.Stack())
			}
		}()
		err = clone.Secure(x)
	}()
	var o string
	switch {
	case ob.Panic != "":
		ob.Result, o = "panic", "ObsPanic"
	case err != nil:
		ob.Result, o = "err", "ObsErr"
	default:
		ob.Result = "ok"
		o = core.App("ObsOk", abstractArg())
		text := jsonOf(x)
		ob.After = text
		for _, c := range cans {
			if c.NoJSON {
				continue
			}
			f := c.Found(text)
			if c.Secret && f {
				ob.Leaked = append(ob.Leaked, c.Pattern()+" @ "+c.Path)
			}
			if !c.Secret && !f {
				ob.Missing = append(ob.Missing, c.Pattern()+" @ "+c.Path)
			}
		}
	}
	nsec, maxd := 0, 0
	pairs := map[string]bool{}
	for _, c := range cans {
		if c.Secret {
			nsec++
			pairs[c.Pair] = true
		}
		if c.Depth > maxd {
			maxd = c.Depth
		}
	}
	var ps []string
	for p := range pairs {
		ps = append(ps, p)
	}
	sortStrings(ps)
	w.Put(core.Case{
		ID: id, Kind: kind,
		Coq:        fmt.Sprintf("(CSecure %s %s)", before, o),
		Nontrivial: secFields > 0 && maxd >= 2,
		Hash:       core.Hash(typeName, before, o),
		Dist:       map[string]any{"depth": maxd, "secure_leaves": nsec, "secure_fields": secFields, "pairs": ps, "canaries": len(cans), "result": ob.Result, "root": rootKind},
		Input:      map[string]any{"seed": core.Seed(), "type": typeName, "value": ob.Before},
		Observed:   ob,
	})
}

func main() {
	nSecure := flag.Int("secure", 300, "random clone.Secure cases")
	nPlans := flag.Int("plans", 12, "plans (each gives 10 clone cases and 1 render case)")
	nReg := flag.Int("reg", 150, "registry cases")
	nConc := flag.Int("conc", 40, "concurrent first-use pairs on fresh types")
	nChains := flag.Int("chains", 80, "clone.Secure cases with a chain of 4..8 constructors above a secure leaf")
	maxDepth := flag.Int("depth", 5, "max nesting depth of generated types")
	out := flag.String("out", "-", "output file (JSONL)")
	flag.Parse()

	w, err := core.NewWriter(*out)
	if err != nil {
		fmt.Fprintln(os.Stderr, err)
		os.Exit(2)
	}
	defer w.Close()
	root := core.NewRand(core.Seed())

	// ---- (0) two goroutines scrubbing values of never-used-before types at the same instant (must come first)
	concurrentCases(w, root.Fork(9000000), *nConc)

	// ---- (i) clone.Secure: bounded-exhaustive pairs of constructors above every kind of secure leaf
	ctors := []K{KStruct, KPtr, KSlice, KMap, KIface, KArray}
	idx := 0
	for _, c1 := range ctors {
		for _, c2 := range ctors {
			for li, leaf := range secureLeafKinds() {
				inner := wrap(c2, secretLeafStruct(leaf, "Secret"))
				if inner == nil {
					continue
				}
				outer := wrap(c1, inner)
				if outer == nil {
					continue
				}
				n := &TNode{Kind: KPtr, Elem: &TNode{Kind: KStruct, Fields: []TField{{Name: "F", Type: outer}, {Name: "Keep", Type: &TNode{Kind: KStr}}}}}
				secureCase(w, fmt.Sprintf("pair-%s%s-%d", kletter[c1], kletter[c2], li), "secure-pair", n, root.Fork(uint64(1000000+idx)), 0)
				idx++
			}
		}
	}
	// triples of constructors above a secure string
	for _, c1 := range ctors {
		for _, c2 := range ctors {
			for _, c3 := range ctors {
				t := wrap(c3, secretLeafStruct(&TNode{Kind: KStr}, "Secret"))
				if t = wrapN(c2, t); t == nil {
					continue
				}
				if t = wrapN(c1, t); t == nil {
					continue
				}
				n := &TNode{Kind: KPtr, Elem: &TNode{Kind: KStruct, Fields: []TField{{Name: "F", Type: t}}}}
				secureCase(w, fmt.Sprintf("triple-%s%s%s", kletter[c1], kletter[c2], kletter[c3]), "secure-triple", n, root.Fork(uint64(2000000+idx)), 0)
				idx++
			}
		}
	}
	// long chains of constructors (4..8) above a secure leaf of every kind
	for i := 0; i < *nChains; i++ {
		r := root.Fork(uint64(4000000 + i))
		leaves := secureLeafKinds()
		t := secretLeafStruct(leaves[i%len(leaves)], "Secret")
		name := ""
		for k, ln := 0, 4+i%5; k < ln; k++ {
			for {
				c := []K{KStruct, KPtr, KSlice, KMap, KIface}[r.Intn(5)]
				if nt := wrap(c, t); nt != nil {
					t = nt
					name = kletter[c] + name
					break
				}
			}
		}
		n := &TNode{Kind: KPtr, Elem: &TNode{Kind: KStruct, Fields: []TField{{Name: "F", Type: t}, {Name: "Keep", Type: &TNode{Kind: KStr}}}}}
		secureCase(w, fmt.Sprintf("chain-%d-%s", i, name), "secure-chain", n, r, 0)
	}
	// static (named) types
	staticCases(w, root.Fork(3000000))
	// random types
	for i := 0; i < *nSecure; i++ {
		r := root.Fork(uint64(i))
		tg := &TypeGen{r: r, MaxDepth: *maxDepth, PSecure: 0.3, PSecretName: 0.15, PUntaggedSecretName: 0.0, AllowArray: true}
		d := 1 + i%*maxDepth
		var n *TNode
		switch {
		case i%25 == 7:
			n = tg.Node(d) // usually not a pointer to a struct: Secure returns an error
		case i%25 == 8:
			n = tg.Struct(d) // a struct value: error
		default:
			n = &TNode{Kind: KPtr, Elem: tg.Struct(d)}
		}
		secureCase(w, fmt.Sprintf("secure-%d", i), "secure-random", n, r, []float64{0.05, 0.15, 0.3}[i%3])
	}

	// ---- (ii) plans: clone entry points and reports.Render
	for i := 0; i < *nPlans; i++ {
		r := root.Fork(uint64(5000000 + i))
		pc := &planCase{r: r, tab: NewTable(), recs: map[*workflow.Action]*actRec{}, PMethods: []float64{0.3, 0.1, 0.5}[i%3], AllPlanGroups: i%2 == 0}
		pc.tg = &TypeGen{r: r, MaxDepth: 1 + i%*maxDepth, PSecure: 0.35, PSecretName: 0.1, AllowArray: i%4 == 3}
		pc.vg = &ValGen{r: r, PNil: 0.1}
		pc.build([]float64{0.2, 0.5, 0.9}[i%3])
		planTerm := pc.planSk(pc.plan)
		ctx := context.Background()
		p := pc.plan
		b := p.Blocks[r.Intn(len(p.Blocks))]
		s := b.Sequences[r.Intn(len(b.Sequences))]
		var c *workflow.Checks
		for _, g := range []*workflow.Checks{p.PreChecks, p.ContChecks, b.PostChecks, b.PreChecks, p.DeferredChecks, b.BypassChecks, p.PostChecks, b.ContChecks, b.DeferredChecks, p.BypassChecks} {
			if g != nil {
				c = g
				break
			}
		}
		a := s.Actions[r.Intn(len(s.Actions))]
		for _, ks := range []bool{false, true} {
			emit := func(entry, rootTerm string, orig []*workflow.Action, run func(opts []clone.Option) (any, []*workflow.Action, bool)) {
				term, ob := pc.cloneCase(entry, ks, rootTerm, orig, run)
				w.Put(core.Case{ID: fmt.Sprintf("clone-%d-%s-%v", i, entry, ks), Kind: "clone-" + entry, Coq: term,
					Nontrivial: ob.NSecret > 0, Hash: core.Hash(term),
					Dist:     map[string]any{"entry": entry, "keep_state": ks, "actions": len(orig), "secure_leaves": ob.NSecret, "plain": ob.NPlain},
					Input:    map[string]any{"seed": core.Seed(), "plan": i, "entry": entry, "keep_state": ks, "types": pc.typesOf(orig)},
					Observed: ob})
			}
			emit("plan", "(RPlan "+planTerm+")", actionsOfPlan(p), func(o []clone.Option) (any, []*workflow.Action, bool) {
				x := clone.Plan(ctx, p, o...)
				if x == nil {
					return nil, nil, true
				}
				return x, actionsOfPlan(x), false
			})
			emit("block", "(RBlock "+pc.blockSk(b)+")", actionsOfBlock(b), func(o []clone.Option) (any, []*workflow.Action, bool) {
				x := clone.Block(ctx, b, o...)
				if x == nil {
					return nil, nil, true
				}
				return x, actionsOfBlock(x), false
			})
			if c != nil {
				emit("checks", "(RChecks "+pc.actionsSk(c.Actions)+")", c.Actions, func(o []clone.Option) (any, []*workflow.Action, bool) {
					x := clone.Checks(ctx, c, o...)
					if x == nil {
						return nil, nil, true
					}
					return x, x.Actions, false
				})
			}
			emit("sequence", "(RSeq "+pc.actionsSk(s.Actions)+")", s.Actions, func(o []clone.Option) (any, []*workflow.Action, bool) {
				x := clone.Sequence(ctx, s, o...)
				if x == nil {
					return nil, nil, true
				}
				return x, x.Actions, false
			})
			emit("action", "(RAction "+pc.actionSk(a)+")", []*workflow.Action{a}, func(o []clone.Option) (any, []*workflow.Action, bool) {
				x := clone.Action(ctx, a, o...)
				if x == nil {
					return nil, nil, true
				}
				return x, []*workflow.Action{x}, false
			})
		}
		if pc.AllPlanGroups {
			// WithRemoveCompletedSequences, alone and with WithKeepState (plans with State everywhere and all four plan-level groups)
			for _, ks := range []bool{false, true} {
				term, ob, ok := pc.removeCompletedCase(ks)
				if !ok {
					continue
				}
				w.Put(core.Case{ID: fmt.Sprintf("clone-%d-removecompleted-%v", i, ks), Kind: "clone-removecompleted", Coq: term, Nontrivial: ob.NSecret > 0, Hash: core.Hash(term),
					Dist:     map[string]any{"entry": "plan+removeCompleted", "keep_state": ks, "actions": ob.Kept, "secure_leaves": ob.NSecret, "plain": 0, "dropped": ob.Dropped, "nil_actions": ob.NilActs, "blocks": ob.Blocks},
					Input:    map[string]any{"seed": core.Seed(), "plan": i, "entry": "clone.Plan(WithRemoveCompletedSequences)", "keep_state": ks, "types": pc.typesOf(actionsOfPlan(p))},
					Observed: ob})
			}
		}
		term, ob := pc.renderCase(planTerm)
		w.Put(core.Case{ID: fmt.Sprintf("render-%d", i), Kind: "render", Coq: term, Nontrivial: ob.NSecret > 0, Hash: core.Hash(term),
			Dist:     map[string]any{"actions": len(pc.order), "secure_leaves": ob.NSecret, "expected_plain": ob.NExpect, "files": ob.Files},
			Input:    map[string]any{"seed": core.Seed(), "plan": i, "types": pc.typesOf(actionsOfPlan(p))},
			Observed: ob})
	}

	// ---- (iii) registry
	for i := 0; i < *nReg; i++ {
		r := root.Fork(uint64(7000000 + i))
		tg := &TypeGen{r: r, MaxDepth: 1 + i%*maxDepth, PSecure: 0.1, PSecretName: 0.25, PUntaggedSecretName: []float64{0.03, 0.15, 0.4}[i%3], AllowArray: true, PUnexported: []float64{0, 0.15, 0.3, 0.15}[i%4]}
		mk := func() (*TNode, bool) {
			switch r.Intn(8) {
			case 0:
				return tg.Node(1 + r.Intn(tg.MaxDepth)), false
			default:
				return tg.Struct(1 + r.Intn(tg.MaxDepth)), r.Chance(0.5)
			}
		}
		req, reqPtr := mk()
		resp, respPtr := mk()
		tab := NewTable()
		term, ob := regCase(tab, req, resp, reqPtr, respPtr)
		deep := 0
		kinds := map[string]bool{}
		for _, o := range ob.Offending {
			if len(o[1]) > deep {
				deep = len(o[1])
			}
			kinds[strings.Trim(o[1], "S")] = true
		}
		var ks []string
		for k := range kinds {
			ks = append(ks, k)
		}
		sortStrings(ks)
		w.Put(core.Case{ID: fmt.Sprintf("reg-%d", i), Kind: "registry", Coq: term, Nontrivial: len(ob.Offending) > 0, Hash: core.Hash(term),
			Dist:     map[string]any{"offending": len(ob.Offending), "registered": ob.Registered, "deepest": deep, "non_struct_ctors_above": ks},
			Input:    map[string]any{"seed": core.Seed(), "index": i, "req": ob.ReqType, "resp": ob.RespType},
			Observed: ob})
	}
	// registry: an untagged secret-looking field under every constructor path of length <= 2
	regExhaustive(w)
	// registry: hand-declared plugin types (embedded structs of unexported types, unexported fields, named types)
	regStatic(w)
}

func wrapN(c K, inner *TNode) *TNode {
	if inner == nil {
		return nil
	}
	return wrap(c, inner)
}

func (pc *planCase) typesOf(as []*workflow.Action) []string {
	var ts []string
	for _, a := range as {
		rec := pc.recs[a]
		ts = append(ts, "Req "+rec.reqTy)
		for _, t := range rec.respTys {
			ts = append(ts, "Resp "+t)
		}
	}
	return ts
}

func regExhaustive(w *core.Writer) {
	ctors := []K{KStruct, KPtr, KSlice, KMap, KArray}
	plain := &TNode{Kind: KStruct, Fields: []TField{{Name: "Name", Type: &TNode{Kind: KStr}}}}
	i := 0
	variant := 0
	put := func(path string, t *TNode, ptr bool, tag TagKind, name string) {
		tab := NewTable()
		// the holder field is plain, or itself secret-looking with a tag (the walk must still look below it)
		hf := []TField{{Name: "F", Type: t}, {Name: "Creds", Tag: TagSecure, TagText: `coerce:"secure"`, Type: t}, {Name: "KeyBox", Tag: TagIgnore, TagText: `coerce:"ignore"`, Type: t}}[variant%3]
		variant++
		holder := &TNode{Kind: KStruct, Fields: []TField{{Name: "Name", Type: &TNode{Kind: KStr}}, hf}}
		for _, asReq := range []bool{true, false} {
			req, resp := holder, plain
			if !asReq {
				req, resp = plain, holder
			}
			term, ob := regCase(tab, req, resp, ptr, ptr)
			w.Put(core.Case{ID: fmt.Sprintf("regx-%d-%s-%v", i, path, asReq), Kind: "registry-exhaustive", Coq: term, Nontrivial: len(ob.Offending) > 0, Hash: core.Hash(term),
				Dist:     map[string]any{"offending": len(ob.Offending), "registered": ob.Registered, "path": path, "tag": tag.Coq()},
				Input:    map[string]any{"req": ob.ReqType, "resp": ob.RespType, "field": name},
				Observed: ob})
		}
		i++
	}
	for _, tag := range []TagKind{TagNone, TagSecure, TagIgnore, TagBoth} {
		for ni, name := range []string{"Password", "Monkey", "Name"} {
			leafS := &TNode{Kind: KStruct, Fields: []TField{{Name: name, Tag: tag, TagText: tagTexts[tag][0], Type: &TNode{Kind: KStr}}}}
			put("-", leafS, ni%2 == 0, tag, name)
			for _, c1 := range ctors {
				t1 := wrap(c1, leafS)
				put(kletter[c1], t1, ni%2 == 1, tag, name)
				for _, c2 := range ctors {
					put(kletter[c2]+kletter[c1], wrap(c2, t1), false, tag, name)
				}
			}
		}
	}
}
