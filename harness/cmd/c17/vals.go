package main

// Values of generated types, filled with unique canaries; and the harness's own bookkeeping of which
// canary lies under a secure-tagged field (independent of the code under test and of the Coq model).

import (
	"fmt"
	"reflect"
	"strconv"
	"strings"
	"time"
	"unsafe"

	"verifharness/core"
)

type Canary struct {
	Kind   string // "s" string, "n" number, "t" time
	Str    string // string canary, or the byte pattern searched for
	Num    int64
	Secret bool   // planted below an exported secure-tagged field that the scrubber can reach (no array above it)
	Shield bool   // below an array (documented exclusion): expected to stay
	Path   string // where it was planted
	Depth  int
	Pair   string // the two constructors above the secure field (for the distribution)
	NoJSON bool   // planted in an ordinary unexported field: no encoder shows it (compared through the model only)
}

// Coq renders the canary as a SecureCheck.leaf.
func (c *Canary) Coq(t *Table) string {
	switch c.Kind {
	case "s":
		return core.App("LS", core.N(t.strID(c.Str)))
	case "n":
		return core.App("LN", core.Z(c.Num))
	default:
		return core.App("LT", core.Z(c.Num))
	}
}

var timeBase = time.Date(2031, 1, 1, 0, 0, 0, 0, time.UTC)

// Pattern is what is byte-searched in JSON / HTML.
func (c *Canary) Pattern() string {
	switch c.Kind {
	case "s":
		return c.Str
	case "n":
		return strconv.FormatInt(c.Num, 10)
	default:
		return time.Unix(c.Num, 0).UTC().Format("2006-01-02T15:04:05")
	}
}

// Found reports whether the canary occurs in text (numbers: not inside a longer digit run).
func (c *Canary) Found(text string) bool {
	p := c.Pattern()
	if c.Kind != "n" {
		return strings.Contains(text, p)
	}
	for from := 0; ; {
		i := strings.Index(text[from:], p)
		if i < 0 {
			return false
		}
		i += from
		before := i > 0 && isDigit(text[i-1])
		after := i+len(p) < len(text) && isDigit(text[i+len(p)])
		if !before && !after {
			return true
		}
		from = i + 1
	}
}

func isDigit(b byte) bool { return b >= '0' && b <= '9' }

// Table numbers the strings and field names of one case.
type Table struct {
	strs  map[string]uint64
	names map[string]uint64
}

func NewTable() *Table {
	return &Table{strs: map[string]uint64{"": 0, "[secret hidden]": 1}, names: map[string]uint64{}}
}

func (t *Table) strID(s string) uint64 {
	if id, ok := t.strs[s]; ok {
		return id
	}
	id := uint64(len(t.strs))
	t.strs[s] = id
	return id
}

func (t *Table) nameID(s string) uint64 {
	if id, ok := t.names[s]; ok {
		return id
	}
	id := uint64(1000 + len(t.names))
	t.names[s] = id
	return id
}

// ValGen fills values; one per case (canary numbering is per case).
type ValGen struct {
	r         *core.Rand
	Canaries  []*Canary
	SecFields int // secure-tagged fields the scrubber can reach (whatever their kind)
	n         int
	PNil      float64
}

type vctx struct {
	secret bool // below a reachable secure-tagged field
	shield bool // below an array
	path   string
	depth  int
	c1, c2 K // last two constructors crossed (KStr = none)
	pair   string
}

func (g *ValGen) canary(kind string, cx vctx) *Canary {
	g.n++
	c := &Canary{Kind: kind, Secret: cx.secret, Shield: cx.shield, Path: cx.path, Depth: cx.depth, Pair: cx.pair}
	switch kind {
	case "s":
		c.Str = fmt.Sprintf("cnry%05dq", g.n)
	case "n":
		c.Num = 7700000077 + int64(g.n)*100
	case "t":
		c.Num = timeBase.Unix() + int64(g.n)
	}
	g.Canaries = append(g.Canaries, c)
	return c
}

func (cx vctx) down(k K, seg string) vctx {
	n := cx
	n.path += seg
	n.depth++
	if !cx.secret {
		n.c1, n.c2 = cx.c2, k
	}
	if k == KArray && !cx.secret {
		n.shield = true // the scrubber never looks below an array (documented); a secure field ABOVE the array still wipes it
	}
	return n
}

// Value builds a value of type n.
func (g *ValGen) Value(n *TNode, cx vctx) reflect.Value {
	t := n.RType()
	v := reflect.New(t).Elem()
	switch n.Kind {
	case KStr:
		if g.r.Chance(0.08) {
			return v // ""
		}
		v.SetString(g.canary("s", cx).Str)
	case KInt, KInt64:
		if g.r.Chance(0.08) {
			return v
		}
		v.SetInt(g.canary("n", cx).Num)
	case KUint64:
		v.SetUint(uint64(g.canary("n", cx).Num))
	case KFloat:
		v.SetFloat(float64(g.canary("n", cx).Num))
	case KBool:
		v.SetBool(g.r.Chance(0.7))
	case KTime:
		if g.r.Chance(0.1) {
			return v
		}
		v.Set(reflect.ValueOf(time.Unix(g.canary("t", cx).Num, 0).UTC()))
	case KStruct:
		for i, f := range n.Fields {
			fx := cx.down(KStruct, "."+f.Name)
			if f.Tag.hasSecure() && !cx.secret && !cx.shield {
				fx.secret = true
				g.SecFields++
				fx.pair = pairName(cx.c1, cx.c2) // the two constructors above the struct holding the field
			}
			v.Field(i).Set(g.Value(f.Type, fx))
		}
	case KPtr:
		if g.r.Chance(g.PNil) {
			return v
		}
		p := reflect.New(n.Elem.RType())
		p.Elem().Set(g.Value(n.Elem, cx.down(KPtr, "*")))
		v.Set(p)
	case KSlice:
		if g.r.Chance(g.PNil) {
			return v
		}
		ln := g.r.Intn(3)
		if ln == 0 && g.r.Chance(0.7) {
			ln = 1
		}
		s := reflect.MakeSlice(t, ln, ln)
		for i := 0; i < ln; i++ {
			s.Index(i).Set(g.Value(n.Elem, cx.down(KSlice, fmt.Sprintf("[%d]", i))))
		}
		v.Set(s)
	case KMap:
		if g.r.Chance(g.PNil) {
			return v
		}
		ln := g.r.Intn(3)
		if ln == 0 && g.r.Chance(0.7) {
			ln = 1
		}
		m := reflect.MakeMapWithSize(t, ln)
		for i := 0; i < ln; i++ {
			k := fmt.Sprintf("k%d", i)
			m.SetMapIndex(reflect.ValueOf(k), g.Value(n.Elem, cx.down(KMap, "["+k+"]")))
		}
		v.Set(m)
	case KIface:
		if n.Dyn == nil || g.r.Chance(g.PNil/2) {
			return v
		}
		v.Set(g.Value(n.Dyn, cx.down(KIface, ".(dyn)")))
	case KArray:
		for i := 0; i < n.Len; i++ {
			v.Index(i).Set(g.Value(n.Elem, cx.down(KArray, fmt.Sprintf("[%d]", i))))
		}
	}
	return v
}

func pairName(c1, c2 K) string {
	a, b := kletter[c1], kletter[c2]
	if a == "" {
		a = "-"
	}
	if b == "" {
		b = "-"
	}
	return a + b
}

// ---------------------------------------------------------------- abstraction: Go value -> GoVal.gv term

// parseTag is the harness's own reading of the coerce tag.
func parseTag(tag reflect.StructTag) TagKind {
	s, _ := tag.Lookup("coerce")
	sec, ign := false, false
	for _, p := range strings.Split(s, ",") {
		switch strings.ToLower(strings.TrimSpace(p)) {
		case "secure":
			sec = true
		case "ignore":
			ign = true
		}
	}
	switch {
	case sec && ign:
		return TagBoth
	case sec:
		return TagSecure
	case ign:
		return TagIgnore
	}
	return TagNone
}

func fmeta(t *Table, f reflect.StructField) string {
	return fmt.Sprintf("{| f_name := %s; f_exported := %s; f_embedded := %s; f_tag := %s |}", core.N(t.nameID(f.Name)), core.B(f.IsExported()), core.B(f.Anonymous), parseTag(f.Tag).Coq())
}

func optTerm(ctor string, inner string, isNil bool) string {
	if isNil {
		return "(" + ctor + " None)"
	}
	return "(" + ctor + " (Some " + inner + "))"
}

// Abstract renders v as a GoVal.gv term. It only reads (Kind, Len, Index, Elem, Field, MapIndex, String, Int ...).
func Abstract(t *Table, v reflect.Value) string {
	switch v.Kind() {
	case reflect.String:
		return core.App("VStr", core.N(t.strID(v.String())))
	case reflect.Int, reflect.Int8, reflect.Int16, reflect.Int32, reflect.Int64:
		return core.App("VNum", core.Z(v.Int()))
	case reflect.Uint, reflect.Uint8, reflect.Uint16, reflect.Uint32, reflect.Uint64, reflect.Uintptr:
		return core.App("VNum", core.Z(int64(v.Uint())))
	case reflect.Float32, reflect.Float64:
		return core.App("VNum", core.Z(int64(v.Float())))
	case reflect.Bool:
		return core.App("VBool", core.B(v.Bool()))
	case reflect.Struct:
		if v.Type() == timeType {
			var tm time.Time
			switch {
			case v.CanInterface():
				tm = v.Interface().(time.Time)
			case v.CanAddr(): // read-only handle (reached through an unexported field): read through its address
				tm = *(*time.Time)(unsafe.Pointer(v.UnsafeAddr()))
			default:
				return "(VTime 424242%Z)"
			}
			if tm.IsZero() {
				return "(VTime 0%Z)"
			}
			return core.App("VTime", core.Z(tm.Unix()))
		}
		fs := make([]string, v.NumField())
		for i := range fs {
			fs[i] = core.Pair(fmeta(t, v.Type().Field(i)), Abstract(t, v.Field(i)))
		}
		return core.App("VStruct", core.List(fs))
	case reflect.Ptr:
		if v.IsNil() {
			return "(VPtr None)"
		}
		return optTerm("VPtr", Abstract(t, v.Elem()), false)
	case reflect.Interface:
		if v.IsNil() {
			return "(VIface None)"
		}
		return optTerm("VIface", Abstract(t, v.Elem()), false)
	case reflect.Slice:
		if v.IsNil() {
			return "(VSlice None)"
		}
		xs := make([]string, v.Len())
		for i := range xs {
			xs[i] = Abstract(t, v.Index(i))
		}
		return optTerm("VSlice", core.List(xs), false)
	case reflect.Map:
		if v.IsNil() {
			return "(VMap None)"
		}
		keys := v.MapKeys()
		ks := make([]string, len(keys))
		for i, k := range keys {
			ks[i] = k.String()
		}
		sortStrings(ks)
		xs := make([]string, len(ks))
		for i, k := range ks {
			xs[i] = core.Pair(core.N(t.strID(k)), Abstract(t, v.MapIndex(reflect.ValueOf(k).Convert(v.Type().Key()))))
		}
		return optTerm("VMap", core.List(xs), false)
	case reflect.Array:
		xs := make([]string, v.Len())
		for i := range xs {
			xs[i] = Abstract(t, v.Index(i))
		}
		return core.App("VArray", core.List(xs))
	}
	// chan, func, unsafe pointer, complex: not generated
	return "(VNum 424242%Z)"
}

// AbstractAny renders the dynamic value of an `any` as the VIface term of the field holding it.
func AbstractAny(t *Table, x any) string {
	if x == nil {
		return "(VIface None)"
	}
	return optTerm("VIface", Abstract(t, reflect.ValueOf(x)), false)
}

func sortStrings(a []string) {
	for i := 1; i < len(a); i++ {
		for j := i; j > 0 && a[j] < a[j-1]; j-- {
			a[j], a[j-1] = a[j-1], a[j]
		}
	}
}
