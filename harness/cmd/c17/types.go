package main

// Type grammar: request/response types are built at run time with reflect.StructOf / PointerTo /
// SliceOf / MapOf / ArrayOf, and values of them are filled with unique canaries.

import (
	"fmt"
	"reflect"
	"strings"
	"time"

	"verifharness/core"
)

type K int

const (
	KStr K = iota
	KInt
	KInt64
	KUint64
	KFloat
	KBool
	KTime
	KStruct
	KPtr
	KSlice
	KMap
	KIface
	KArray
)

var kname = map[K]string{KStr: "string", KInt: "int", KInt64: "int64", KUint64: "uint64", KFloat: "float64", KBool: "bool",
	KTime: "time", KStruct: "struct", KPtr: "ptr", KSlice: "slice", KMap: "map", KIface: "iface", KArray: "array"}

// constructor letter used in the distribution (pairs of constructors above a secure leaf)
var kletter = map[K]string{KStruct: "S", KPtr: "P", KSlice: "L", KMap: "M", KIface: "I", KArray: "A"}

type TagKind int

const (
	TagNone TagKind = iota
	TagSecure
	TagIgnore
	TagBoth
)

func (t TagKind) Coq() string     { return [...]string{"TNone", "TSecure", "TIgnore", "TBoth"}[t] }
func (t TagKind) hasSecure() bool { return t == TagSecure || t == TagBoth }

// concrete spellings of a tag set: getTags lower-cases, trims and splits on commas
var tagTexts = map[TagKind][]string{
	TagNone:   {"", "", "", `coerce:""`, `yaml:"x"`, `coerce:"other"`, `coerce:" "`},
	TagSecure: {`coerce:"secure"`, `coerce:"secure"`, `coerce:"secure"`, `coerce:"Secure"`, `coerce:" secure "`, `coerce:"secure,other"`, `coerce:"x, SECURE"`},
	TagIgnore: {`coerce:"ignore"`, `coerce:"ignore"`, `coerce:"Ignore"`, `coerce:" ignore"`, `coerce:"other,ignore"`},
	TagBoth:   {`coerce:"secure,ignore"`, `coerce:"ignore, secure"`},
}

type TField struct {
	Name       string
	Tag        TagKind
	TagText    string
	Type       *TNode
	Unexported bool // registry family only (values of such types are never filled): reflect.StructOf takes a PkgPath
}

type TNode struct {
	Kind   K
	Elem   *TNode   // ptr, slice, map, array
	Fields []TField // struct
	Len    int      // array
	Dyn    *TNode   // iface: the type of the dynamic value (nil = nil interface); never an iface
	rt     reflect.Type
}

var (
	timeType = reflect.TypeOf(time.Time{})
	anyType  = reflect.TypeOf((*any)(nil)).Elem()
)

func (n *TNode) RType() reflect.Type {
	if n.rt != nil {
		return n.rt
	}
	switch n.Kind {
	case KStr:
		n.rt = reflect.TypeOf("")
	case KInt:
		n.rt = reflect.TypeOf(int(0))
	case KInt64:
		n.rt = reflect.TypeOf(int64(0))
	case KUint64:
		n.rt = reflect.TypeOf(uint64(0))
	case KFloat:
		n.rt = reflect.TypeOf(float64(0))
	case KBool:
		n.rt = reflect.TypeOf(false)
	case KTime:
		n.rt = timeType
	case KStruct:
		fs := make([]reflect.StructField, len(n.Fields))
		for i, f := range n.Fields {
			fs[i] = reflect.StructField{Name: f.Name, Type: f.Type.RType(), Tag: reflect.StructTag(f.TagText)}
			if f.Unexported {
				fs[i].PkgPath = "verifharness/cmd/c17"
			}
		}
		n.rt = reflect.StructOf(fs)
	case KPtr:
		n.rt = reflect.PointerTo(n.Elem.RType())
	case KSlice:
		n.rt = reflect.SliceOf(n.Elem.RType())
	case KMap:
		n.rt = reflect.MapOf(reflect.TypeOf(""), n.Elem.RType())
	case KIface:
		n.rt = anyType
	case KArray:
		n.rt = reflect.ArrayOf(n.Len, n.Elem.RType())
	}
	return n.rt
}

// String renders the type in Go-like syntax (for replays).
func (n *TNode) String() string {
	switch n.Kind {
	case KStruct:
		var b strings.Builder
		b.WriteString("struct{")
		for i, f := range n.Fields {
			if i > 0 {
				b.WriteString("; ")
			}
			b.WriteString(f.Name + " " + f.Type.String())
			if f.TagText != "" {
				b.WriteString(" `" + f.TagText + "`")
			}
		}
		b.WriteString("}")
		return b.String()
	case KPtr:
		return "*" + n.Elem.String()
	case KSlice:
		return "[]" + n.Elem.String()
	case KMap:
		return "map[string]" + n.Elem.String()
	case KArray:
		return fmt.Sprintf("[%d]%s", n.Len, n.Elem.String())
	case KIface:
		if n.Dyn == nil {
			return "any(nil)"
		}
		return "any(" + n.Dyn.String() + ")"
	case KTime:
		return "time.Time"
	}
	return kname[n.Kind]
}

// ---------------------------------------------------------------- names

var secretWords = []string{"token", "pass", "jwt", "hash", "secret", "bearer", "cred", "secure", "signing", "cert", "code", "key"}

// looksSecret is the harness's own reading of the registry's rule (substring, case-insensitive).
func looksSecret(name string) bool {
	l := strings.ToLower(name)
	for _, w := range secretWords {
		if strings.Contains(l, w) {
			return true
		}
	}
	return false
}

var secretNames = []string{"Password", "APIKey", "AuthToken", "Certs", "HashSum", "MyJWT", "BearerVal", "Credential", "SecureFlag",
	"SigningAlg", "ZipCode", "Monkey", "Passenger", "KEYRING", "Secret", "Encoder", "TOKEN", "PassWd"}
var plainNames = []string{"Name", "Count", "Items", "Data", "Value", "Addr", "Region", "Notes", "Flag", "Kind", "Meta", "Extra",
	"When", "Inner", "Ref", "List", "Dict", "Box", "Next", "Left", "Right", "Body", "Opts", "Level"}

// ---------------------------------------------------------------- random types

type TypeGen struct {
	r        *core.Rand
	MaxDepth int
	// probability that a field gets a secure tag; and that its name looks secret
	PSecure float64
	// registry mode: secret-looking names appear, sometimes untagged
	PSecretName, PUntaggedSecretName float64
	AllowArray                       bool
	PUnexported                      float64 // registry family only
}

func (g *TypeGen) leaf() *TNode {
	return &TNode{Kind: []K{KStr, KStr, KStr, KInt, KInt64, KUint64, KFloat, KBool, KTime}[g.r.Intn(9)]}
}

// Node makes a type of nesting depth <= d.
func (g *TypeGen) Node(d int) *TNode {
	if d <= 0 {
		return g.leaf()
	}
	w := []int{5, 4, 3, 3, 3, 3, 1} // leaf struct ptr slice map iface array
	if !g.AllowArray {
		w[6] = 0
	}
	switch g.r.Weighted(w) {
	case 0:
		return g.leaf()
	case 1:
		return g.Struct(d)
	case 2:
		return &TNode{Kind: KPtr, Elem: g.Node(d - 1)}
	case 3:
		return &TNode{Kind: KSlice, Elem: g.Node(d - 1)}
	case 4:
		return &TNode{Kind: KMap, Elem: g.Node(d - 1)}
	case 5:
		n := &TNode{Kind: KIface}
		if !g.r.Chance(0.12) {
			for {
				n.Dyn = g.Node(d - 1)
				if n.Dyn.Kind != KIface {
					break
				}
			}
		}
		return n
	default:
		return &TNode{Kind: KArray, Len: 1 + g.r.Intn(2), Elem: g.Node(d - 1)}
	}
}

// Struct makes a struct type of depth <= d (d >= 1) with 1-4 fields.
func (g *TypeGen) Struct(d int) *TNode {
	n := &TNode{Kind: KStruct}
	nf := 1 + g.r.Intn(4)
	used := map[string]bool{}
	for i := 0; i < nf; i++ {
		var f TField
		secretName := g.r.Chance(g.PSecretName)
		pool := plainNames
		if secretName {
			pool = secretNames
		}
		for {
			f.Name = pool[g.r.Intn(len(pool))]
			if g.r.Chance(0.3) {
				f.Name += fmt.Sprintf("%d", g.r.Intn(9))
			}
			if !used[f.Name] {
				break
			}
		}
		if g.PUnexported > 0 && g.r.Chance(g.PUnexported) {
			// the registry's walk does not ask whether a field is exported: keyCache, tokenSource ... count too
			f.Unexported = true
			f.Name = strings.ToLower(f.Name[:1]) + f.Name[1:]
			if used[f.Name] {
				f.Name += "x"
			}
		}
		used[f.Name] = true
		switch {
		case secretName && g.r.Chance(g.PUntaggedSecretName):
			f.Tag = TagNone
		case secretName:
			f.Tag = []TagKind{TagSecure, TagSecure, TagIgnore, TagIgnore, TagBoth}[g.r.Intn(5)]
		case g.r.Chance(g.PSecure):
			f.Tag = TagSecure
		case g.r.Chance(0.05):
			f.Tag = TagIgnore
		}
		tt := tagTexts[f.Tag]
		f.TagText = tt[g.r.Intn(len(tt))]
		if i == 0 && d > 1 {
			f.Type = g.nonLeaf(d - 1) // keep the depth budget used
		} else {
			f.Type = g.Node(d - 1)
		}
		n.Fields = append(n.Fields, f)
	}
	return n
}

func (g *TypeGen) nonLeaf(d int) *TNode {
	for i := 0; i < 8; i++ {
		n := g.Node(d)
		if n.Kind >= KStruct {
			return n
		}
	}
	return g.Struct(d)
}

// ---------------------------------------------------------------- bounded-exhaustive family

// secretLeafStruct is struct{ <Name> <leaf> `coerce:"secure"`; Plain string }.
func secretLeafStruct(leaf *TNode, name string) *TNode {
	return &TNode{Kind: KStruct, Fields: []TField{
		{Name: name, Tag: TagSecure, TagText: `coerce:"secure"`, Type: leaf},
		{Name: "Plain", Type: &TNode{Kind: KStr}},
	}}
}

// wrap puts inner under constructor c (S = a struct with the value in an untagged field).
func wrap(c K, inner *TNode) *TNode {
	switch c {
	case KStruct:
		return &TNode{Kind: KStruct, Fields: []TField{{Name: "Inner", Type: inner}, {Name: "Note", Type: &TNode{Kind: KStr}}}}
	case KPtr:
		return &TNode{Kind: KPtr, Elem: inner}
	case KSlice:
		return &TNode{Kind: KSlice, Elem: inner}
	case KMap:
		return &TNode{Kind: KMap, Elem: inner}
	case KIface:
		if inner.Kind == KIface {
			return nil
		}
		return &TNode{Kind: KIface, Dyn: inner}
	case KArray:
		return &TNode{Kind: KArray, Len: 2, Elem: inner}
	}
	return nil
}

// secureLeafKinds: what a secure-tagged field may hold.
func secureLeafKinds() []*TNode {
	str := &TNode{Kind: KStr}
	return []*TNode{
		{Kind: KStr}, {Kind: KInt64}, {Kind: KBool}, {Kind: KTime}, {Kind: KFloat},
		{Kind: KPtr, Elem: str}, {Kind: KSlice, Elem: str}, {Kind: KMap, Elem: str}, {Kind: KIface, Dyn: str},
		{Kind: KStruct, Fields: []TField{{Name: "A", Type: str}, {Name: "T", Type: &TNode{Kind: KTime}}}},
	}
}
