package main

// Hand-declared self-recursive and mutually recursive request/response types (2- and 3-type cycles through pointers,
// slices of pointers, maps, struct values and interfaces; the field closing the cycle declared before and after the
// field leading to the secret). Their VALUES are finite trees, so the model applies as it is.
// Plus the concurrent family: two goroutines scrubbing values of the same never-used-before types at the same time.

import (
	"fmt"
	"reflect"
	"runtime/debug"
	"sync"
	"sync/atomic"

	"verifharness/core"

	"github.com/element-of-surprise/coercion/workflow/utils/clone"
)

// 2-cycle, cycle-closing field (Links) BEFORE the field leading to the secret (Auth)
type RHost struct {
	Name  string
	Links []*RLink
	Auth  *Creds
}
type RLink struct {
	Label string
	To    *RHost
}

// the same with the secret-bearing field first
type RHostB struct {
	Name  string
	Auth  *Creds
	Links []*RLinkB
}
type RLinkB struct {
	To    *RHostB
	Label string
}

// self-recursive, through pointer, slice of pointers and map; own secure field
type RNode struct {
	Next   *RNode
	Kids   []*RNode
	ByName map[string]*RNode
	Token  string `coerce:"secure"`
	Val    string
}

// self-recursive, the secret lives in another type reached after the recursive fields
type RTree struct {
	Left, Right *RTree
	Leaf        *RLeaf
	Tag         string
}
type RLeaf struct {
	Secret string `coerce:"secure"`
	Plain  string
}

// 3-cycle through a map, a struct VALUE and a slice of pointers; secret-bearing field last
type RA struct {
	Name string
	Bs   map[string]*RB
	Sec  *Creds
}
type RB struct {
	Label string
	C     RC
}
type RC struct {
	Note string
	Back []*RA
}

// 2-cycle closed through an interface
type RI struct {
	Name string
	Next any // *RJ
	Sec  Creds
}
type RJ struct {
	Up    *RI
	Label string
	Extra map[string]any // may hold RI / *RI again
}

// dedicated to the concurrent first use (no other family touches these types)
type RcHost struct {
	Name  string
	Links []*RcLink
	Auth  *Creds
}
type RcLink struct {
	Label string
	To    *RcHost
}

// registry: recursive types with an untagged secret-looking field in the outer / in an inner type of the cycle
type RBadSelf struct {
	Next     *RBadSelf
	Kids     []*RBadSelf
	Password string
}
type RBadOuter struct {
	Peer *RBadInner
	Name string
}
type RBadInner struct {
	Back     *RBadOuter
	APIToken string
}

func (p *planter) rhost(path string, depth int) *RHost {
	h := &RHost{Name: p.plain(path + ".Name")}
	if depth > 0 {
		h.Links = []*RLink{{Label: p.plain(path + ".Links[0]*.Label"), To: p.rhost(path+".Links[0]*.To*", depth-1)}}
		if depth%2 == 0 {
			h.Links = append(h.Links, &RLink{Label: p.plain(path + ".Links[1]*.Label")})
		}
	}
	c := p.creds(path + ".Auth*")
	h.Auth = &c
	return h
}

func (p *planter) rhostB(path string, depth int) *RHostB {
	h := &RHostB{Name: p.plain(path + ".Name")}
	c := p.creds(path + ".Auth*")
	h.Auth = &c
	if depth > 0 {
		h.Links = []*RLinkB{{Label: p.plain(path + ".Links[0]*.Label"), To: p.rhostB(path+".Links[0]*.To*", depth-1)}}
	}
	return h
}

func (p *planter) rnode(path string, depth int) *RNode {
	n := &RNode{Token: p.secret(path + ".Token"), Val: p.plain(path + ".Val")}
	if depth > 0 {
		n.Next = p.rnode(path+".Next*", depth-1)
		n.Kids = []*RNode{p.rnode(path+".Kids[0]*", depth-1), nil}
		n.ByName = map[string]*RNode{"k": p.rnode(path+".ByName[k]*", 0)}
	}
	return n
}

func (p *planter) rtree(path string, depth int) *RTree {
	t := &RTree{Tag: p.plain(path + ".Tag"), Leaf: &RLeaf{Secret: p.secret(path + ".Leaf*.Secret"), Plain: p.plain(path + ".Leaf*.Plain")}}
	if depth > 0 {
		t.Left = p.rtree(path+".Left*", depth-1)
		if depth > 1 {
			t.Right = p.rtree(path+".Right*", depth-2)
		}
	}
	return t
}

func (p *planter) ra(path string, depth int) *RA {
	a := &RA{Name: p.plain(path + ".Name")}
	if depth > 0 {
		a.Bs = map[string]*RB{"k": {Label: p.plain(path + ".Bs[k]*.Label"),
			C: RC{Note: p.plain(path + ".Bs[k]*.C.Note"), Back: []*RA{p.ra(path+".Bs[k]*.C.Back[0]*", depth-1)}}}}
	}
	c := p.creds(path + ".Sec*")
	a.Sec = &c
	return a
}

func (p *planter) ri(path string, depth int) *RI {
	i := &RI{Name: p.plain(path + ".Name"), Sec: p.creds(path + ".Sec")}
	if depth > 0 {
		j := &RJ{Label: p.plain(path + ".Next.(dyn)*.Label"), Up: p.ri(path+".Next.(dyn)*.Up*", depth-1)}
		if depth > 1 {
			j.Extra = map[string]any{"v": *p.ri(path+".Next.(dyn)*.Extra[v].(dyn)", 0), "p": p.ri(path+".Next.(dyn)*.Extra[p].(dyn)*", 0)}
		}
		i.Next = j
	}
	return i
}

const nRecPayloads = 8

// recPayload builds the k-th kind of recursive value; secrets sit at depth 1..4 of the value.
func (p *planter) recPayload(k int, path string) (any, string) {
	d := 1 + (k/nRecPayloads)%3
	switch k % nRecPayloads {
	case 0:
		return p.rhost(path+"*", d), "*RHost{Name; Links []*RLink; Auth *Creds} / RLink{Label; To *RHost} (cycle-closing field before the secret)"
	case 1:
		return p.rhostB(path+"*", d), "*RHostB{Name; Auth *Creds; Links []*RLinkB} / RLinkB{To *RHostB; Label} (cycle-closing field after the secret)"
	case 2:
		return p.rnode(path+"*", d), "*RNode (self-recursive through pointer, slice of pointers, map; own secure field)"
	case 3:
		return p.rtree(path+"*", d+1), "*RTree{Left, Right *RTree; Leaf *RLeaf{Secret secure}} (self-recursive, secret in another type)"
	case 4:
		return p.ra(path+"*", d), "*RA{Bs map[string]*RB; Sec *Creds} / RB{C RC} / RC{Back []*RA} (3-cycle through map, struct value, slice)"
	case 5:
		return p.ri(path+"*", d), "*RI{Next any(*RJ); Sec Creds} / RJ{Up *RI; Extra map[string]any} (cycle through interfaces)"
	case 6:
		return *p.rhost(path, d), "RHost by value"
	default:
		return &struct {
			Far  *RLink
			Near map[string]any
		}{&RLink{Label: p.plain(path + "*.Far*.Label"), To: p.rhost(path+"*.Far*.To*", d)},
			map[string]any{"a": p.ra(path+"*.Near[a].(dyn)*", 1)}}, "*struct{Far *RLink; Near map[string]any(*RA)} (entering the cycle at an inner type)"
	}
}

func recRoot(p *planter, k int) (any, string) {
	x, name := p.recPayload(k, "v")
	if v, ok := x.(RHost); ok {
		return &v, "*" + name
	}
	return x, name
}

// ---------------------------------------------------------------- concurrent first use

// scrubPair runs clone.Secure on x1 and x2 in two goroutines released at the same instant.
func scrubPair(x1, x2 any) (panics [2]string, errs [2]error) {
	var ready, wg sync.WaitGroup
	var gate atomic.Bool
	xs := [2]any{x1, x2}
	for i := 0; i < 2; i++ {
		ready.Add(1)
		wg.Add(1)
		go func(i int) {
			defer wg.Done()
			defer func() {
				if rec := recover(); rec != nil {
					panics[i] = fmt.Sprintf("%v\n%s", rec, debug.Stack())
				}
			}()
			ready.Done()
			for !gate.Load() {
			}
			errs[i] = clone.Secure(xs[i])
		}(i)
	}
	ready.Wait()
	gate.Store(true)
	wg.Wait()
	return
}

// emitPair writes the two CSecure cases of a concurrent scrub.
func emitPair(w *core.Writer, id, typeName string, xs [2]any, before [2]string, tabs [2]*Table, cans [2][]*Canary, secFields [2]int, panics [2]string, errs [2]error) {
	for i := 0; i < 2; i++ {
		ob := secureObs{Type: typeName}
		var o string
		switch {
		case panics[i] != "":
			ob.Result, ob.Panic, o = "panic", panics[i], "ObsPanic"
		case errs[i] != nil:
			ob.Result, o = "err", "ObsErr"
		default:
			ob.Result = "ok"
			o = core.App("ObsOk", Abstract(tabs[i], reflect.ValueOf(xs[i])))
			text := jsonOf(xs[i])
			if len(text) < 4000 {
				ob.After = text
			}
			for _, c := range cans[i] {
				if c.NoJSON {
					continue
				}
				f := c.Found(text)
				if c.Secret && f {
					ob.Leaked = append(ob.Leaked, c.Pattern()+" @ "+c.Path)
				}
				if !c.Secret && !f {
					ob.Missing = append(ob.Missing, c.Pattern()+" @ "+c.Path)
				}
			}
		}
		w.Put(core.Case{
			ID: fmt.Sprintf("%s-%c", id, 'a'+i), Kind: "secure-concurrent",
			Coq:        fmt.Sprintf("(CSecure %s %s)", before[i], o),
			Nontrivial: secFields[i] > 0, Hash: core.Hash(id, before[i], o),
			Dist:     map[string]any{"depth": 3, "secure_leaves": secFields[i], "secure_fields": secFields[i], "pairs": []string{"concurrent"}, "canaries": len(cans[i]), "result": ob.Result, "root": "ptr"},
			Input:    map[string]any{"seed": core.Seed(), "type": typeName, "note": "two goroutines scrub two values of this never-used-before type at the same instant"},
			Observed: ob,
		})
	}
}

// concurrentCases: (a) the dedicated recursive types, first use of the process; (b) n wide fresh StructOf types
// (unique field names make them new to the process) whose only secure field comes last.
func concurrentCases(w *core.Writer, root *core.Rand, n int) {
	{
		var xs [2]any
		var before [2]string
		var tabs [2]*Table
		var cans [2][]*Canary
		var sf [2]int
		for i := 0; i < 2; i++ {
			p := &planter{}
			h := &RcHost{Name: p.plain("v*.Name")}
			far := &RcHost{Name: p.plain("v*.Links[0]*.To*.Name")}
			c1, c2 := p.creds("v*.Links[0]*.To*.Auth*"), p.creds("v*.Auth*")
			far.Auth, h.Auth = &c1, &c2
			h.Links = []*RcLink{{Label: p.plain("v*.Links[0]*.Label"), To: far}}
			tabs[i] = NewTable()
			xs[i], cans[i], sf[i] = h, p.cans, p.secFields
			before[i] = Abstract(tabs[i], reflect.ValueOf(h))
		}
		panics, errs := scrubPair(xs[0], xs[1])
		emitPair(w, "conc-rec", "*RcHost{Name; Links []*RcLink; Auth *Creds} / RcLink{Label; To *RcHost}", xs, before, tabs, cans, sf, panics, errs)
	}
	for k := 0; k < n; k++ {
		r := root.Fork(uint64(k))
		str := &TNode{Kind: KStr}
		top := &TNode{Kind: KStruct}
		for i := 0; i < 24; i++ {
			inner := &TNode{Kind: KStruct}
			for j := 0; j < 8; j++ {
				inner.Fields = append(inner.Fields, TField{Name: fmt.Sprintf("F%dx%dx%dx%d", core.Seed()%1000, k, i, j), Type: str})
			}
			top.Fields = append(top.Fields, TField{Name: fmt.Sprintf("G%dx%dx%d", core.Seed()%1000, k, i), Type: []*TNode{inner, {Kind: KPtr, Elem: inner}, {Kind: KSlice, Elem: inner}}[i%3]})
		}
		top.Fields = append(top.Fields, TField{Name: "Last", Type: secretLeafStruct(str, "Secret")})
		n := &TNode{Kind: KPtr, Elem: top}
		var xs [2]any
		var before [2]string
		var tabs [2]*Table
		var cans [2][]*Canary
		var sf [2]int
		for i := 0; i < 2; i++ {
			vg := &ValGen{r: r.Fork(uint64(i)), PNil: 0}
			v := vg.Value(n, vctx{path: "v"})
			tabs[i] = NewTable()
			xs[i], cans[i], sf[i] = v.Interface(), vg.Canaries, vg.SecFields
			before[i] = Abstract(tabs[i], v)
		}
		panics, errs := scrubPair(xs[0], xs[1])
		emitPair(w, fmt.Sprintf("conc-%d", k), "*struct{24 fields of fresh struct / *struct / []struct types with 8 strings each; Last struct{Secret string `coerce:\"secure\"`; Plain string}}", xs, before, tabs, cans, sf, panics, errs)
	}
}
