// c20: drives workflow/builder with generated call lists (New, then up to 25 calls of
// Reset/Up/AddChecks/AddBlock/AddSequence/AddAction/Plan with valid and invalid arguments), every call
// under recover(), and prints one case per session: the calls and, for every call, what it returned
// (error value identity + class, Err() afterwards, the emitted plan as a tree of labels).
package main

import (
	"flag"
	"fmt"
	"os"
	"runtime/debug"
	"sort"
	"strings"
	"time"

	"verifharness/core"

	"github.com/element-of-surprise/coercion/workflow"
	"github.com/element-of-surprise/coercion/workflow/builder"
	"github.com/google/uuid"
)

// ---------------------------------------------------------------- calls (the input vocabulary of the model)

type nm int // 0 fine, 1 whitespace only, 2 empty

const (
	nOk nm = iota
	nWhite
	nEmpty
)

func (n nm) coq() string { return [...]string{"NOk", "NWhite", "NEmpty"}[n] }
func (n nm) str(ok string) string {
	switch n {
	case nWhite:
		return " \t "
	case nEmpty:
		return ""
	}
	return ok
}

type call struct {
	Kind   string `json:"kind"` // reset up checks block seq action plan
	Lab    int    `json:"lab,omitempty"`
	Nil    bool   `json:"nil,omitempty"`  // the pointer argument is nil
	Name   nm     `json:"name,omitempty"` // name / descr / plugin of the argument
	Descr  nm     `json:"descr,omitempty"`
	Plugin nm     `json:"plugin,omitempty"`
	CType  int    `json:"ctype,omitempty"` // builder.ChecksType value passed (1..5 valid)
	Acts   []int  `json:"acts,omitempty"`  // labels of the Actions already in the Checks / Sequence; 0 = nil element
	Gid    int    `json:"gid,omitempty"`   // reset/new: 0 no option, -1 WithGroupID(uuid.Nil), n>0 WithGroupID(id n)
	Reuse  bool   `json:"reuse,omitempty"` // pass the SAME pointer an earlier call with this label created (aliasing); Acts = what it holds now
	Why    string `json:"why,omitempty"`   // generator's reason for this call (misuse kind), for the histogram only
}

var grpName = map[int]string{int(builder.BypassChecks): "GBypass", int(builder.PreChecks): "GPre", int(builder.ContChecks): "GCont",
	int(builder.PostChecks): "GPost", int(builder.DeferredChecks): "GDeferred"}

func actsCoq(a []int) string {
	xs := make([]string, len(a))
	for i, l := range a {
		xs[i] = core.Opt(l != 0, core.Nat(l))
	}
	return core.List(xs)
}

func pargCoq(c call) string {
	g := "GNone"
	if c.Gid < 0 {
		g = "GNil"
	} else if c.Gid > 0 {
		g = core.App("GSome", core.Nat(c.Gid))
	}
	return core.App("Build_parg", core.Nat(c.Lab), c.Name.coq(), c.Descr.coq(), g)
}

func (c call) coq() string {
	switch c.Kind {
	case "reset":
		return core.App("CReset", pargCoq(c))
	case "up":
		return "CUp"
	case "plan":
		return "CPlan"
	case "checks":
		t := "CTBad"
		if g, ok := grpName[c.CType]; ok {
			t = "(CT " + g + ")"
		}
		return core.App("CAddChecks", t, core.Opt(!c.Nil, core.App("Build_karg", core.Nat(c.Lab), actsCoq(c.Acts))))
	case "block":
		return core.App("CAddBlock", core.App("Build_barg", core.Nat(c.Lab), c.Name.coq(), c.Descr.coq()))
	case "seq":
		return core.App("CAddSeq", core.Opt(!c.Nil, core.App("Build_sarg", core.Nat(c.Lab), c.Name.coq(), c.Descr.coq(), actsCoq(c.Acts))))
	case "action":
		return core.App("CAddAction", core.Opt(!c.Nil, core.App("Build_aarg", core.Nat(c.Lab), c.Name.coq(), c.Descr.coq(), c.Plugin.coq())))
	}
	panic("unknown call kind " + c.Kind)
}

// ---------------------------------------------------------------- running a session on the real builder

type errObs struct {
	Class  string `json:"class"`
	Origin int    `json:"origin"` // index of the call at which this error VALUE was first seen (Go ==)
	Text   string `json:"text"`
}

type callObs struct {
	Panic string  `json:"panic,omitempty"`
	Ret   *errObs `json:"ret,omitempty"`   // Reset's / Plan()'s returned error; for fluent mutators Err() right after
	Plan  string  `json:"plan,omitempty"`  // Coq term of the emitted plan
	After *errObs `json:"after,omitempty"` // Err() after the call
}

func classify(err error) string {
	t := err.Error()
	has := func(s string) bool { return strings.Contains(t, s) }
	switch {
	case has("after Plan()") || has("more than once"):
		return "EUseAfterEmit"
	case has("group ID"):
		return "ENilGroup"
	case has("must not be nil"):
		return "ENilArg"
	case has("with existing"):
		return "EDuplicate"
	case has("unknown check type"):
		return "EUnknownType"
	case has("up from root"):
		return "EUpFromRoot"
	case has("must be provided") || has("must not be empty"):
		return "EMissingName"
	case has("non-Plan or non-Block") || has("invalid type for"):
		return "EWrongLevel"
	}
	return "EOther"
}

type runner struct {
	seen    []error
	origin  []int
	actLab  map[*workflow.Action]int
	chkLab  map[*workflow.Checks]int
	seqLab  map[*workflow.Sequence]int
	blkArgs map[int]builder.BlockArgs
	plans   map[int][2]string // label -> name, descr passed
}

func newRunner() *runner {
	return &runner{actLab: map[*workflow.Action]int{}, chkLab: map[*workflow.Checks]int{}, seqLab: map[*workflow.Sequence]int{},
		blkArgs: map[int]builder.BlockArgs{}, plans: map[int][2]string{}}
}

func sameErr(a, b error) (eq bool) {
	defer func() {
		if recover() != nil {
			eq = false
		}
	}()
	return a == b
}

func (r *runner) obsErr(err error, at int) *errObs {
	if err == nil {
		return nil
	}
	for i, e := range r.seen {
		if sameErr(e, err) {
			return &errObs{Class: classify(err), Origin: r.origin[i], Text: err.Error()}
		}
	}
	r.seen = append(r.seen, err)
	r.origin = append(r.origin, at)
	return &errObs{Class: classify(err), Origin: at, Text: err.Error()}
}

func labUUID(n int) uuid.UUID {
	var u uuid.UUID
	u[0], u[1], u[6], u[8] = byte(n>>8), byte(n), 0x70, 0x80
	u[15] = 1
	return u
}

func (r *runner) action(lab int, c *call) *workflow.Action {
	a := &workflow.Action{Name: fmt.Sprintf("a%d", lab), Descr: fmt.Sprintf("ad%d", lab), Plugin: "plug"}
	if c != nil {
		a.Name, a.Descr, a.Plugin = c.Name.str(a.Name), c.Descr.str(a.Descr), c.Plugin.str(a.Plugin)
	}
	r.actLab[a] = lab
	return a
}

func (r *runner) actions(labs []int) []*workflow.Action {
	if labs == nil {
		return nil
	}
	out := make([]*workflow.Action, len(labs))
	for i, l := range labs {
		if l != 0 {
			out[i] = r.action(l, nil)
		}
	}
	return out
}

func (r *runner) resetArgs(c call) (string, string, []builder.Option) {
	name, descr := c.Name.str(fmt.Sprintf("plan%d", c.Lab)), c.Descr.str(fmt.Sprintf("pd%d", c.Lab))
	r.plans[c.Lab] = [2]string{name, descr}
	var opts []builder.Option
	if c.Gid < 0 {
		opts = append(opts, builder.WithGroupID(uuid.Nil))
	} else if c.Gid > 0 {
		opts = append(opts, builder.WithGroupID(labUUID(1000+c.Gid)))
	}
	return name, descr, opts
}

// apply makes one call on the builder; ret is what the call itself returned.
func (r *runner) apply(b *builder.BuildPlan, c call) (ret error, plan *workflow.Plan) {
	switch c.Kind {
	case "reset":
		name, descr, opts := r.resetArgs(c)
		return b.Reset(name, descr, opts...), nil
	case "up":
		b.Up()
	case "plan":
		p, err := b.Plan()
		return err, p
	case "checks":
		var k *workflow.Checks
		if c.Reuse {
			for ptr, l := range r.chkLab {
				if l == c.Lab {
					k = ptr
				}
			}
		} else if !c.Nil {
			k = &workflow.Checks{Delay: time.Duration(c.Lab), Actions: r.actions(c.Acts)}
			r.chkLab[k] = c.Lab
		}
		b.AddChecks(builder.ChecksType(c.CType), k)
	case "block":
		a := builder.BlockArgs{Key: labUUID(c.Lab), Name: c.Name.str(fmt.Sprintf("b%d", c.Lab)), Descr: c.Descr.str(fmt.Sprintf("bd%d", c.Lab)),
			EntranceDelay: time.Duration(c.Lab*10 + 1), ExitDelay: time.Duration(c.Lab*10 + 2), Concurrency: c.Lab*10 + 3, ToleratedFailures: c.Lab*10 + 4}
		r.blkArgs[c.Lab] = a
		b.AddBlock(a)
	case "seq":
		var q *workflow.Sequence
		if c.Reuse {
			for ptr, l := range r.seqLab {
				if l == c.Lab {
					q = ptr
				}
			}
		} else if !c.Nil {
			q = &workflow.Sequence{Name: c.Name.str(fmt.Sprintf("q%d", c.Lab)), Descr: c.Descr.str(fmt.Sprintf("qd%d", c.Lab)), Actions: r.actions(c.Acts)}
			r.seqLab[q] = c.Lab
		}
		b.AddSequence(q)
	case "action":
		var a *workflow.Action
		if c.Reuse {
			for ptr, l := range r.actLab {
				if l == c.Lab {
					a = ptr
				}
			}
		} else if !c.Nil {
			a = r.action(c.Lab, &c)
		}
		b.AddAction(a)
	}
	return b.Err(), nil
}

const badLab = 999

func (r *runner) actsTerm(as []*workflow.Action) string {
	xs := make([]string, len(as))
	for i, a := range as {
		switch l, ok := r.actLab[a]; {
		case a == nil:
			xs[i] = "None"
		case ok:
			xs[i] = core.Some(core.Nat(l))
		default:
			xs[i] = core.Some(core.Nat(badLab))
		}
	}
	return core.List(xs)
}

func (r *runner) checksTerm(k *workflow.Checks) string {
	if k == nil {
		return "None"
	}
	l, ok := r.chkLab[k]
	if !ok || k.Delay != time.Duration(l) || k.State != nil || k.ID != uuid.Nil {
		l = badLab
	}
	return core.Some(core.App("Build_tchecks", core.Nat(l), r.actsTerm(k.Actions)))
}

func (r *runner) blockTerm(b *workflow.Block) string {
	if b == nil {
		return core.App("Build_tblock", core.Nat(badLab), "None", "None", "None", "None", "None", "[]")
	}
	l := int(b.EntranceDelay) / 10
	a, ok := r.blkArgs[l]
	// a block is recognised by every field AddBlock has to copy from its BlockArgs, and nothing else set
	if !ok || b.Key != a.Key || b.Name != a.Name || b.Descr != a.Descr || b.EntranceDelay != a.EntranceDelay || b.ExitDelay != a.ExitDelay ||
		b.Concurrency != a.Concurrency || b.ToleratedFailures != a.ToleratedFailures || b.ID != uuid.Nil || b.State != nil {
		l = badLab
	}
	qs := make([]string, len(b.Sequences))
	for i, q := range b.Sequences {
		if q == nil {
			qs[i] = core.App("Build_tseq", core.Nat(badLab), "[]")
			continue
		}
		ql, ok := r.seqLab[q]
		if !ok {
			ql = badLab
		}
		qs[i] = core.App("Build_tseq", core.Nat(ql), r.actsTerm(q.Actions))
	}
	return core.App("Build_tblock", core.Nat(l), r.checksTerm(b.BypassChecks), r.checksTerm(b.PreChecks), r.checksTerm(b.ContChecks),
		r.checksTerm(b.PostChecks), r.checksTerm(b.DeferredChecks), core.List(qs))
}

func (r *runner) planTerm(p *workflow.Plan) string {
	l := badLab
	for lab, nd := range r.plans {
		if nd[0] == p.Name && nd[1] == p.Descr && nd[0] == fmt.Sprintf("plan%d", lab) {
			l = lab
		}
	}
	if p.ID != uuid.Nil || p.State != nil || !p.SubmitTime.IsZero() || p.Meta != nil || p.Reason != 0 {
		l = badLab - 1
	}
	gid := "None"
	if p.GroupID != uuid.Nil {
		g := badLab
		for n := 1; n < 60; n++ {
			if labUUID(1000+n) == p.GroupID {
				g = n
			}
		}
		gid = core.Some(core.Nat(g))
	}
	bs := make([]string, len(p.Blocks))
	for i, b := range p.Blocks {
		bs[i] = r.blockTerm(b)
	}
	return core.App("Build_tplan", core.Nat(l), gid, r.checksTerm(p.BypassChecks), r.checksTerm(p.PreChecks), r.checksTerm(p.ContChecks),
		r.checksTerm(p.PostChecks), r.checksTerm(p.DeferredChecks), core.List(bs))
}

func countObjects(p *workflow.Plan) int {
	n := 1
	ck := func(k *workflow.Checks) {
		if k != nil {
			n += 1 + len(k.Actions)
		}
	}
	ck(p.BypassChecks)
	ck(p.PreChecks)
	ck(p.ContChecks)
	ck(p.PostChecks)
	ck(p.DeferredChecks)
	for _, b := range p.Blocks {
		if b == nil {
			continue
		}
		n++
		ck(b.BypassChecks)
		ck(b.PreChecks)
		ck(b.ContChecks)
		ck(b.PostChecks)
		ck(b.DeferredChecks)
		for _, q := range b.Sequences {
			if q != nil {
				n += 1 + len(q.Actions)
			}
		}
	}
	return n
}

type session struct {
	New   call   `json:"new"`
	Calls []call `json:"calls"`
}

type sessionObs struct {
	obs      []callObs
	emitted  int // plans emitted
	objects  int // objects in the largest emitted plan
	firstErr string
	note     string
}

func (r *runner) one(i int, f func() (error, *workflow.Plan), after func() error) (o callObs, p *workflow.Plan) {
	defer func() {
		if x := recover(); x != nil {
			o = callObs{Panic: fmt.Sprintf("%v\n%s", x, debug.Stack())}
			func() {
				defer func() { recover() }()
				o.After = r.obsErr(after(), i)
			}()
		}
	}()
	ret, p := f()
	o.Ret = r.obsErr(ret, i)
	o.After = r.obsErr(after(), i)
	return o, p
}

type emittedPlan struct {
	at   int
	p    *workflow.Plan
	term string
}

// live is one builder being driven through its session step by step (step 0 = New), so that several
// builders can be alive at the same time with their calls interleaved.
type live struct {
	r    *runner
	s    session
	b    *builder.BuildPlan
	so   sessionObs
	next int
	ems  []emittedPlan
	// plans emitted by ANY builder of the same case: a plan pointer must be emitted once, by one builder
	emittedBy map[*workflow.Plan]int
	me        int
}

func newLive(s session, me int, emittedBy map[*workflow.Plan]int) *live {
	return &live{r: newRunner(), s: s, me: me, emittedBy: emittedBy}
}

func (l *live) done() bool { return l.next > len(l.s.Calls) || (l.next > 0 && l.b == nil) }

func (l *live) step() {
	if l.done() {
		return
	}
	i := l.next
	l.next++
	if i == 0 {
		o, _ := l.r.one(0, func() (error, *workflow.Plan) {
			name, descr, opts := l.r.resetArgs(l.s.New)
			nb, err := builder.New(name, descr, opts...)
			l.b = nb
			return err, nil
		}, func() error { return nil })
		l.so.obs = append(l.so.obs, o)
		if o.Ret != nil {
			l.so.firstErr = "new:" + o.Ret.Class
		}
		return
	}
	c := l.s.Calls[i-1]
	o, p := l.r.one(i, func() (error, *workflow.Plan) { return l.r.apply(l.b, c) }, l.b.Err)
	if p != nil {
		o.Plan = l.r.planTerm(p)
		if who, seen := l.emittedBy[p]; seen {
			// the very same *workflow.Plan handed out a second time (by this or by another builder)
			o.Plan = core.App("Build_tplan", core.Nat(badLab-2), "None", "None", "None", "None", "None", "None", "[]")
			l.so.note += fmt.Sprintf("plan emitted at call %d is the pointer builder %d already emitted; ", i, who)
		}
		l.emittedBy[p] = l.me
		l.ems = append(l.ems, emittedPlan{i, p, o.Plan})
		l.so.emitted++
		if n := countObjects(p); n > l.so.objects {
			l.so.objects = n
		}
	}
	if l.so.firstErr == "" {
		switch {
		case o.Panic != "":
			l.so.firstErr = "panic"
		case o.Ret != nil:
			l.so.firstErr = o.Ret.Class
		}
	}
	l.so.obs = append(l.so.obs, o)
}

// finish: an emitted plan must not change afterwards: report it as it looks at the end of the session
func (l *live) finish() sessionObs {
	for _, e := range l.ems {
		if strings.Contains(e.term, fmt.Sprintf("Build_tplan %d ", badLab-2)) {
			continue
		}
		if t := l.r.planTerm(e.p); t != e.term {
			l.so.obs[e.at].Plan = t
			l.so.note += fmt.Sprintf("plan emitted at call %d changed afterwards; ", e.at)
		}
	}
	return l.so
}

func runSession(s session) sessionObs {
	l := newLive(s, 0, map[*workflow.Plan]int{})
	for !l.done() {
		l.step()
	}
	return l.finish()
}

func errCoq(e *errObs) string { return core.Pair(e.Class, core.Nat(e.Origin)) }

func (o callObs) coq() string {
	ret := "ROk"
	if o.Panic != "" {
		ret = "RPanic"
	} else if o.Ret != nil {
		ret = "(RErr " + errCoq(o.Ret) + ")"
	}
	plan := "None"
	if o.Plan != "" {
		plan = core.Some(o.Plan)
	}
	after := "None"
	if o.After != nil {
		after = core.Some(errCoq(o.After))
	}
	return core.App("Build_res", ret, plan, after)
}

// ---------------------------------------------------------------- generator

// shadow is the generator's own idea of where the cursor is; it only steers the distribution.
type shadow struct {
	level   string       // plan pchecks block bchecks seq
	pgroups map[int]bool // check types used at plan level
	bgroups map[int]bool // ... in the current block
	dead    bool         // emitted or errored: nothing to steer any more
}

func (s shadow) clone() shadow {
	c := shadow{level: s.level, dead: s.dead, pgroups: map[int]bool{}, bgroups: map[int]bool{}}
	for k := range s.pgroups {
		c.pgroups[k] = true
	}
	for k := range s.bgroups {
		c.bgroups[k] = true
	}
	return c
}

type gen struct {
	r   *core.Rand
	lab int
}

func (g *gen) next() int { g.lab++; return g.lab }

func (g *gen) oddName() nm { // a valid-for-the-builder name: mostly fine, sometimes whitespace only
	if g.r.Chance(0.06) {
		return nWhite
	}
	return nOk
}

func (g *gen) pre(withNil bool) []int {
	if !g.r.Chance(0.3) {
		return nil
	}
	n := g.r.Range(0, 2)
	out := make([]int, 0, n) // n = 0: empty, non-nil slice
	for i := 0; i < n; i++ {
		if withNil && g.r.Chance(0.25) {
			out = append(out, 0)
		} else {
			out = append(out, g.next())
		}
	}
	return out
}

func (g *gen) unused(used map[int]bool) (int, bool) {
	var free []int
	for t := 1; t <= 5; t++ {
		if !used[t] {
			free = append(free, t)
		}
	}
	if len(free) == 0 {
		return 0, false
	}
	return free[g.r.Intn(len(free))], true
}

func (g *gen) mkChecks(t int) call {
	return call{Kind: "checks", Lab: g.next(), CType: t, Acts: g.pre(false)}
}
func (g *gen) mkBlock() call {
	return call{Kind: "block", Lab: g.next(), Name: g.oddName(), Descr: g.oddName()}
}
func (g *gen) mkSeq() call {
	return call{Kind: "seq", Lab: g.next(), Name: g.oddName(), Descr: g.oddName(), Acts: g.pre(true)}
}
func (g *gen) mkAction() call {
	return call{Kind: "action", Lab: g.next(), Name: g.oddName(), Descr: g.oddName(), Plugin: g.oddName()}
}
func (g *gen) mkReset(valid bool) call {
	c := call{Kind: "reset", Lab: g.next()}
	if g.r.Chance(0.3) {
		c.Gid = g.r.Range(1, 40)
	}
	if !valid {
		switch g.r.Intn(5) {
		case 0:
			c.Name = nEmpty
		case 1:
			c.Name = nWhite
		case 2:
			c.Descr = nEmpty
		case 3:
			c.Descr = nWhite
		case 4:
			c.Gid = -1
		}
	}
	return c
}

// validMove picks a call that fits at the shadow position and advances the shadow.
func (g *gen) validMove(s *shadow) call {
	switch s.level {
	case "plan":
		if t, ok := g.unused(s.pgroups); ok && g.r.Chance(0.45) {
			s.pgroups[t] = true
			s.level = "pchecks"
			return g.mkChecks(t)
		}
		s.level = "block"
		s.bgroups = map[int]bool{}
		return g.mkBlock()
	case "pchecks":
		if g.r.Chance(0.6) {
			return g.mkAction()
		}
		s.level = "plan"
		return call{Kind: "up"}
	case "bchecks":
		if g.r.Chance(0.6) {
			return g.mkAction()
		}
		s.level = "block"
		return call{Kind: "up"}
	case "block":
		switch k := g.r.Intn(10); {
		case k < 3:
			if t, ok := g.unused(s.bgroups); ok {
				s.bgroups[t] = true
				s.level = "bchecks"
				return g.mkChecks(t)
			}
			fallthrough
		case k < 8:
			s.level = "seq"
			return g.mkSeq()
		default:
			s.level = "plan"
			return call{Kind: "up"}
		}
	default: // seq
		if g.r.Chance(0.65) {
			return g.mkAction()
		}
		s.level = "block"
		return call{Kind: "up"}
	}
}

var nilKinds = []string{"nil-checks", "nil-checks-elem", "nil-seq", "nil-action"}

var misuseKinds = []string{"wl-checks", "wl-block", "wl-seq", "wl-action", "dup-plan", "dup-block", "name-block", "name-seq", "name-action",
	"nil-checks", "nil-checks-elem", "nil-seq", "nil-action", "badtype", "up-root", "reset-blank", "reset-nilgid"}

// misuse builds a call of the given misuse kind for shadow position s (ok=false: not applicable there).
func (g *gen) misuse(kind string, s shadow) (c call, ok bool) {
	pick := func(used map[int]bool) (int, bool) {
		var u []int
		for t := 1; t <= 5; t++ {
			if used[t] {
				u = append(u, t)
			}
		}
		if len(u) == 0 {
			return 0, false
		}
		return u[g.r.Intn(len(u))], true
	}
	one := func(c *call, fields ...*nm) { *fields[g.r.Intn(len(fields))] = nEmpty }
	switch kind {
	case "wl-checks":
		if s.level == "plan" || s.level == "block" {
			return c, false
		}
		c = g.mkChecks(g.r.Range(1, 5))
	case "wl-block":
		if s.level == "plan" {
			return c, false
		}
		c = g.mkBlock()
	case "wl-seq":
		if s.level == "block" {
			return c, false
		}
		c = g.mkSeq()
	case "wl-action":
		if s.level != "plan" && s.level != "block" {
			return c, false
		}
		c = g.mkAction()
	case "dup-plan":
		t, has := pick(s.pgroups)
		if s.level != "plan" || !has {
			return c, false
		}
		c = g.mkChecks(t)
	case "dup-block":
		t, has := pick(s.bgroups)
		if s.level != "block" || !has {
			return c, false
		}
		c = g.mkChecks(t)
	case "name-block":
		c = g.mkBlock()
		one(&c, &c.Name, &c.Descr)
	case "name-seq":
		c = g.mkSeq()
		one(&c, &c.Name, &c.Descr)
	case "name-action":
		c = g.mkAction()
		one(&c, &c.Name, &c.Descr, &c.Plugin)
	case "nil-checks":
		c = call{Kind: "checks", Nil: true, CType: g.r.Range(1, 5)}
	case "nil-checks-elem":
		c = g.mkChecks(g.r.Range(1, 5))
		c.Acts = []int{g.next(), 0}
		if g.r.Chance(0.5) {
			c.Acts = []int{0}
		}
	case "nil-seq":
		c = call{Kind: "seq", Nil: true}
	case "nil-action":
		c = call{Kind: "action", Nil: true}
	case "badtype":
		c = g.mkChecks([]int{0, 6, -1, 99}[g.r.Intn(4)])
	case "up-root":
		if s.level != "plan" {
			return c, false
		}
		c = call{Kind: "up"}
	case "reset-blank":
		c = g.mkReset(false)
		for c.Gid == -1 {
			c = g.mkReset(false)
		}
	case "reset-nilgid":
		c = g.mkReset(true)
		c.Gid = -1
	}
	c.Why = kind
	return c, true
}

// epoch produces n valid calls from a fresh plan, recording the shadow before each.
func (g *gen) epoch(n int) (calls []call, before []shadow, end shadow) {
	s := shadow{level: "plan", pgroups: map[int]bool{}, bgroups: map[int]bool{}}
	for len(calls) < n {
		before = append(before, s.clone())
		calls = append(calls, g.validMove(&s))
	}
	return calls, before, s
}

func (g *gen) anyCall() call {
	switch g.r.Intn(9) {
	case 0:
		return call{Kind: "up"}
	case 1:
		return call{Kind: "plan"}
	case 2:
		return g.mkReset(g.r.Chance(0.7))
	case 3, 4:
		return g.mkChecks(g.r.Range(0, 6))
	case 5:
		return g.mkBlock()
	case 6:
		return g.mkSeq()
	default:
		return g.mkAction()
	}
}

// session: New, a valid prefix, possibly one injected misuse at a uniformly chosen applicable position,
// Plan(), possibly calls after it, possibly Reset and a second epoch.
func (g *gen) session(family string) (s session, injected, second string, nInjected int) {
	s.New = g.mkReset(true)
	switch family {
	case "new-invalid":
		s.New = g.mkReset(false)
		s.New.Why = "new-invalid"
		injected = "new-invalid"
	case "random":
		n := g.r.Range(1, 25)
		for i := 0; i < n; i++ {
			s.Calls = append(s.Calls, g.anyCall())
		}
		return s, "random-stream", "", 0
	}
	calls, before, _ := g.epoch(g.r.Range(2, 18))
	var shadows []shadow
	shadows = append(shadows, before...)
	add := func(c call, sh shadow) { calls = append(calls, c); shadows = append(shadows, sh) }
	dead := shadow{dead: true}
	if g.r.Chance(0.85) {
		add(call{Kind: "plan"}, dead)
		if g.r.Chance(0.4) { // use after emit
			for k := g.r.Range(1, 3); k > 0; k-- {
				c := g.anyCall()
				for c.Kind == "reset" {
					c = g.anyCall()
				}
				c.Why = "after-emit"
				add(c, dead)
			}
		}
	}
	if g.r.Chance(0.35) {
		add(g.mkReset(g.r.Chance(0.85)), dead)
		c2, b2, _ := g.epoch(g.r.Range(1, 7))
		calls = append(calls, c2...)
		shadows = append(shadows, b2...)
		if g.r.Chance(0.8) {
			add(call{Kind: "plan"}, dead)
		}
	}
	if family == "inject" {
		// 1-3 misuses (the later ones hit a builder that already holds the first misuse's error);
		// for each: kind first (uniform), then the position uniformly among those where it applies
		want := []int{1, 1, 2, 2, 3}[g.r.Intn(5)]
		type ins struct {
			at int
			c  call
		}
		var inss []ins
		for try := 0; try < 60 && len(inss) < want; try++ {
			kind := misuseKinds[g.r.Intn(len(misuseKinds))]
			if len(inss) > 0 && g.r.Chance(0.4) {
				kind = nilKinds[g.r.Intn(len(nilKinds))] // nil arguments are the calls most tempting to reject "early"
			}
			var pos []int
			for i, sh := range shadows {
				if !sh.dead {
					if _, ok := g.misuseProbe(kind, sh); ok {
						pos = append(pos, i)
					}
				}
			}
			if len(pos) == 0 {
				continue
			}
			at := pos[g.r.Intn(len(pos))]
			c, _ := g.misuse(kind, shadows[at])
			inss = append(inss, ins{at, c})
		}
		sort.SliceStable(inss, func(i, j int) bool { return inss[i].at < inss[j].at })
		for k := len(inss) - 1; k >= 0; k-- { // insert from the back so that positions stay valid
			at := inss[k].at
			calls = append(calls[:at], append([]call{inss[k].c}, calls[at:]...)...)
		}
		for k, in := range inss {
			if k == 0 {
				injected = in.c.Why
			} else if k == 1 {
				second = in.c.Why
			}
		}
		nInjected = len(inss)
	}
	if len(calls) > 25 {
		calls = calls[:25]
	}
	s.Calls = calls
	return s, injected, second, nInjected
}

// misuseProbe tells whether a kind applies at a position without consuming labels or randomness.
func (g *gen) misuseProbe(kind string, s shadow) (call, bool) {
	saveR, saveL := *g.r, g.lab
	c, ok := g.misuse(kind, s)
	*g.r, g.lab = saveR, saveL
	return c, ok
}

// exhaustive: small families enumerated completely (independent of the seed):
// every ordered pair of check kinds at plan level and at block level (duplicate iff equal);
// every kind of call at every one of the five cursor positions; every invalid ChecksType at both levels.
func exhaustive() (out []session, names []string) {
	g := &gen{r: core.NewRand(7)}
	plain := func(c call) call { c.Name, c.Descr, c.Plugin, c.Acts = nOk, nOk, nOk, nil; return c }
	newS := func() session { g.lab = 0; return session{New: call{Kind: "reset", Lab: g.next()}} }
	up, plan := call{Kind: "up"}, call{Kind: "plan"}
	for t1 := 1; t1 <= 5; t1++ {
		for t2 := 1; t2 <= 5; t2++ {
			s := newS()
			s.Calls = []call{plain(g.mkChecks(t1)), plain(g.mkAction()), up, plain(g.mkChecks(t2)), plain(g.mkAction()), up, plan}
			out, names = append(out, s), append(names, "pairs-plan")
			s = newS()
			s.Calls = []call{plain(g.mkBlock()), plain(g.mkChecks(t1)), up, plain(g.mkChecks(t2)), plain(g.mkAction()), up, up, plan}
			out, names = append(out, s), append(names, "pairs-block")
		}
	}
	levels := map[string]func() []call{
		"plan":    func() []call { return nil },
		"pchecks": func() []call { return []call{plain(g.mkChecks(1))} },
		"block":   func() []call { return []call{plain(g.mkBlock())} },
		"bchecks": func() []call { return []call{plain(g.mkBlock()), plain(g.mkChecks(2))} },
		"seq":     func() []call { return []call{plain(g.mkBlock()), plain(g.mkSeq())} },
	}
	for _, lv := range []string{"plan", "pchecks", "block", "bchecks", "seq"} {
		for _, mk := range []func() call{func() call { return up }, func() call { return plan }, func() call { return plain(g.mkChecks(3)) },
			func() call { return plain(g.mkBlock()) }, func() call { return plain(g.mkSeq()) }, func() call { return plain(g.mkAction()) },
			func() call { return g.mkReset(true) }} {
			s := newS()
			s.Calls = append(levels[lv](), mk(), plain(g.mkAction()), plan)
			out, names = append(out, s), append(names, "level-x-call")
		}
		for _, bad := range []int{0, 6, -1, 99} {
			s := newS()
			s.Calls = append(levels[lv](), plain(g.mkChecks(bad)), plan)
			out, names = append(out, s), append(names, "badtype-x-level")
		}
	}
	// the same pointer passed to two Add* calls: each call appends what it was given, so the emitted tree lists
	// the object twice.  Labels go with the POINTER (the second call carries the first call's label, and as
	// "Actions already in it" what the object holds at that moment); an aliased sequence / group is not given
	// further actions through its second occurrence (that would show in both places: outside the model).
	re := func(c call, acts ...int) call { c.Reuse = true; c.Acts = acts; return c }
	for v := 0; v < 3; v++ {
		mkS := func(f func() []call, name string) {
			s := newS()
			s.Calls = f()
			out, names = append(out, s), append(names, "alias:"+name)
		}
		nA := v // actions added to the object before it is passed again
		addN := func(n int) (cs []call, labs []int) {
			for i := 0; i < n; i++ {
				a := plain(g.mkAction())
				cs, labs = append(cs, a), append(labs, a.Lab)
			}
			return
		}
		mkS(func() []call {
			q := plain(g.mkSeq())
			as, labs := addN(nA)
			return append(append([]call{plain(g.mkBlock()), q}, as...), up, re(q, labs...), up, plain(g.mkSeq()), up, up, plan)
		}, "sequence-twice-in-one-block")
		mkS(func() []call {
			q := plain(g.mkSeq())
			as, labs := addN(nA)
			return append(append([]call{plain(g.mkBlock()), q}, as...), up, up, plain(g.mkBlock()), re(q, labs...), up, up, plan)
		}, "sequence-in-two-blocks")
		mkS(func() []call {
			a := plain(g.mkAction())
			cs := []call{plain(g.mkBlock()), plain(g.mkSeq()), a}
			for i := 0; i <= v; i++ {
				cs = append(cs, re(a))
			}
			return append(cs, up, plain(g.mkSeq()), re(a), up, plain(g.mkChecks(1+v)), re(a), up, up, plan)
		}, "action-twice-in-a-sequence-and-elsewhere")
		mkS(func() []call {
			k := plain(g.mkChecks(1 + v))
			as, labs := addN(nA)
			k2 := re(k, labs...)
			k2.CType = 5 - v
			k3 := re(k, labs...)
			k3.CType = 2 + v
			return append(append([]call{k}, as...), up, k2, up, plain(g.mkBlock()), k3, up, up, plan)
		}, "checks-as-two-plan-groups-and-a-block-group")
	}
	// use after emit as the FIRST misuse: after a successful Plan(), every ordered pair of call kinds (Plan() twice,
	// a mutator then Plan(), two different mutators, bad and nil arguments), then Plan() again, then a Reset that
	// must clear it and a plan that must be emitted
	afterEmit := []func() call{
		func() call { return up }, func() call { return plan }, func() call { return plain(g.mkChecks(2)) },
		func() call { return plain(g.mkBlock()) }, func() call { return plain(g.mkSeq()) }, func() call { return plain(g.mkAction()) },
		func() call { c := plain(g.mkBlock()); c.Name = nEmpty; return c }, func() call { return call{Kind: "action", Nil: true} },
		func() call { return call{Kind: "checks", Nil: true, CType: 1} },
	}
	for _, m1 := range afterEmit {
		for _, m2 := range afterEmit {
			s := newS()
			c1, c2 := m1(), m2()
			c1.Why, c2.Why = "after-emit", "after-emit"
			s.Calls = []call{plain(g.mkBlock()), plain(g.mkSeq()), plain(g.mkAction()), plan, c1, c2, plan,
				g.mkReset(true), plain(g.mkBlock()), plan, plan}
			out, names = append(out, s), append(names, "after-emit-x-after-emit")
		}
	}
	// first misuse kind x second misuse kind: the second call is itself a misuse (incl. the nil argument of
	// every Add* method) and meets a builder that already holds the first misuse's error
	at := map[string]struct {
		prefix func() []call
		sh     shadow
	}{
		"wl-checks":       {levels["seq"], shadow{level: "seq"}},
		"wl-block":        {levels["block"], shadow{level: "block"}},
		"wl-seq":          {levels["plan"], shadow{level: "plan"}},
		"wl-action":       {levels["plan"], shadow{level: "plan"}},
		"dup-plan":        {func() []call { return []call{plain(g.mkChecks(1)), up} }, shadow{level: "plan", pgroups: map[int]bool{1: true}}},
		"dup-block":       {func() []call { return []call{plain(g.mkBlock()), plain(g.mkChecks(1)), up} }, shadow{level: "block", bgroups: map[int]bool{1: true}}},
		"name-block":      {levels["plan"], shadow{level: "plan"}},
		"name-seq":        {levels["block"], shadow{level: "block"}},
		"name-action":     {levels["seq"], shadow{level: "seq"}},
		"nil-checks":      {levels["plan"], shadow{level: "plan"}},
		"nil-checks-elem": {levels["block"], shadow{level: "block"}},
		"nil-seq":         {levels["block"], shadow{level: "block"}},
		"nil-action":      {levels["pchecks"], shadow{level: "pchecks"}},
		"badtype":         {levels["plan"], shadow{level: "plan"}},
		"up-root":         {levels["plan"], shadow{level: "plan"}},
		"reset-blank":     {levels["block"], shadow{level: "block"}},
		"reset-nilgid":    {levels["block"], shadow{level: "block"}},
	}
	for _, k1 := range misuseKinds {
		for _, k2 := range misuseKinds {
			s := newS()
			c1, ok1 := g.misuse(k1, at[k1].sh)
			c2, ok2 := g.misuse(k2, at[k2].sh)
			if !ok1 || !ok2 {
				panic("exhaustive: misuse kind not applicable at its own position: " + k1 + " " + k2)
			}
			s.Calls = append(at[k1].prefix(), c1, plain(g.mkAction()), c2, plain(g.mkAction()), plan)
			out, names = append(out, s), append(names, "x:"+k1+">"+k2)
		}
	}
	return out, names
}

func main() {
	n := flag.Int("n", 600, "number of sessions")
	out := flag.String("out", "-", "output file (JSONL)")
	flag.Parse()
	w, err := core.NewWriter(*out)
	if err != nil {
		fmt.Fprintln(os.Stderr, err)
		os.Exit(2)
	}
	defer w.Close()
	root := core.NewRand(core.Seed())
	exh, exhNames := exhaustive()
	for i := 0; i < *n+len(exh); i++ {
		var s session
		var injected, second, family string
		nInjected := 0
		if i < len(exh) {
			s, family, injected = exh[i], "exhaustive", exhNames[i]
			if strings.HasPrefix(injected, "x:") {
				ab := strings.SplitN(injected[2:], ">", 2)
				injected, second, nInjected = "x:"+ab[0], ab[1], 2
			}
		} else {
			j := i - len(exh)
			g := &gen{r: root.Fork(uint64(j))}
			family = "inject"
			switch k := j % 20; {
			case k < 5:
				family = "valid"
			case k == 5:
				family = "new-invalid"
			case k == 6 || k == 7:
				family = "random"
			}
			s, injected, second, nInjected = g.session(family)
		}
		so := runSession(s)
		putCase(w, fmt.Sprintf("builder-%d", i), family, s, so,
			map[string]any{"injected": injected, "second_misuse": second, "misuses_injected": nInjected})
	}
	// several builders alive at once, their calls interleaved: each is compared with the model of ITS OWN
	// call list (builders are independent: that is the specification)
	for i, m := range multis(root.Fork(0xb111d), *n/12) {
		emittedBy := map[*workflow.Plan]int{}
		lives := make([]*live, len(m.sessions))
		for b, s := range m.sessions {
			lives[b] = newLive(s, b, emittedBy)
		}
		for _, b := range m.schedule {
			lives[b].step()
		}
		for b, l := range lives {
			for !l.done() { // whatever the schedule left over
				l.step()
			}
			putCase(w, fmt.Sprintf("builder-multi-%d-%c", i, 'a'+b), "multi", m.sessions[b], l.finish(),
				map[string]any{"injected": "multi:" + m.name, "second_misuse": "", "misuses_injected": 0, "builders": len(lives),
					"schedule": m.schedule})
		}
	}
}

func putCase(w *core.Writer, id, family string, s session, so sessionObs, dist map[string]any) {
	callTerms := make([]string, len(s.Calls))
	kinds := map[string]int{}
	for j, c := range s.Calls {
		callTerms[j] = c.coq()
		kinds[c.Kind]++
	}
	obsTerms := make([]string, len(so.obs))
	panicked := ""
	for j, o := range so.obs {
		obsTerms[j] = o.coq()
		if o.Panic != "" && panicked == "" {
			panicked = fmt.Sprintf("call %d: %s", j, o.Panic)
		}
	}
	term := core.Pair(core.Pair(pargCoq(s.New), core.List(callTerms)), core.List(obsTerms))
	first := so.firstErr
	if first == "" {
		first = "none"
	}
	dist["len"], dist["first_error"], dist["emitted"], dist["objects"], dist["call_kinds"] = len(s.Calls), first, so.emitted, so.objects, kinds
	c := core.Case{
		ID:         id,
		Kind:       family,
		Coq:        term,
		Nontrivial: len(s.Calls) >= 3 && (so.objects >= 4 || so.firstErr != ""),
		Hash:       core.Hash(term),
		Dist:       dist,
		Input:      s,
		Observed:   so.obs,
		Note:       so.note,
	}
	if panicked != "" {
		c.Note = "panic: " + panicked + " " + c.Note
	}
	w.Put(c)
}

type multi struct {
	name     string
	sessions []session
	schedule []int // which builder makes its next call (its first call is New)
}

// multis: (1) exhaustively, the 6 possible orders of the four events
//
//	E = builder a emits (its first Plan()), R = a is Reset afterwards, N = builder b is created, A = b's first Add*
//
// (E before R, N before A), each for 3 session shapes; before the first event a runs up to E, after the last one the
// remaining calls alternate.  (2) random: 2-3 ordinary sessions (with Plan()/Reset in the middle, some with a
// misuse), uniformly random interleaving.
func multis(r *core.Rand, nRandom int) (out []multi) {
	orders := [][]string{{"E", "R", "N", "A"}, {"E", "N", "R", "A"}, {"E", "N", "A", "R"}, {"N", "E", "R", "A"}, {"N", "E", "A", "R"}, {"N", "A", "E", "R"}}
	for shape := 0; shape < 3; shape++ {
		for oi, order := range orders {
			g := &gen{r: r.Fork(uint64(shape*10 + oi))}
			mk := func(n1, n2 int) session {
				s := session{New: g.mkReset(true)}
				c1, _, _ := g.epoch(n1)
				s.Calls = append(append(s.Calls, c1...), call{Kind: "plan"})
				if n2 > 0 {
					s.Calls = append(s.Calls, g.mkReset(true))
					c2, _, _ := g.epoch(n2)
					s.Calls = append(append(s.Calls, c2...), call{Kind: "plan"})
				}
				return s
			}
			a, b := mk(2+2*shape, 3+shape), mk(3+2*shape, shape)
			ev := map[string][2]int{"N": {1, 0}, "A": {1, 1}} // event -> builder, step index
			for k, c := range a.Calls {
				if c.Kind == "plan" {
					if _, ok := ev["E"]; !ok {
						ev["E"] = [2]int{0, k + 1}
					}
				}
				if c.Kind == "reset" {
					ev["R"] = [2]int{0, k + 1}
				}
			}
			pos := []int{0, 0}
			var sched []int
			upto := func(bi, step int) { // run builder bi up to and including its step
				for pos[bi] <= step {
					sched = append(sched, bi)
					pos[bi]++
				}
			}
			upto(0, ev["E"][1]-1)
			for _, e := range order {
				upto(ev[e][0], ev[e][1])
			}
			for pos[0] <= len(a.Calls) || pos[1] <= len(b.Calls) {
				for bi, s := range []session{a, b} {
					if pos[bi] <= len(s.Calls) {
						sched = append(sched, bi)
						pos[bi]++
					}
				}
			}
			out = append(out, multi{name: "order-" + strings.Join(order, ""), sessions: []session{a, b}, schedule: sched})
		}
	}
	for i := 0; i < nRandom; i++ {
		g := &gen{r: r.Fork(uint64(1000 + i))}
		nb := 2 + g.r.Intn(2)
		m := multi{name: fmt.Sprintf("random-%d-builders", nb)}
		var left []int
		for b := 0; b < nb; b++ {
			fam := "valid"
			if g.r.Chance(0.3) {
				fam = "inject"
			}
			s, _, _, _ := g.session(fam)
			m.sessions = append(m.sessions, s)
			left = append(left, len(s.Calls)+1)
		}
		for {
			var alive []int
			for b, n := range left {
				if n > 0 {
					alive = append(alive, b)
				}
			}
			if len(alive) == 0 {
				break
			}
			b := alive[g.r.Intn(len(alive))]
			// runs of 1-4 calls of the same builder
			for k := 1 + g.r.Intn(4); k > 0 && left[b] > 0; k-- {
				m.schedule = append(m.schedule, b)
				left[b]--
			}
		}
		out = append(out, m)
	}
	return out
}
