// c07k2: deterministic witness of known finding K2 (property C07, "deferred checks run after everything else in
// that scope"): one block with a continuous group (Delay 1 ms, each run works -cont ms), one sequence with one short
// action and a deferred check that works for -slow ms. The block's continuous thread is only stopped in BlockEnd, after BlockPostChecks and
// BlockDeferredChecks, so runs of the block's continuous check BEGIN after the deferred run has begun. The case is
// run through harness/engine (same event log and Coq term as every engine case); one JSON line.
package main

import (
	"encoding/json"
	"flag"
	"fmt"
	"os"

	"verifharness/core"
	"verifharness/engine"
)

func main() {
	outPath := flag.String("out", "", "output JSONL")
	slow := flag.Int("slow", 150, "duration of the deferred check (ms)")
	contMs := flag.Int("cont", 30, "duration of one run of the continuous check (ms)")
	flag.Parse()
	one := &engine.Group{Retries: []int{0}}
	var bg [5]*engine.Group
	bg[engine.GCont], bg[engine.GDeferred] = one, &engine.Group{Retries: []int{0}}
	sp := &engine.Spec{Profile: "k2witness", Index: 0, Kind: "block-cont-during-deferred",
		Shape:       engine.Shape{Blocks: []engine.Block{{G: bg, Seqs: [][]int{{0}}, Conc: 1, Tol: 0}}},
		Scripts:     map[string]engine.Script{},
		ContDelayUs: [2]int{1000, 1000}, Short: map[string]int{}, Dist: map[string]any{"profile": "k2witness"}}
	// every run of the continuous check works for 30 ms, so that the thread is in the middle of its 2nd run (not parked in
	// its send, cf. K1) when the short action ends and the deferred check begins; its 3rd run then BEGINS about 25 ms later
	run := []engine.Step{{O: engine.OOk, SlowMs: *contMs}}
	sp.Scripts[engine.ChkPath(0, engine.GCont, 0)] = engine.Script{run, run, run, run, run}
	sp.Scripts[engine.SeqPath(0, 0, 0)] = engine.Script{{{O: engine.OOk, SlowMs: 5}}}
	sp.Scripts[engine.ChkPath(0, engine.GDeferred, 0)] = engine.Script{{{O: engine.OOk, SlowMs: *slow}}}
	res := engine.RunGroup([]*engine.Spec{sp}, core.Seed(), engine.Options{})
	f := os.Stdout
	if *outPath != "" {
		var err error
		if f, err = os.Create(*outPath); err != nil {
			fmt.Fprintln(os.Stderr, err)
			os.Exit(2)
		}
		defer f.Close()
	}
	enc := json.NewEncoder(f)
	for _, r := range res {
		c := r.Case
		if r.Hang {
			c.Note = "hang " + c.Note
		}
		enc.Encode(c)
	}
}
