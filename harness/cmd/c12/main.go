// c12: drives the public Workstream API (Submit, Start, Wait, Status, Plan) through generated histories and
// concurrent bursts. EVERY history runs in a child process (this binary re-executed with -child), so that a
// panic, a log.Fatal or an os.Exit of the code under test is an observation and not the end of the check.
//
// parent:  generates specs from VERIF_SEED, runs children in parallel, turns what they printed into cases
//
//	(core.Case with a Coq term of type Coercion.Api.ApiCheck.case).
//
// child:   builds an in-memory sqlite vault, the harness plugins (gated per plan, counting calls per action),
//
//	a Workstream, executes the spec and prints one line per call: "B i" before, "E i <class>" after.
package main

import (
	"bufio"
	"bytes"
	"context"
	"encoding/json"
	stderrors "errors"
	"flag"
	"fmt"
	"os"
	"os/exec"
	"sort"
	"strconv"
	"strings"
	"sync"
	"time"

	"verifharness/core"
	"verifharness/hplug"
	"verifharness/plangen"

	coercion "github.com/element-of-surprise/coercion"
	"github.com/element-of-surprise/coercion/plugins"
	"github.com/element-of-surprise/coercion/workflow"
	werrors "github.com/element-of-surprise/coercion/workflow/errors"
	"github.com/element-of-surprise/coercion/workflow/storage"
	"github.com/element-of-surprise/coercion/workflow/storage/sqlite"
	"github.com/element-of-surprise/coercion/workflow/utils/walk"
	"github.com/google/uuid"
)

// ---------------------------------------------------------------------------------------------- specs

const (
	modelNow   = int64(10_000_000) // model time (ms) of the first call
	defaultMax = int64(1_800_000)  // 30 min, the default maxSubmit
	idUnknown  = 900               // ids >= 900 are ids the vault never had; 999 is uuid.Nil
	idNil      = 999
)

// PreSpec is a plan image created directly in the vault before the first call.
type PreSpec struct {
	Status   int    `json:"status"`   // 0 NotStarted, 1 Running, 2 Completed, 3 Failed, 4 Stopped
	ZeroSub  bool   `json:"zero_sub"` // SubmitTime is the zero time
	OffsetMs int64  `json:"offset_ms"`
	Invalid  string `json:"invalid"` // "", attempts, nested, nestedstart, checkkind, v4id
	GateOpen bool   `json:"gate_open"`
	What     string `json:"what"`
}

type OpSpec struct {
	Op       string `json:"op"` // submit start wait status plan await open tick delete
	ID       int    `json:"id"`
	IDKind   string `json:"id_kind,omitempty"` // known unknown deleted nil (for the histogram)
	Valid    bool   `json:"valid,omitempty"`
	BadKind  int    `json:"bad_kind,omitempty"`
	GateOpen bool   `json:"gate_open,omitempty"`
	TickMs   int64  `json:"tick_ms,omitempty"`
	Quiesce  bool   `json:"quiesce,omitempty"` // appended by the generator to bring everything to rest
	// Interval (status only): "" = the spec's positive interval, "zero" = 0, "neg1" = -1 ns, "negbig" = -(1<<62) ns.
	// The results of Status do not depend on the interval; a non-positive one must not panic (time.NewTicker would).
	Interval string `json:"interval,omitempty"`
}

type BurstSpec struct {
	Target   *PreSpec `json:"target"` // nil: an id the vault does not have
	NilID    bool     `json:"nil_id"`
	Starts   int      `json:"starts"`
	Others   []string `json:"others"`    // wait plan status
	GateOpen bool     `json:"gate_open"` // false: the gate opens only after every Start has returned
	ViaAPI   bool     `json:"via_api"`   // the target is submitted with Workstream.Submit instead of vault.Create
	// HeldRead: the "stale read" family. The first store.Read(id) - the one inside the first Start call, B - is
	// held by a gate in a vault wrapper; the other Start calls are made while B sits in that Read; the gate opens
	// when they have returned and the plan has finished, or after HoldMs, whichever comes first; then one more
	// Start is made. b_starts = B, the others, the last one.
	HeldRead bool `json:"held_read,omitempty"`
	// FailingHolder: Start A sits in a held Read (so it holds whatever lock Start takes); Start B is made and
	// queues behind it; A's context is cancelled and its Read fails, so A returns an error having registered
	// nothing; B goes on and is held in ITS Read; Start C is made; B is released when C has returned or after
	// HoldMs; then one more Start. b_starts = A, B, C, the last one.
	FailingHolder bool `json:"failing_holder,omitempty"`
	// CtxCancel: the context of the first Start is cancelled right after its store.Read returned (vault wrapper);
	// Starts-1 more Start calls race with it (0 = a lone Start); then Wait (bounded), one more Start, counts.
	// Cancelling the context given to Start must not stop or lose the execution: exactly one execution.
	CtxCancel bool `json:"ctx_cancel,omitempty"`
	HoldMs    int  `json:"hold_ms,omitempty"`
}

// heldVault is a storage.Vault (the unexported marker method is promoted from the embedded value) in which the
// next Reads of an id can be held: the store answers at once, but the answer is delivered only when the hold
// is released (a slow store) - or, for a failing hold, an error is delivered instead (the caller's context
// error if it has one by then).
type hold struct {
	held    chan struct{} // closed when a Read sits in this hold
	release chan struct{}
	fail    bool
	// cancelAfter: no delay; the caller's context is cancelled right after the store has answered (a request
	// deadline that expires while Start is between its store read and the hand-off to the engine)
	cancelAfter func()
}

func newHold(fail bool) *hold {
	return &hold{held: make(chan struct{}), release: make(chan struct{}), fail: fail}
}

type heldVault struct {
	storage.Vault
	mu    sync.Mutex
	holds map[uuid.UUID][]*hold // consumed in order by successive Reads of the id
}

func (h *heldVault) clear(id uuid.UUID) {
	h.mu.Lock()
	delete(h.holds, id)
	h.mu.Unlock()
}

func (h *heldVault) push(id uuid.UUID, hs ...*hold) {
	h.mu.Lock()
	h.holds[id] = append(h.holds[id], hs...)
	h.mu.Unlock()
}

func (h *heldVault) Read(ctx context.Context, id uuid.UUID) (*workflow.Plan, error) {
	h.mu.Lock()
	var hd *hold
	if q := h.holds[id]; len(q) > 0 {
		hd, h.holds[id] = q[0], q[1:]
	}
	h.mu.Unlock()
	p, err := h.Vault.Read(ctx, id) // the store answers now ...
	if hd != nil && hd.cancelAfter != nil {
		hd.cancelAfter()
		return p, err
	}
	if hd != nil {
		close(hd.held)
		<-hd.release // ... but the answer reaches the caller late
		if hd.fail {
			if ctx.Err() != nil {
				return nil, ctx.Err()
			}
			return nil, fmt.Errorf("injected read failure")
		}
	}
	return p, err
}

type Spec struct {
	Kind     string     `json:"kind"` // hist burst
	Index    int        `json:"index"`
	Seed     uint64     `json:"seed"`
	MaxMs    int64      `json:"max_ms"`
	SetMax   bool       `json:"set_max"` // false: the default (30 min) is used and MaxMs = defaultMax
	Pre      []PreSpec  `json:"pre,omitempty"`
	Ops      []OpSpec   `json:"ops,omitempty"`
	Burst    *BurstSpec `json:"burst,omitempty"`
	Family   string     `json:"family"`
	GraceMs  int        `json:"grace_ms"`
	ShortMs  int        `json:"short_ms"`
	StatusMs int        `json:"status_ms"`
	IdleMs   int        `json:"idle_ms"` // deadline of a Wait on a plan that is not executing
}

// ---------------------------------------------------------------------------------------------- child

type planRec struct {
	nonce string
	gate  chan struct{}
	open  bool
	mu    sync.Mutex
	calls map[string]int
	id    uuid.UUID
}

type world struct {
	mu    sync.Mutex
	recs  map[string]*planRec // by nonce
	set   *hplug.Set
	vault *sqlite.Vault
	hv    *heldVault
	ws    *coercion.Workstream
	ids   []*planRec // created ids in creation order
	r     *core.Rand
	unk   map[int]uuid.UUID
	// in flight as far as the caller can tell: a Start returned nil and no Wait has returned a terminal plan since
	inflight map[int]bool
	spec     *Spec
	t0       time.Time
}

func (w *world) behaviour(ctx context.Context, p *hplug.Plugin, req any) (any, *plugins.Error) {
	r, ok := req.(hplug.Req)
	if !ok {
		return p.OKResp(req), nil
	}
	w.mu.Lock()
	rec := w.recs[r.Nonce]
	w.mu.Unlock()
	if rec == nil {
		return p.OKResp(req), nil
	}
	rec.mu.Lock()
	rec.calls[r.Path]++
	rec.mu.Unlock()
	select {
	case <-rec.gate:
	case <-ctx.Done():
	}
	return p.OKResp(req), nil
}

func (w *world) newRec(gateOpen bool) *planRec {
	rec := &planRec{nonce: fmt.Sprintf("n%016x", w.r.Uint64()), gate: make(chan struct{}), calls: map[string]int{}}
	if gateOpen {
		rec.open = true
		close(rec.gate)
	}
	w.mu.Lock()
	w.recs[rec.nonce] = rec
	w.mu.Unlock()
	return rec
}

func (rec *planRec) openGate() {
	rec.mu.Lock()
	if !rec.open {
		rec.open = true
		close(rec.gate)
	}
	rec.mu.Unlock()
}

func (rec *planRec) maxCalls() int {
	rec.mu.Lock()
	defer rec.mu.Unlock()
	m := 0
	for _, n := range rec.calls {
		if n > m {
			m = n
		}
	}
	return m
}

// buildPlan makes an all-ok plan: no bypass and no continuous checks (those legitimately run plugins a
// varying number of times), retries 0 everywhere.
func buildPlan(r *core.Rand, nonce string) *workflow.Plan {
	n := 0
	act := func(check bool, path string) *workflow.Action {
		n++
		a := &workflow.Action{Name: fmt.Sprintf("a%d", n), Descr: "action", Timeout: 30 * time.Second, Retries: 0,
			Plugin: hplug.ActionName, Req: hplug.Req{Nonce: nonce, Path: path, Arg: int64(n)}}
		if check {
			a.Plugin = hplug.CheckName
		}
		return a
	}
	checks := func(path string) *workflow.Checks {
		return &workflow.Checks{Actions: []*workflow.Action{act(true, path+"/0")}}
	}
	p := &workflow.Plan{Name: "plan " + nonce, Descr: "c12 plan"}
	if r.Chance(0.3) {
		p.PreChecks = checks("pre")
	}
	if r.Chance(0.3) {
		p.PostChecks = checks("post")
	}
	if r.Chance(0.2) {
		p.DeferredChecks = checks("deferred")
	}
	nb := r.Range(1, 2)
	for b := 0; b < nb; b++ {
		blk := &workflow.Block{Name: fmt.Sprintf("b%d", b), Descr: "block", Concurrency: r.Range(1, 2)}
		if r.Chance(0.2) {
			blk.PreChecks = checks(fmt.Sprintf("b%d/pre", b))
		}
		ns := r.Range(1, 2)
		for s := 0; s < ns; s++ {
			sq := &workflow.Sequence{Name: fmt.Sprintf("s%d", s), Descr: "seq"}
			na := r.Range(1, 2)
			for a := 0; a < na; a++ {
				sq.Actions = append(sq.Actions, act(false, fmt.Sprintf("b%d/s%d/a%d", b, s, a)))
			}
			blk.Sequences = append(blk.Sequences, sq)
		}
		p.Blocks = append(p.Blocks, blk)
	}
	return p
}

type defaulter interface{ Defaults() }
type planIDer interface{ SetPlanID(uuid.UUID) }

// craft creates an image in the vault without going through Submit.
func (w *world) craft(ps PreSpec) (*planRec, error) {
	rec := w.newRec(ps.GateOpen)
	p := buildPlan(w.r, rec.nonce)
	for it := range walk.Plan(p) {
		if d, ok := it.Value.(defaulter); ok {
			d.Defaults()
		}
	}
	for it := range walk.Plan(p) {
		if it.Value.Type() != workflow.OTPlan {
			if s, ok := it.Value.(planIDer); ok {
				s.SetPlanID(p.ID)
			}
		}
	}
	if !ps.ZeroSub {
		p.SubmitTime = time.Now().UTC().Add(time.Duration(ps.OffsetMs) * time.Millisecond)
	}
	st := []workflow.Status{workflow.NotStarted, workflow.Running, workflow.Completed, workflow.Failed, workflow.Stopped}[ps.Status]
	p.State.Status = st
	if st != workflow.NotStarted {
		p.State.Start = time.Now().UTC().Add(-time.Minute)
		if st != workflow.Running {
			p.State.End = time.Now().UTC().Add(-time.Second)
		}
		if st == workflow.Failed {
			p.Reason = workflow.FRBlock
		}
	}
	first := p.Blocks[0].Sequences[0].Actions[0]
	switch ps.Invalid {
	case "":
	case "attempts":
		first.Attempts = []*workflow.Attempt{{Resp: hplug.Resp{Path: "x", Value: 1}, Start: time.Now().Add(-time.Minute), End: time.Now().Add(-time.Second)}}
	case "nested":
		p.Blocks[0].State.Status = workflow.Completed
	case "nestedstart":
		p.Blocks[0].Sequences[0].State.Start = time.Now().UTC().Add(-time.Minute)
	case "checkkind":
		c := &workflow.Checks{Actions: []*workflow.Action{{Name: "wrong kind", Descr: "action plugin in a checks object", Timeout: 30 * time.Second,
			Plugin: hplug.ActionName, Req: hplug.Req{Nonce: rec.nonce, Path: "bad/0"}}}}
		c.Defaults()
		c.Actions[0].Defaults()
		c.SetPlanID(p.ID)
		c.Actions[0].SetPlanID(p.ID)
		p.PostChecks = c
	case "v4id":
		p.Blocks[0].Sequences[0].ID = plangen.V4(w.r)
	default:
		return nil, fmt.Errorf("unknown invalid kind %q", ps.Invalid)
	}
	if err := w.vault.Create(context.Background(), p); err != nil {
		return nil, err
	}
	rec.id = p.ID
	return rec, nil
}

func badPlan(kind int, r *core.Rand, nonce string) *workflow.Plan {
	p := buildPlan(r, nonce)
	switch kind % 5 {
	case 0:
		return nil
	case 1:
		p.Name = "  "
	case 2:
		p.Blocks = nil
	case 3:
		p.ID = plangen.V7(r)
	case 4:
		p.Blocks[0].Sequences[0].Actions[0].Plugin = "no such plugin"
	}
	return p
}

func (w *world) uuidOf(id int) uuid.UUID {
	if id == idNil {
		return uuid.Nil
	}
	if id >= 0 && id < len(w.ids) {
		return w.ids[id].id
	}
	if u, ok := w.unk[id]; ok {
		return u
	}
	u := plangen.V7(w.r)
	w.unk[id] = u
	return u
}

func statusClass(s workflow.Status) string {
	switch s {
	case workflow.NotStarted:
		return "st0"
	case workflow.Running:
		return "st1"
	case workflow.Completed:
		return "st2"
	case workflow.Failed:
		return "st3"
	case workflow.Stopped:
		return "st4"
	}
	return "st?"
}

// errClass maps an error to the enum of the model. No error text is looked at: a categorised error
// (workflow/errors.Error) is a rejection, context errors are cancellation, anything else is what the store
// says about an id it does not have.
func errClass(err error) string {
	if err == nil {
		return "ok"
	}
	if stderrors.Is(err, context.Canceled) || stderrors.Is(err, context.DeadlineExceeded) {
		return "canceled"
	}
	var e werrors.Error
	if stderrors.As(err, &e) {
		return "rejected"
	}
	return "notfound"
}

func planClass(p *workflow.Plan, err error) string {
	if err != nil {
		return errClass(err)
	}
	if p == nil || p.State == nil {
		return "empty"
	}
	return statusClass(p.State.Status)
}

func (w *world) isTerminalClass(c string) bool { return c == "st2" || c == "st3" || c == "st4" }

func (w *world) doOp(op OpSpec) string {
	bg := context.Background()
	switch op.Op {
	case "submit":
		rec := w.newRec(op.GateOpen)
		var p *workflow.Plan
		if op.Valid {
			p = buildPlan(w.r, rec.nonce)
		} else {
			p = badPlan(op.BadKind, w.r, rec.nonce)
		}
		id, err := w.ws.Submit(bg, p)
		if err != nil {
			return "rejected"
		}
		rec.id = id
		w.ids = append(w.ids, rec)
		return "ok"
	case "startc":
		// Start whose context is cancelled right after its store.Read returned; to the model it is a Start
		ctx, cancel := context.WithCancel(bg)
		defer cancel()
		u := w.uuidOf(op.ID)
		w.hv.push(u, &hold{cancelAfter: cancel})
		err := w.ws.Start(ctx, u)
		w.hv.clear(u)
		if err == nil {
			w.inflight[op.ID] = true
		}
		return errClass(err)
	case "start":
		err := w.ws.Start(bg, w.uuidOf(op.ID))
		if err == nil {
			w.inflight[op.ID] = true
		}
		return errClass(err)
	case "wait":
		// Deadlines: a plan the caller started and holds by its gate: the call is going to block (short);
		// a plan the caller started whose gate is open: it has to finish first (long); anything else - never
		// started by this caller, finished, unknown id - is not executing, so Wait has nothing to wait for:
		// a generous deadline for one store read, after which the call counts as blocked.
		d := time.Duration(w.spec.IdleMs) * time.Millisecond
		if op.ID < len(w.ids) && w.inflight[op.ID] {
			d = 10 * time.Second
			if !w.ids[op.ID].open {
				d = time.Duration(w.spec.ShortMs) * time.Millisecond
			}
		}
		ctx, cancel := context.WithTimeout(bg, d)
		defer cancel()
		p, err := w.ws.Wait(ctx, w.uuidOf(op.ID))
		c := planClass(p, err)
		if w.isTerminalClass(c) {
			w.inflight[op.ID] = false
		}
		return c
	case "plan":
		p, err := w.ws.Plan(bg, w.uuidOf(op.ID))
		return planClass(p, err)
	case "status":
		// the iterator is consumed until it stops by itself or has delivered 3 results
		ctx, cancel := context.WithTimeout(bg, 10*time.Second)
		defer cancel()
		var cs []string
		ended := true
		iv := time.Duration(w.spec.StatusMs) * time.Millisecond
		switch op.Interval {
		case "zero":
			iv = 0
		case "neg1":
			iv = -1
		case "negbig":
			iv = -(1 << 62)
		}
		for r := range w.ws.Status(ctx, w.uuidOf(op.ID), iv) {
			cs = append(cs, planClass(r.Data, r.Err))
			if len(cs) >= 3 {
				ended = false
				break
			}
		}
		if len(cs) == 0 {
			return "canceled"
		}
		if ended {
			return strings.Join(cs, ",") + ";e"
		}
		return strings.Join(cs, ",") + ";b"
	case "await":
		deadline := time.Now().Add(10 * time.Second)
		for time.Now().Before(deadline) {
			p, err := w.ws.Plan(bg, w.uuidOf(op.ID))
			c := planClass(p, err)
			if c == "st1" || w.isTerminalClass(c) {
				return c
			}
			time.Sleep(500 * time.Microsecond)
		}
		return "canceled"
	case "open":
		if op.ID < len(w.ids) {
			w.ids[op.ID].openGate()
		}
		return "none"
	case "tick":
		time.Sleep(time.Duration(op.TickMs) * time.Millisecond)
		return "none"
	case "delete":
		if err := w.vault.Delete(bg, w.uuidOf(op.ID)); err != nil {
			return errClass(err)
		}
		return "none"
	}
	return "unknown-op"
}

func newWorld(spec *Spec) (*world, error) {
	w := &world{recs: map[string]*planRec{}, set: hplug.NewSet(), unk: map[int]uuid.UUID{}, inflight: map[int]bool{},
		r: core.NewRand(spec.Seed).Fork(uint64(spec.Index) + 7_000_000), spec: spec, t0: time.Now()}
	w.set.Action.SetBehaviour(w.behaviour)
	w.set.Check.SetBehaviour(w.behaviour)
	ctx := context.Background()
	v, err := sqlite.New(ctx, "", w.set.Reg, sqlite.WithInMemory())
	if err != nil {
		return nil, err
	}
	w.vault = v
	var opts []coercion.Option
	if spec.SetMax {
		opts = append(opts, coercion.WithMaxSubmit(time.Duration(spec.MaxMs)*time.Millisecond))
	}
	var store storage.Vault = v
	w.hv = &heldVault{Vault: v, holds: map[uuid.UUID][]*hold{}} // passes everything through unless a hold is pushed
	store = w.hv
	ws, err := coercion.New(ctx, w.set.Reg, store, opts...)
	if err != nil {
		return nil, err
	}
	w.ws = ws
	return w, nil
}

func childMain() {
	var spec Spec
	if err := json.NewDecoder(os.Stdin).Decode(&spec); err != nil {
		fmt.Println("SETUPERR", err)
		os.Exit(3)
	}
	out := bufio.NewWriter(os.Stdout)
	say := func(f string, a ...any) { fmt.Fprintf(out, f+"\n", a...); out.Flush() }
	if spec.IdleMs == 0 {
		spec.IdleMs = 3000
	}
	w, err := newWorld(&spec)
	if err != nil {
		say("SETUPERR %v", err)
		os.Exit(3)
	}
	grace := time.Duration(spec.GraceMs) * time.Millisecond
	switch spec.Kind {
	case "hist":
		for _, ps := range spec.Pre {
			rec, err := w.craft(ps)
			if err != nil {
				say("SETUPERR craft %s: %v", ps.What, err)
				os.Exit(3)
			}
			w.ids = append(w.ids, rec)
		}
		say("READY")
		for i, op := range spec.Ops {
			say("B %d", i)
			say("E %d %s", i, w.doOp(op))
		}
		say("OPSDONE")
		time.Sleep(grace) // a goroutine of the code under test that is about to panic gets the time to do so
		var xs []string
		for _, rec := range w.ids {
			xs = append(xs, strconv.Itoa(rec.maxCalls()))
		}
		say("X %s", strings.Join(xs, " "))
		say("DONE")
	case "burst":
		b := spec.Burst
		var id uuid.UUID
		var rec *planRec
		switch {
		case b.NilID:
			id = uuid.Nil
		case b.Target == nil:
			id = plangen.V7(w.r)
		case b.ViaAPI:
			rec = w.newRec(b.GateOpen)
			var err error
			id, err = w.ws.Submit(context.Background(), buildPlan(w.r, rec.nonce))
			if err != nil {
				say("SETUPERR submit: %v", err)
				os.Exit(3)
			}
			rec.id = id
		default:
			ps := *b.Target
			ps.GateOpen = b.GateOpen
			var err error
			rec, err = w.craft(ps)
			if err != nil {
				say("SETUPERR craft: %v", err)
				os.Exit(3)
			}
			id = rec.id
		}
		burstStartable := b.Target != nil && (b.ViaAPI || specStartable(b.Target, spec.MaxMs, modelNow))
		if b.CtxCancel {
			say("READY")
			say("B 0")
			n := b.Starts
			starts := make([]string, n+1)
			ctxA, cancelA := context.WithCancel(context.Background())
			w.hv.push(id, &hold{cancelAfter: cancelA})
			var wg sync.WaitGroup
			fire := make(chan struct{})
			for i := 0; i < n; i++ {
				wg.Add(1)
				go func(i int) {
					defer wg.Done()
					<-fire
					c := context.Background()
					if i == 0 {
						c = ctxA
					}
					starts[i] = errClass(w.ws.Start(c, id))
				}(i)
			}
			close(fire)
			wg.Wait()
			cancelA()
			say("S %s", strings.Join(starts[:n], ","))
			ctx, cancel := context.WithTimeout(context.Background(), 5*time.Second) // the gate is open: a run finishes at once
			p, err := w.ws.Wait(ctx, id)
			final := planClass(p, err)
			cancel()
			starts[n] = errClass(w.ws.Start(context.Background(), id))
			say("E 0 burst")
			say("OPSDONE")
			time.Sleep(grace)
			ex := 0
			if rec != nil {
				ex = rec.maxCalls()
			}
			say("R %s||%d|%s", strings.Join(starts, ","), ex, final)
			say("DONE")
			return
		}
		if b.FailingHolder {
			say("READY")
			say("B 0")
			h1, h2 := newHold(true), newHold(false)
			w.hv.push(id, h1, h2)
			starts := make([]string, 4)
			ctxA, cancelA := context.WithCancel(context.Background())
			var wgA, wgB, wgC sync.WaitGroup
			wgA.Add(1)
			go func() { defer wgA.Done(); starts[0] = errClass(w.ws.Start(ctxA, id)) }()
			select {
			case <-h1.held: // A is inside store.Read, holding the lock
			case <-time.After(5 * time.Second):
			}
			wgB.Add(1)
			go func() { defer wgB.Done(); starts[1] = errClass(w.ws.Start(context.Background(), id)) }()
			time.Sleep(40 * time.Millisecond) // B is now waiting for the lock A holds
			cancelA()
			close(h1.release)
			wgA.Wait()
			select {
			case <-h2.held: // B has the lock, has passed the waiter check and sits in its Read
			case <-time.After(2 * time.Second):
			}
			cDone := make(chan struct{})
			wgC.Add(1)
			go func() { defer wgC.Done(); starts[2] = errClass(w.ws.Start(context.Background(), id)); close(cDone) }()
			select {
			case <-cDone:
			case <-time.After(time.Duration(b.HoldMs) * time.Millisecond):
			}
			close(h2.release)
			wgB.Wait()
			wgC.Wait()
			cancelA()
			say("S %s", strings.Join(starts[:3], ","))
			ctx, cancel := context.WithTimeout(context.Background(), 20*time.Second)
			p, err := w.ws.Wait(ctx, id)
			final := planClass(p, err)
			cancel()
			starts[3] = errClass(w.ws.Start(context.Background(), id))
			say("E 0 burst")
			say("OPSDONE")
			time.Sleep(grace)
			ex := 0
			if rec != nil {
				ex = rec.maxCalls()
			}
			say("R %s||%d|%s", strings.Join(starts, ","), ex, final)
			say("DONE")
			return
		}
		if b.HeldRead {
			say("READY")
			say("B 0")
			h1 := newHold(false)
			w.hv.push(id, h1)
			n := b.Starts
			starts := make([]string, n+1)
			var wgB, wgA sync.WaitGroup
			wgB.Add(1)
			go func() { defer wgB.Done(); starts[0] = errClass(w.ws.Start(context.Background(), id)) }()
			select {
			case <-h1.held: // B is inside store.Read
			case <-time.After(5 * time.Second):
			}
			aDone := make(chan struct{})
			for i := 1; i < n; i++ {
				wgA.Add(1)
				go func(i int) { defer wgA.Done(); starts[i] = errClass(w.ws.Start(context.Background(), id)) }(i)
			}
			go func() { wgA.Wait(); close(aDone) }()
			deadline := time.After(time.Duration(b.HoldMs) * time.Millisecond)
		hold:
			for {
				select {
				case <-deadline:
					break hold
				case <-aDone:
					// the others have returned: if one of them started the plan, let that execution finish
					// (terminal status durable, then a moment for the goroutine's cleanup) before B goes on
					p, err := w.vault.Read(context.Background(), id)
					if err == nil && p.State != nil && w.isTerminalClass(statusClass(p.State.Status)) {
						time.Sleep(30 * time.Millisecond)
						break hold
					}
					select {
					case <-deadline:
						break hold
					case <-time.After(time.Millisecond):
					}
				}
			}
			close(h1.release)
			wgB.Wait()
			wgA.Wait()
			say("S %s", strings.Join(starts[:n], ","))
			ctx, cancel := context.WithTimeout(context.Background(), 20*time.Second)
			p, err := w.ws.Wait(ctx, id)
			final := planClass(p, err)
			cancel()
			starts[n] = errClass(w.ws.Start(context.Background(), id))
			say("E 0 burst")
			say("OPSDONE")
			time.Sleep(grace)
			ex := 0
			if rec != nil {
				ex = rec.maxCalls()
			}
			say("R %s||%d|%s", strings.Join(starts, ","), ex, final)
			say("DONE")
			return
		}
		say("READY")
		say("B 0")
		starts := make([]string, b.Starts)
		others := make([]string, len(b.Others))
		var wg, startsDone sync.WaitGroup
		fire := make(chan struct{})
		for i := 0; i < b.Starts; i++ {
			wg.Add(1)
			startsDone.Add(1)
			go func(i int) {
				defer wg.Done()
				defer startsDone.Done()
				<-fire
				starts[i] = errClass(w.ws.Start(context.Background(), id))
			}(i)
		}
		for i, what := range b.Others {
			wg.Add(1)
			go func(i int, what string) {
				defer wg.Done()
				<-fire
				d := 20 * time.Second
				if !burstStartable {
					d = time.Duration(spec.IdleMs) * time.Millisecond // nothing will execute: nothing to wait for
				}
				ctx, cancel := context.WithTimeout(context.Background(), d)
				defer cancel()
				switch what {
				case "wait":
					p, err := w.ws.Wait(ctx, id)
					others[i] = planClass(p, err)
				case "plan":
					p, err := w.ws.Plan(ctx, id)
					others[i] = planClass(p, err)
				case "status":
					c, n := "canceled", 0
					for r := range w.ws.Status(ctx, id, time.Duration(spec.StatusMs)*time.Millisecond) {
						if n == 0 {
							c = planClass(r.Data, r.Err)
						}
						n++
						if n >= 3 {
							break
						}
					}
					others[i] = c
				}
			}(i, what)
		}
		close(fire)
		startsDone.Wait()
		say("S %s", strings.Join(starts, ",")) // known even if the process dies later
		if rec != nil {
			rec.openGate()
		}
		wg.Wait()
		final := "notfound"
		anyOK := false
		for _, s := range starts {
			if s == "ok" {
				anyOK = true
			}
		}
		ctx, cancel := context.WithTimeout(context.Background(), 20*time.Second)
		if anyOK {
			p, err := w.ws.Wait(ctx, id)
			final = planClass(p, err)
		} else {
			p, err := w.ws.Plan(ctx, id)
			final = planClass(p, err)
		}
		cancel()
		say("E 0 burst")
		say("OPSDONE")
		time.Sleep(grace)
		ex := 0
		if rec != nil {
			ex = rec.maxCalls()
		}
		say("R %s|%s|%d|%s", strings.Join(starts, ","), strings.Join(others, ","), ex, final)
		say("DONE")
	}
}

// ---------------------------------------------------------------------------------------------- parent

type childOut struct {
	results     []string // per op; "" = not reached
	died        int      // index of the op in progress when the process ended abnormally, -1 = none, -2 = between/after ops
	execs       []int
	burst       string
	burstStarts string
	abnorm      string // "", "panic", "exit", "hang", "setup"
	stderr      string
	wall        time.Duration
}

func runChild(self string, spec *Spec, timeout time.Duration) childOut {
	t0 := time.Now()
	in, _ := json.Marshal(spec)
	ctx, cancel := context.WithTimeout(context.Background(), timeout)
	defer cancel()
	cmd := exec.CommandContext(ctx, self, "-child")
	cmd.Stdin = bytes.NewReader(in)
	var so, se bytes.Buffer
	cmd.Stdout = &so
	cmd.Stderr = &se
	err := cmd.Run()
	o := childOut{died: -1, results: make([]string, len(spec.Ops)), wall: time.Since(t0)}
	if spec.Kind == "burst" {
		o.results = make([]string, 1)
	}
	begun, done, opsdone := -1, false, false
	for _, line := range strings.Split(so.String(), "\n") {
		f := strings.Fields(line)
		if len(f) == 0 {
			continue
		}
		switch f[0] {
		case "B":
			begun, _ = strconv.Atoi(f[1])
		case "E":
			i, _ := strconv.Atoi(f[1])
			if i < len(o.results) && len(f) > 2 {
				o.results[i] = f[2]
			}
			begun = -1
		case "X":
			for _, x := range f[1:] {
				n, _ := strconv.Atoi(x)
				o.execs = append(o.execs, n)
			}
		case "S":
			if len(f) > 1 {
				o.burstStarts = f[1]
			}
		case "R":
			o.burst = strings.TrimPrefix(line, "R ")
		case "OPSDONE":
			opsdone = true
		case "DONE":
			done = true
		case "SETUPERR":
			o.abnorm = "setup"
			o.stderr = line
			return o
		}
	}
	_ = opsdone
	if done && err == nil {
		return o
	}
	tail := se.String()
	// keep the panic message and the top of its stack rather than the end of the goroutine dump
	if k := strings.LastIndex(tail, "\npanic: "); k >= 0 {
		tail = tail[k+1:]
	} else if k := strings.LastIndex(tail, "fatal error: "); k >= 0 {
		tail = tail[k:]
	} else if len(tail) > 2500 {
		tail = tail[len(tail)-2500:]
	}
	if len(tail) > 2500 {
		tail = tail[:2500]
	}
	o.stderr = tail
	switch {
	case ctx.Err() != nil:
		o.abnorm = "hang"
	case strings.Contains(se.String(), "panic:") || strings.Contains(se.String(), "fatal error:"):
		o.abnorm = "panic"
	default:
		o.abnorm = "exit"
	}
	if begun >= 0 {
		o.died = begun
	} else {
		o.died = -2
	}
	return o
}

var resTerm = map[string]string{
	"ok": "ROk", "none": "RNone", "empty": "REmpty", "notfound": "RNotFound", "rejected": "RRejected", "canceled": "RCanceled",
	"panic": "RPanic", "st0": "(RStatus NotStarted)", "st1": "(RStatus Running)", "st2": "(RStatus Completed)",
	"st3": "(RStatus Failed)", "st4": "(RStatus Stopped)",
}

func rterm(c string) string {
	if t, ok := resTerm[c]; ok {
		return t
	}
	return "RPanic" // anything the enum does not know is reported, never hidden
}

var statusTerm = []string{"NotStarted", "Running", "Completed", "Failed", "Stopped"}

func plTerm(ps *PreSpec, maxMs int64) string {
	sub := "None"
	if !ps.ZeroSub {
		sub = core.Some(core.Z(modelNow + ps.OffsetMs))
	}
	return core.Sprintf("{| pl_status := %s; pl_submit := %s; pl_valid := %s |}", statusTerm[ps.Status], sub, core.B(ps.Invalid == ""))
}

// splitStatus splits what a status op printed ("st1,st1,st2;e") into first, more, ended.
func splitStatus(res string) (string, []string, bool) {
	ended := true
	if k := strings.Index(res, ";"); k >= 0 {
		ended = res[k+1:] == "e"
		res = res[:k]
	}
	f := strings.Split(res, ",")
	return f[0], f[1:], ended
}

func opTerm(op OpSpec, res string) string {
	switch op.Op {
	case "submit":
		return core.Sprintf("(HSubmit %s %s)", core.B(op.Valid), core.B(op.GateOpen))
	case "start", "startc":
		return core.Sprintf("(HStart %d)", op.ID)
	case "wait":
		return core.Sprintf("(HWait %d)", op.ID)
	case "status":
		_, more, ended := splitStatus(res)
		var ts []string
		for _, m := range more {
			ts = append(ts, rterm(m))
		}
		return core.Sprintf("(HStatus %d %s %s)", op.ID, core.List(ts), core.B(ended))
	case "plan":
		return core.Sprintf("(HPlan %d)", op.ID)
	case "await":
		return core.Sprintf("(HAwait %d)", op.ID)
	case "open":
		return core.Sprintf("(HOpen %d)", op.ID)
	case "tick":
		return core.Sprintf("(HTick %s)", core.Z(op.TickMs))
	case "delete":
		return core.Sprintf("(HDelete %d)", op.ID)
	}
	return "(HTick (0)%Z)"
}

// ---------------------------------------------------------------------------------------------- generators

type genID struct {
	exists    bool
	startable bool // by the generator's own reading of the property (only used to place await / delete)
	started   bool
	gateOpen  bool
	finished  bool
	subAt     int64 // model ms
	zeroSub   bool
}

func preKinds(maxMs int64) []PreSpec {
	far := maxMs
	if far < 0 {
		far = -far
	}
	return []PreSpec{
		{What: "fresh", OffsetMs: -1000},
		{What: "fresh-older", OffsetMs: -far / 2},
		{What: "fresh-near-limit", OffsetMs: -maxMs + 120_000},
		{What: "stale-just", OffsetMs: -maxMs - 120_000},
		{What: "stale-far", OffsetMs: -maxMs - 86_400_000},
		{What: "future", OffsetMs: 5_400_000},
		{What: "zero-submit", ZeroSub: true},
		{What: "running", Status: 1, OffsetMs: -1000},
		{What: "completed", Status: 2, OffsetMs: -1000},
		{What: "failed", Status: 3, OffsetMs: -1000},
		{What: "stopped", Status: 4, OffsetMs: -1000},
		{What: "attempts", Invalid: "attempts", OffsetMs: -1000},
		{What: "nested", Invalid: "nested", OffsetMs: -1000},
		{What: "nestedstart", Invalid: "nestedstart", OffsetMs: -1000},
		{What: "checkkind", Invalid: "checkkind", OffsetMs: -1000},
		{What: "v4id", Invalid: "v4id", OffsetMs: -1000},
	}
}

func specStartable(ps *PreSpec, maxMs, now int64) bool {
	return ps.Status == 0 && !ps.ZeroSub && ps.Invalid == "" && maxMs != 0 && now <= modelNow+ps.OffsetMs+maxMs
}

func genHist(root *core.Rand, i int, maxLen int, tickCase bool) *Spec {
	r := root.Fork(uint64(i))
	s := &Spec{Kind: "hist", Index: i, Seed: core.Seed(), MaxMs: defaultMax, GraceMs: 60, ShortMs: 200, StatusMs: 2, IdleMs: 3000, Family: "hist"}
	switch {
	case tickCase:
		s.SetMax, s.MaxMs, s.Family = true, 6000, "hist-tick"
	default:
		switch r.Weighted([]int{60, 20, 7, 7, 6}) {
		case 1:
			s.SetMax, s.MaxMs = true, 600_000
		case 2:
			s.SetMax, s.MaxMs = true, 0
		case 3:
			s.SetMax, s.MaxMs = true, -3_600_000
		case 4:
			s.SetMax, s.MaxMs = true, 7_200_000
		}
	}
	now := modelNow
	var ids []*genID
	if !tickCase {
		kinds := preKinds(s.MaxMs)
		for n := r.Weighted([]int{35, 35, 20, 10}); n > 0; n-- {
			ps := kinds[r.Intn(len(kinds))]
			if r.Chance(0.35) {
				ps = kinds[r.Intn(7)] // the submit-age family
			}
			ps.GateOpen = r.Chance(0.4)
			s.Pre = append(s.Pre, ps)
			ids = append(ids, &genID{exists: true, startable: specStartable(&ps, s.MaxMs, now), gateOpen: ps.GateOpen,
				subAt: modelNow + ps.OffsetMs, zeroSub: ps.ZeroSub})
		}
	}
	unknownN := 0
	n := r.Range(3, maxLen)
	var lastID = -1
	pickID := func() (int, string) {
		var live, dead []int
		for k, g := range ids {
			if g.exists {
				live = append(live, k)
			} else {
				dead = append(dead, k)
			}
		}
		switch c := r.Weighted([]int{64, 10, 18, 8}); {
		case c == 1:
			unknownN++
			return idUnknown + unknownN%5, "unknown"
		case c == 2 && len(dead) > 0:
			return dead[r.Intn(len(dead))], "deleted"
		case c == 3:
			return idNil, "nil"
		}
		if len(live) == 0 {
			unknownN++
			return idUnknown + unknownN%5, "unknown"
		}
		if lastID >= 0 && lastID < len(ids) && ids[lastID].exists && r.Chance(0.55) {
			return lastID, "known"
		}
		return live[r.Intn(len(live))], "known"
	}
	ticks := 0
	for len(s.Ops) < n {
		w := []int{14, 32, 12, 9, 12, 8, 6, 7, 0} // submit start wait status plan await open delete tick
		if tickCase {
			w = []int{20, 40, 8, 6, 8, 0, 0, 0, 14}
			if ticks >= 1 {
				w[8] = 0
			}
		}
		if len(ids) == 0 {
			w[0] += 40
		}
		switch r.Weighted(w) {
		case 0:
			valid := r.Chance(0.85)
			op := OpSpec{Op: "submit", Valid: valid, GateOpen: tickCase || r.Chance(0.4), BadKind: r.Intn(5), ID: len(ids)}
			s.Ops = append(s.Ops, op)
			if valid {
				ids = append(ids, &genID{exists: true, startable: s.MaxMs > 0, gateOpen: op.GateOpen, subAt: now})
				lastID = len(ids) - 1
			}
		case 1:
			id, kind := pickID()
			opName := "start"
			if r.Chance(0.25) {
				opName = "startc"
			}
			s.Ops = append(s.Ops, OpSpec{Op: opName, ID: id, IDKind: kind})
			if kind == "known" {
				g := ids[id]
				if g.startable && !g.started && now <= g.subAt+s.MaxMs {
					g.started = true
				}
				lastID = id
			}
		case 2:
			id, kind := pickID()
			s.Ops = append(s.Ops, OpSpec{Op: "wait", ID: id, IDKind: kind})
			if kind == "known" && ids[id].started && ids[id].gateOpen {
				ids[id].finished = true
			}
		case 3:
			id, kind := pickID()
			s.Ops = append(s.Ops, OpSpec{Op: "status", ID: id, IDKind: kind, Interval: []string{"", "", "", "zero", "neg1", "negbig"}[r.Intn(6)]})
		case 4:
			id, kind := pickID()
			s.Ops = append(s.Ops, OpSpec{Op: "plan", ID: id, IDKind: kind})
		case 5:
			var c []int
			for k, g := range ids {
				if g.exists && g.started && !g.finished {
					c = append(c, k)
				}
			}
			if len(c) > 0 {
				id := c[r.Intn(len(c))]
				s.Ops = append(s.Ops, OpSpec{Op: "await", ID: id, IDKind: "known"})
				lastID = id
			}
		case 6:
			var c []int
			for k, g := range ids {
				if g.exists && !g.gateOpen {
					c = append(c, k)
				}
			}
			if len(c) > 0 {
				id := c[r.Intn(len(c))]
				ids[id].gateOpen = true
				s.Ops = append(s.Ops, OpSpec{Op: "open", ID: id, IDKind: "known"})
			}
		case 7:
			var c []int
			for k, g := range ids {
				if g.exists && (!g.started || g.finished) {
					c = append(c, k)
				}
			}
			if len(c) > 0 {
				id := c[r.Intn(len(c))]
				ids[id].exists = false
				s.Ops = append(s.Ops, OpSpec{Op: "delete", ID: id, IDKind: "known"})
			}
		case 8:
			ticks++
			s.Ops = append(s.Ops, OpSpec{Op: "tick", TickMs: s.MaxMs + 400})
			now += s.MaxMs + 400
		}
	}
	// bring everything to rest: open every gate, wait for every plan, read every plan
	for k, g := range ids {
		if !g.exists {
			continue
		}
		if !g.gateOpen {
			s.Ops = append(s.Ops, OpSpec{Op: "open", ID: k, IDKind: "known", Quiesce: true})
		}
		s.Ops = append(s.Ops, OpSpec{Op: "wait", ID: k, IDKind: "known", Quiesce: true})
		s.Ops = append(s.Ops, OpSpec{Op: "plan", ID: k, IDKind: "known", Quiesce: true})
	}
	return s
}

func genBurst(root *core.Rand, i int) *Spec {
	r := root.Fork(uint64(i) + 1_000_000)
	s := &Spec{Kind: "burst", Index: i, Seed: core.Seed(), MaxMs: defaultMax, GraceMs: 80, ShortMs: 200, StatusMs: 2, IdleMs: 3000, Family: "burst"}
	s.StatusMs = []int{2, 0, -1}[i%3] // the concurrent Status callers: positive, zero, negative interval
	b := &BurstSpec{Starts: r.Range(2, 16), GateOpen: r.Chance(0.5)}
	kinds := preKinds(s.MaxMs)
	switch c := r.Weighted([]int{45, 15, 25, 8, 7}); c {
	case 0:
		ps := kinds[r.Intn(3)]
		b.Target = &ps
	case 1:
		ps := kinds[0]
		b.Target, b.ViaAPI = &ps, true
	case 2:
		ps := kinds[3+r.Intn(len(kinds)-3)]
		b.Target = &ps
	case 3:
	case 4:
		b.NilID = true
	}
	for n := r.Weighted([]int{40, 20, 20, 10, 10}); n > 0; n-- {
		b.Others = append(b.Others, []string{"wait", "plan", "status"}[r.Intn(3)])
	}
	s.Burst = b
	return s
}

// genStale: the held-read family (see BurstSpec.HeldRead).
func genStale(root *core.Rand, i int) *Spec {
	r := root.Fork(uint64(i) + 2_000_000)
	s := &Spec{Kind: "burst", Index: i, Seed: core.Seed(), MaxMs: defaultMax, GraceMs: 80, ShortMs: 200, StatusMs: 2, IdleMs: 3000, Family: "stale"}
	b := &BurstSpec{Starts: 1 + r.Range(1, 3), GateOpen: true, HeldRead: true, HoldMs: 300}
	switch i % 3 {
	case 1:
		b.HeldRead, b.FailingHolder, b.Starts = false, true, 4
		s.Family = "holder"
	case 2:
		b.HeldRead, b.CtxCancel, b.Starts = false, true, r.Range(1, 3)
		s.Family = "ctxcancel"
	}
	kinds := preKinds(s.MaxMs)
	ps := kinds[r.Intn(3)]
	b.Target = &ps
	b.ViaAPI = r.Chance(0.6)
	s.Burst = b
	return s
}

// ---------------------------------------------------------------------------------------------- cases

func histCase(s *Spec, o childOut) core.Case {
	var ops []string
	var obs []map[string]any
	sig := []string{}
	opHist := map[string]int{}
	kindHist := map[string]int{}
	ivHist := map[string]int{}
	startIDs := map[int]int{}
	calls := map[int]int{}
	note := ""
	add := func(op OpSpec, res string) {
		first := res
		if op.Op == "status" {
			first, _, _ = splitStatus(res)
		}
		ops = append(ops, core.Pair(opTerm(op, res), rterm(first)))
		obs = append(obs, map[string]any{"op": op.Op, "id": op.ID, "id_kind": op.IDKind, "result": res, "quiesce": op.Quiesce})
		sig = append(sig, op.Op+":"+op.IDKind+":"+res)
		if op.Op == "status" {
			iv := op.Interval
			if iv == "" {
				iv = "positive"
			}
			ivHist[iv+"/"+op.IDKind]++
		}
		if !op.Quiesce {
			opHist[op.Op]++
			if op.IDKind != "" {
				kindHist[op.Op+"/"+op.IDKind]++
			}
		}
		if op.Op == "start" || op.Op == "startc" {
			startIDs[op.ID]++
		}
		switch op.Op {
		case "start", "startc", "wait", "status", "plan":
			calls[op.ID]++
		}
	}
	for i, op := range s.Ops {
		res := o.results[i]
		if res == "" {
			if o.died == i {
				switch o.abnorm {
				case "hang":
					add(op, "canceled")
					note = "hang"
				default:
					add(op, "panic")
					note = o.abnorm
				}
			}
			break
		}
		add(op, res)
	}
	if o.died == -2 {
		add(OpSpec{Op: "tick", TickMs: 0}, "panic") // the process ended between / after the calls
		note = o.abnorm
	}
	var ex []string
	nIDs := len(s.Pre)
	for i, op := range s.Ops {
		if op.Op == "submit" && o.results[i] == "ok" {
			nIDs++
		}
	}
	for k := 0; k < nIDs; k++ {
		n := 0
		if k < len(o.execs) {
			n = o.execs[k]
		}
		ex = append(ex, core.Nat(n))
	}
	var pre []string
	for k := range s.Pre {
		pre = append(pre, core.Pair(plTerm(&s.Pre[k], s.MaxMs), core.B(s.Pre[k].GateOpen)))
	}
	term := core.Sprintf("(CHist {| h_max := %s; h_now := %s; h_pre := %s; h_ops := %s; h_execs := %s |})",
		core.Z(s.MaxMs), core.Z(modelNow), core.List(pre), core.List(ops), core.List(ex))
	nontrivial := false
	for id, n := range startIDs {
		if id < idUnknown && calls[id] >= 2 && n >= 1 {
			nontrivial = true
		}
	}
	var preWhat []string
	for _, p := range s.Pre {
		preWhat = append(preWhat, p.What)
	}
	c := core.Case{
		ID: fmt.Sprintf("%s-%d", s.Family, s.Index), Kind: s.Family, Coq: term, Nontrivial: nontrivial,
		Hash: core.Hash(strings.Join(preWhat, ","), strconv.FormatInt(s.MaxMs, 10), strings.Join(sig, "|")),
		Dist: map[string]any{"ops": opHist, "op_idkind": kindHist, "status_interval": ivHist, "len": len(s.Ops), "pre": preWhat, "max_ms": s.MaxMs,
			"wall_ms": o.wall.Milliseconds(), "abnormal": o.abnorm},
		Input:    s,
		Observed: map[string]any{"calls": obs, "execs": o.execs, "abnormal": o.abnorm, "stderr_tail": o.stderr},
		Note:     note,
	}
	return c
}

func burstCase(s *Spec, o childOut) core.Case {
	b := s.Burst
	starts, others, final := []string{}, []string{}, "panic"
	execs := 0
	note := ""
	if o.burst != "" {
		f := strings.Split(o.burst, "|")
		if len(f) == 4 {
			if f[0] != "" {
				starts = strings.Split(f[0], ",")
			}
			if f[1] != "" {
				others = strings.Split(f[1], ",")
			}
			execs, _ = strconv.Atoi(f[2])
			final = f[3]
		}
	}
	if o.burst == "" && o.burstStarts != "" {
		starts = strings.Split(o.burstStarts, ",")
	}
	if o.abnorm != "" {
		note = o.abnorm
		final = "panic"
		if o.abnorm == "hang" {
			final = "canceled"
		}
	}
	tl := func(xs []string) string {
		var t []string
		for _, x := range xs {
			t = append(t, rterm(x))
		}
		return core.List(t)
	}
	plt := "None"
	what := "unknown-id"
	if b.NilID {
		what = "nil-id"
	}
	if b.Target != nil {
		plt = core.Some(plTerm(b.Target, s.MaxMs))
		what = b.Target.What
		if b.ViaAPI {
			what = "submitted"
		}
	}
	idp := "burst"
	if b.HeldRead {
		what = "held-read/" + what
		idp = "stale"
	}
	if b.FailingHolder {
		what = "failing-holder/" + what
		idp = "holder"
	}
	if b.CtxCancel {
		what = "ctx-cancelled-after-read/" + what
		idp = "ctxcancel"
	}
	term := core.Sprintf("(CBurst {| b_max := %s; b_now := %s; b_pl := %s; b_starts := %s; b_others := %s; b_execs := %d; b_final := %s |})",
		core.Z(s.MaxMs), core.Z(modelNow), plt, tl(starts), tl(others), execs, rterm(final))
	sorted := append([]string{}, starts...)
	sort.Strings(sorted)
	return core.Case{
		ID: fmt.Sprintf("%s-%d", idp, s.Index), Kind: "burst", Coq: term, Nontrivial: b.Target != nil && (b.Starts >= 2 || b.CtxCancel),
		Hash: core.Hash(what, strconv.Itoa(b.Starts), strings.Join(b.Others, ","), core.B(b.GateOpen), strings.Join(sorted, ","), final),
		Dist: map[string]any{"target": what, "starts": b.Starts, "others": b.Others, "gate_open": b.GateOpen, "wall_ms": o.wall.Milliseconds(),
			"abnormal": o.abnorm},
		Input:    s,
		Observed: map[string]any{"starts": starts, "others": others, "execs": execs, "final": final, "abnormal": o.abnorm, "stderr_tail": o.stderr},
		Note:     note,
	}
}

func main() {
	child := flag.Bool("child", false, "run one spec read from stdin")
	n := flag.Int("n", 300, "number of sequential histories")
	nb := flag.Int("bursts", 80, "number of concurrent bursts")
	ns := flag.Int("stale", 10, "number of held-read / failing-holder cases (Starts made while another Start sits in store.Read)")
	nt := flag.Int("ticks", 4, "number of histories in which time really passes (maxSubmit 6 s)")
	maxLen := flag.Int("maxlen", 12, "maximum number of calls of a history (before the quiescing calls)")
	par := flag.Int("par", 12, "children running at the same time")
	base := flag.Int("base", 0, "index of the first generated history / burst (to make several batches distinct)")
	outp := flag.String("out", "-", "output file (JSONL)")
	replay := flag.String("spec", "", "run the spec in this JSON file (a replay) instead of generating")
	reps := flag.Int("reps", 1, "with -spec: number of repetitions")
	flag.Parse()
	if *child {
		childMain()
		return
	}
	self, err := os.Executable()
	if err != nil {
		fmt.Fprintln(os.Stderr, err)
		os.Exit(2)
	}
	w, err := core.NewWriter(*outp)
	if err != nil {
		fmt.Fprintln(os.Stderr, err)
		os.Exit(2)
	}
	defer w.Close()
	root := core.NewRand(core.Seed())
	var specs []*Spec
	if *replay != "" {
		raw, err := os.ReadFile(*replay)
		if err != nil {
			fmt.Fprintln(os.Stderr, err)
			os.Exit(2)
		}
		var s Spec
		if err := json.Unmarshal(raw, &s); err != nil {
			fmt.Fprintln(os.Stderr, err)
			os.Exit(2)
		}
		for k := 0; k < *reps; k++ {
			c := s
			specs = append(specs, &c)
		}
	} else {
		for i := 0; i < *nt; i++ {
			specs = append(specs, genHist(root, 500_000+*base+i, *maxLen, true)) // first: they take longest
		}
		for i := 0; i < *ns; i++ {
			specs = append(specs, genStale(root, *base+i))
		}
		for i := 0; i < *n; i++ {
			specs = append(specs, genHist(root, *base+i, *maxLen, false))
		}
		for i := 0; i < *nb; i++ {
			specs = append(specs, genBurst(root, *base+i))
		}
	}
	cases := make([]core.Case, len(specs))
	sem := make(chan struct{}, *par)
	var wg sync.WaitGroup
	for k, s := range specs {
		wg.Add(1)
		sem <- struct{}{}
		go func(k int, s *Spec) {
			defer wg.Done()
			defer func() { <-sem }()
			o := runChild(self, s, 90*time.Second)
			if o.abnorm == "setup" {
				cases[k] = core.Case{ID: fmt.Sprintf("%s-%d", s.Family, s.Index), Kind: "setup-error", Coq: "", Note: "setup: " + o.stderr, Input: s}
				return
			}
			if s.Kind == "hist" {
				cases[k] = histCase(s, o)
			} else {
				cases[k] = burstCase(s, o)
			}
		}(k, s)
	}
	wg.Wait()
	for _, c := range cases {
		w.Put(c)
	}
}
