// c13: drives real vaults (sqlite in-memory, sqlite file-backed, cosmosdb over its fake client) through
// generated operation lists Create / Update* / Delete and, after every operation, Reads every plan id
// of the case (created, deleted, never created). One case per operation list, printed as a term of
// Coercion.Store.StoreCheck.case; the model is run on the same operations inside Coq.
package main

import (
	"context"
	"flag"
	"fmt"
	"os"
	"strings"
	"time"

	"verifharness/core"
	"verifharness/hplug"
	"verifharness/plangen"
	"verifharness/storelib"

	"github.com/element-of-surprise/coercion/plugins"
	"github.com/element-of-surprise/coercion/workflow"
	"github.com/google/uuid"
)

// lastWrite is what the harness last sent for an object through an Update* that returned nil.
type lastWrite struct {
	st   workflow.State
	atts *core.Rand // PRNG state the attempts were generated from (nil: no attempts)
	rs   workflow.FailureReason
}

type planSlot struct {
	last    map[uuid.UUID]*lastWrite
	mk      func() *workflow.Plan // a fresh, structurally equal copy on every call
	ref     *workflow.Plan        // ids and shape (never handed to a vault)
	live    bool
	created int
}

func shapeOpts(r *core.Rand, big bool) plangen.Opts {
	if big {
		return plangen.Opts{GroupP: []float64{0.1, 0.4, 0.8}[r.Intn(3)], MaxBlocks: 3, MaxSeqs: 3, MaxActions: 3, MaxCheckActions: 3, KeyP: 0.3, AltP: 0.4}
	}
	return plangen.Opts{GroupP: []float64{0.05, 0.2, 0.35}[r.Intn(3)], MaxBlocks: 2, MaxSeqs: 2, MaxActions: 2, MaxCheckActions: 2, KeyP: 0.3, AltP: 0.4}
}

func maker(seed *core.Rand, big bool, nilSlices bool) func() *workflow.Plan {
	return func() *workflow.Plan {
		r := seed.Fork(0) // same state on every call
		o := shapeOpts(r, big)
		p := plangen.New(r, o).Plan()
		storelib.Materialize(r, p, storelib.MatOpts{AnyP: 0.15, NilReqP: 0.04})
		if nilSlices {
			reshape(r, p)
		}
		if len(storelib.ObjectsOf(p).Actions) > 0 && len(p.Blocks) > 0 && r.Chance(0.08) {
			// one string that is not valid UTF-8 somewhere: the JSON codec refuses it (TEXT columns keep it)
			storelib.Taint(r, p)
		}
		if as := storelib.ObjectsOf(p).Actions; len(as) > 0 && r.Chance(0.06) {
			// a request the codec refuses: Create must fail and store nothing (C14 plants these systematically)
			as[r.Intn(len(as))].Req = storelib.AnyReq{Nonce: "n", X: storelib.Unencodable{C: make(chan int)}}
		}
		return p
	}
}

// reshape injects nil / empty child slices (sqlite stores them; cosmosdb rejects nil ones by design,
// so this is used for sqlite cases only).
func reshape(r *core.Rand, p *workflow.Plan) {
	if r.Chance(0.08) {
		p.Blocks = nil
	}
	for _, b := range p.Blocks {
		switch r.Intn(14) {
		case 0:
			b.Sequences = nil
		case 1:
			b.Sequences = []*workflow.Sequence{}
		}
		for _, s := range b.Sequences {
			switch r.Intn(14) {
			case 0:
				s.Actions = nil
			case 1:
				s.Actions = []*workflow.Action{}
			}
		}
		for _, c := range []*workflow.Checks{b.PreChecks, b.PostChecks} {
			if c != nil && r.Chance(0.1) {
				c.Actions = nil
			}
		}
	}
}

var ctx = context.Background()

// closeVault closes the vault, unless a call into it never returned.
func closeVault(b *storelib.Backend, rec *storelib.Rec) {
	if rec != nil && rec.Dead {
		b.Abandon()
		return
	}
	b.Close(ctx)
}

func main() {
	nOps := flag.Int("oplists", 48, "number of operation-list cases")
	nSingle := flag.Int("singles", 60, "number of create+read cases with big plans")
	nAlone := flag.Int("alone", 6, "number of cases that vary every updatable field alone")
	nReg := flag.Int("regchange", 8, "number of cases that read through a registry with a changed response type")
	nPaged := flag.Int("paged", 9, "number of cosmosdb create+read cases with paged query results")
	maxOps := flag.Int("max-ops", 30, "maximum operation list length")
	backends := flag.String("backends", "sqlite-mem,sqlite-file,cosmos-fake", "comma separated")
	out := flag.String("out", "-", "output file (JSONL)")
	flag.Parse()

	w, err := core.NewWriter(*out)
	if err != nil {
		fmt.Fprintln(os.Stderr, err)
		os.Exit(2)
	}
	defer w.Close()
	root := core.NewRand(core.Seed())
	bks := strings.Split(*backends, ",")

	// family paged: cosmosdb with query results in pages of 1, 2, 3 items; plans whose sequences and check
	// groups have 4-6 actions; Create then Read only, so the order Read returns is compared as it is
	// (before any patch the fake hands items out in emission order)
	for i := 0; i < *nPaged; i++ {
		r := root.Fork(uint64(900000 + i))
		bk := []string{"cosmos-page1", "cosmos-page2", "cosmos-page3"}[i%3]
		set := storelib.NewSet()
		b, err := storelib.Open(ctx, bk, set)
		if err != nil {
			fmt.Fprintln(os.Stderr, "open", bk, err)
			os.Exit(2)
		}
		rec := storelib.NewRec(ctx, b, set)
		rec.KeepOrder = true
		rPlan := r.Fork(1) // fixed before r advances: every mk() is the same plan
		mk := func() *workflow.Plan { return storelib.ManyActions(rPlan.Fork(0)) }
		ref := mk()
		rec.IDs = []uuid.UUID{ref.ID, plangen.V7(r)}
		rec.Create(mk(), mk(), "create")
		w.Put(core.Case{
			ID: fmt.Sprintf("paged-%d", i), Kind: "paged", Coq: rec.CaseTerm(), Nontrivial: true, Hash: core.Hash(rec.CaseTerm()),
			Dist: map[string]any{"backend": bk, "plans": 1, "ops": rec.Steps(), "reads": rec.Reads, "table": rec.TableSize(),
				"ophist": rec.OpHist, "objects": objects([]*planSlot{{ref: ref}}), "page_size": b.PageSize},
			Input: map[string]any{"seed": core.Seed(), "index": i, "backend": bk}, Observed: rec.Log, Note: rec.Note(),
		})
		closeVault(b, rec)
	}

	// family alone: every field an Update* may change is varied ALONE, and identical values are written again:
	// the same State with other attempts (appended, replaced, cleared), only Start / End / Status, only the
	// reason, a byte-identical rewrite - for every kind of object, on every back end.
	for i := 0; i < *nAlone; i++ {
		r := root.Fork(uint64(700000 + i))
		bk := []string{"sqlite-mem", "sqlite-file", "cosmos-fake"}[i%3]
		set := storelib.NewSet()
		b, err := storelib.Open(ctx, bk, set)
		if err != nil {
			fmt.Fprintln(os.Stderr, "open", bk, err)
			os.Exit(2)
		}
		rec := storelib.NewRec(ctx, b, set)
		seed := r.Fork(1)
		mk := func() *workflow.Plan {
			q := seed.Fork(0)
			p := plangen.New(q, plangen.Opts{GroupP: 0.3, MaxBlocks: 1, MaxSeqs: 2, MaxActions: 2, MaxCheckActions: 1, KeyP: 0.2, AltP: 0.3}).Plan()
			if p.PreChecks == nil {
				p.PreChecks = plangen.New(q, plangen.Opts{MaxCheckActions: 1}).Checks("p/pre")
			}
			storelib.Materialize(q, p, storelib.MatOpts{AnyP: 0.1})
			return p
		}
		ref := mk()
		o := storelib.ObjectsOf(ref)
		pid := ref.ID
		rec.IDs = []uuid.UUID{pid}
		rec.Create(mk(), mk(), "create")
		st := *storelib.RandState(r)
		st.Start, st.End = time.Unix(1700000000, 5), time.Unix(1700000100, 6)
		cp := func(s workflow.State) *workflow.State { return &s }
		vary := func(upd func(*workflow.State)) {
			upd(cp(st)) // a first value
			upd(cp(st)) // the identical value again
			s2 := st
			s2.End = time.Unix(1700000200, 7)
			upd(cp(s2)) // only End
			s3 := s2
			s3.Start = time.Time{}
			upd(cp(s3)) // only Start
			s4 := s3
			s4.Status = []workflow.Status{workflow.Failed, workflow.Completed}[int(s3.Status)/300%2]
			upd(cp(s4)) // only Status
		}
		// action: same State, attempts appended / replaced / cleared / identical
		a := o.Actions[r.Intn(len(o.Actions))]
		att := func(k int) []*workflow.Attempt { return storelib.RandAttempts(r.Fork(uint64(40+k)).Fork(0), a.Plugin) }
		one := func(k int) []*workflow.Attempt {
			return []*workflow.Attempt{{Resp: storelib.RandResp(seed.Fork(uint64(60+k)), a.Plugin), Start: time.Unix(int64(1700000000+k), 1), End: time.Unix(int64(1700000001+k), 2)}}
		}
		ua := func(s workflow.State, mkAtts func() []*workflow.Attempt) {
			rec.UpdateAction(pid, a.ID, a.Plugin, cp(s), mkAtts(), mkAtts())
		}
		ua(st, func() []*workflow.Attempt { return nil })                                  // the state of Start's write, no attempt yet
		ua(st, func() []*workflow.Attempt { return one(1) })                               // exec's write: same State, first attempt
		ua(st, func() []*workflow.Attempt { return append(one(1), one(2)...) })            // appended
		ua(st, func() []*workflow.Attempt { return append(one(1), one(2)...) })            // identical
		ua(st, func() []*workflow.Attempt { return att(3) })                               // replaced
		ua(st, func() []*workflow.Attempt { return []*workflow.Attempt{} })                // cleared
		vary(func(s *workflow.State) { rec.UpdateAction(pid, a.ID, a.Plugin, s, one(4), one(4)) })
		vary(func(s *workflow.State) { rec.UpdateBlock(pid, o.Blocks[0].ID, s) })
		vary(func(s *workflow.State) { rec.UpdateSequence(pid, o.Seqs[len(o.Seqs)-1].ID, s) })
		vary(func(s *workflow.State) { rec.UpdateChecks(pid, o.Checks[0].ID, s) })
		// plan: only the reason, only the state, identical
		rec.UpdatePlan(pid, workflow.FRBlock, cp(st), ref.SubmitTime)
		rec.UpdatePlan(pid, workflow.FRStopped, cp(st), ref.SubmitTime)
		rec.UpdatePlan(pid, workflow.FRStopped, cp(st), ref.SubmitTime)
		vary(func(s *workflow.State) { rec.UpdatePlan(pid, workflow.FRStopped, s, ref.SubmitTime) })
		w.Put(core.Case{
			ID: fmt.Sprintf("alone-%d", i), Kind: "alone", Coq: rec.CaseTerm(), Nontrivial: true, Hash: core.Hash(rec.CaseTerm()),
			Dist: map[string]any{"backend": bk, "plans": 1, "ops": rec.Steps(), "reads": rec.Reads, "table": rec.TableSize(),
				"ophist": rec.OpHist, "objects": objects([]*planSlot{{ref: ref}})},
			Input: map[string]any{"seed": core.Seed(), "index": i, "backend": bk}, Observed: rec.Log, Note: rec.Note(),
		})
		closeVault(b, rec)
	}

	// family regchange: attempts with responses are written through one registry; then the store is read
	// through a registry in which the Action / Check plugins declare another response type (a restart with
	// a changed build; file-backed sqlite is really closed and reopened). Read of a plan that holds such an
	// attempt must be an ERROR - never a plan with the attempt missing; switched back, it reads as before.
	for i := 0; i < *nReg; i++ {
		r := root.Fork(uint64(800000 + i))
		bk := []string{"sqlite-file", "sqlite-mem", "cosmos-fake", "sqlite-file"}[i%4]
		set, change := storelib.NewSwitchSet()
		b, err := storelib.Open(ctx, bk, set)
		if err != nil {
			fmt.Fprintln(os.Stderr, "open", bk, err)
			os.Exit(2)
		}
		rec := storelib.NewRec(ctx, b, set)
		rWith, rOther := r.Fork(1), r.Fork(2)
		with := func() *workflow.Plan { // some Action/Check-plugin action carries an attempt with a typed response
			p := maker(rWith, false, false)()
			for _, a := range storelib.ObjectsOf(p).Actions {
				if a.Plugin == hplug.ActionName || a.Plugin == hplug.CheckName {
					a.Req = hplug.Req{Nonce: "n", Path: "regchange"}
					a.Attempts = append(a.Attempts, &workflow.Attempt{Resp: hplug.Resp{Path: "stored", Value: 42, Items: []string{"x"}},
						Start: time.Unix(1700000000, 1), End: time.Unix(1700000001, 2)})
					break
				}
			}
			return p
		}
		other := func() *workflow.Plan { // no attempt of the changed type: stays readable
			p := maker(rOther, false, false)()
			for _, a := range storelib.ObjectsOf(p).Actions {
				if a.Plugin == hplug.ActionName || a.Plugin == hplug.CheckName {
					a.Req = hplug.Req{Nonce: "n", Path: "regchange"}
					for _, at := range a.Attempts {
						at.Resp = nil
					}
				}
			}
			return p
		}
		has := false
		for _, a := range storelib.ObjectsOf(with()).Actions {
			has = has || a.Plugin == hplug.ActionName || a.Plugin == hplug.CheckName
		}
		rec.IDs = []uuid.UUID{with().ID, other().ID}
		rec.Create(with(), with(), "create")
		rec.Create(other(), other(), "create")
		change(true)
		if err := b.Reopen(ctx, set); err != nil {
			fmt.Fprintln(os.Stderr, "reopen", err)
			os.Exit(2)
		}
		rec.SetBadType(hplug.Resp{}, "registry-changed")
		change(false)
		if err := b.Reopen(ctx, set); err != nil {
			fmt.Fprintln(os.Stderr, "reopen", err)
			os.Exit(2)
		}
		rec.SetBadType(nil, "registry-restored")
		w.Put(core.Case{
			ID: fmt.Sprintf("regchange-%d", i), Kind: "regchange", Coq: rec.CaseTerm(), Nontrivial: has, Hash: core.Hash(rec.CaseTerm()),
			Dist: map[string]any{"backend": bk, "plans": 2, "ops": rec.Steps(), "reads": rec.Reads, "table": rec.TableSize(),
				"ophist": rec.OpHist, "objects": objects([]*planSlot{{ref: with()}, {ref: other()}}), "has_typed_attempt": has},
			Input: map[string]any{"seed": core.Seed(), "index": i, "backend": bk}, Observed: rec.Log, Note: rec.Note(),
		})
		closeVault(b, rec)
	}

	for i := 0; i < *nOps+*nSingle; i++ {
		r := root.Fork(uint64(i))
		bk := bks[i%len(bks)]
		if bk == "cosmos-fake" {
			// the real service pages query results: rotate the page size of the fake's query answers
			bk = []string{"cosmos-fake", "cosmos-page1", "cosmos-page2", "cosmos-page3"}[(i/len(bks))%4]
		}
		single := i >= *nOps
		set := storelib.NewSet()
		b, err := storelib.Open(ctx, bk, set)
		if err != nil {
			fmt.Fprintln(os.Stderr, "open", bk, err)
			os.Exit(2)
		}
		rec := storelib.NewRec(ctx, b, set)
		cosmos := b.Kind == 1

		nPlans := 1
		if !single {
			nPlans = r.Range(1, 4)
		}
		slots := make([]*planSlot, nPlans)
		for j := range slots {
			mk := maker(r.Fork(uint64(100+j)), single, !cosmos)
			slots[j] = &planSlot{mk: mk, ref: mk(), last: map[uuid.UUID]*lastWrite{}}
			rec.IDs = append(rec.IDs, slots[j].ref.ID)
		}
		rec.IDs = append(rec.IDs, plangen.V7(r)) // never created

		kind := "oplist"
		if single {
			kind = "single"
			s := slots[0]
			if cosmos {
				rec.Items(s.mk(), s.mk())
			}
			rec.Create(s.mk(), s.mk(), "create")
		} else {
			n := r.Range(4, *maxOps)
			for k := 0; k < n; k++ {
				s := slots[r.Intn(len(slots))]
				anyLive := false
				for _, x := range slots {
					anyLive = anyLive || x.live
				}
				c := r.Intn(100)
				switch {
				case c < 14 || !anyLive && c < 60:
					// create: a new plan, a duplicate of a live one, or a re-create after delete
					err := rec.Create(s.mk(), s.mk(), "create")
					if err == nil {
						s.live = true
						s.created++
					}
				case c < 22:
					id := s.ref.ID
					if r.Chance(0.1) {
						id = rec.IDs[len(rec.IDs)-1]
					}
					if rec.Delete(id) == nil && id == s.ref.ID {
						s.live = false
					}
				default:
					update(r, rec, s, cosmos)
				}
			}
		}

		nt := false
		for k, v := range rec.OpHist {
			if strings.HasPrefix(k, "update") && v > 0 {
				nt = true
			}
		}
		if single {
			nt = len(storelib.ObjectsOf(slots[0].ref).Actions) > 2
		}
		c := core.Case{
			ID:         fmt.Sprintf("%s-%d", kind, i),
			Kind:       kind,
			Coq:        rec.CaseTerm(),
			Nontrivial: nt,
			Hash:       core.Hash(rec.CaseTerm()),
			Dist: map[string]any{"backend": bk, "plans": nPlans, "ops": rec.Steps(), "reads": rec.Reads, "table": rec.TableSize(),
				"ophist": rec.OpHist, "objects": objects(slots)},
			Input:    map[string]any{"seed": core.Seed(), "index": i, "backend": bk},
			Observed: rec.Log,
			Note:     rec.Note(),
		}
		w.Put(c)
		closeVault(b, rec)
	}
}

func objects(slots []*planSlot) int {
	n := 0
	for _, s := range slots {
		o := storelib.ObjectsOf(s.ref)
		n += 1 + len(o.Checks) + len(o.Blocks) + len(o.Seqs) + len(o.Actions)
	}
	return n
}

func update(r *core.Rand, rec *storelib.Rec, s *planSlot, cosmos bool) {
	o := storelib.ObjectsOf(s.ref)
	pid := s.ref.ID
	st := storelib.RandState(r)
	// vary ONE thing: with some probability the state is byte-identical to the last one written for the
	// object (so only the attempts / the reason change, or nothing at all), or differs in one field only
	same := func(id uuid.UUID) *workflow.State {
		lw := s.last[id]
		if lw == nil || !r.Chance(0.45) {
			return st
		}
		c := lw.st
		switch r.Intn(5) {
		case 0:
			c.Start = storelib.RandTime(r)
		case 1:
			c.End = storelib.RandTime(r)
		case 2:
			c.Status = st.Status
		}
		return &c
	}
	wrote := func(id uuid.UUID, x *workflow.State, err error) *lastWrite {
		if err != nil {
			return nil
		}
		lw := s.last[id]
		if lw == nil {
			lw = &lastWrite{}
			s.last[id] = lw
		}
		lw.st = *x
		return lw
	}
	switch r.Intn(6) {
	case 0:
		sub := s.ref.SubmitTime
		if !cosmos || r.Chance(0.3) {
			sub = storelib.RandTime(r) // sqlite must ignore it; cosmosdb patches it
		}
		x := same(pid)
		rs := storelib.RandReason(r)
		if lw := s.last[pid]; lw != nil && r.Chance(0.4) {
			rs = lw.rs
		}
		if lw := wrote(pid, x, rec.UpdatePlan(pid, rs, x, sub)); lw != nil {
			lw.rs = rs
		}
	case 1:
		if len(o.Blocks) > 0 {
			id := o.Blocks[r.Intn(len(o.Blocks))].ID
			x := same(id)
			wrote(id, x, rec.UpdateBlock(pid, id, x))
		} else if !cosmos {
			rec.UpdateBlock(pid, uuid.Nil, st)
		}
	case 2:
		if len(o.Checks) > 0 {
			id := o.Checks[r.Intn(len(o.Checks))].ID
			x := same(id)
			wrote(id, x, rec.UpdateChecks(pid, id, x))
		} else if len(o.Seqs) > 0 {
			id := o.Seqs[r.Intn(len(o.Seqs))].ID
			x := same(id)
			wrote(id, x, rec.UpdateSequence(pid, id, x))
		}
	case 3:
		if len(o.Seqs) > 0 {
			id := o.Seqs[r.Intn(len(o.Seqs))].ID
			x := same(id)
			wrote(id, x, rec.UpdateSequence(pid, id, x))
		}
	default:
		if len(o.Actions) == 0 {
			return
		}
		a := o.Actions[r.Intn(len(o.Actions))]
		x := same(a.ID)
		seed := r.Fork(7)
		if lw := s.last[a.ID]; lw != nil && lw.atts != nil && r.Chance(0.3) {
			seed = lw.atts // the very same attempts again
		}
		atts, ref := storelib.RandAttempts(seed.Fork(0), a.Plugin), storelib.RandAttempts(seed.Fork(0), a.Plugin)
		if lw := s.last[a.ID]; lw != nil && lw.atts != nil && r.Chance(0.3) {
			// the attempts written last, plus one more (what the engine does after every execution)
			atts = append(storelib.RandAttempts(lw.atts.Fork(0), a.Plugin), atts...)
			ref = append(storelib.RandAttempts(lw.atts.Fork(0), a.Plugin), ref...)
			seed = nil
		}
		if r.Chance(0.04) && len(atts) > 0 {
			// an error message that is not valid UTF-8: the codec refuses the attempt
			k := r.Intn(len(atts))
			bad := "boom " + storelib.InvalidUTF8[r.Intn(len(storelib.InvalidUTF8))]
			atts[k].Err = &plugins.Error{Code: 3, Message: "outer", Wrapped: &plugins.Error{Code: 4, Message: bad}}
			ref[k].Err = &plugins.Error{Code: 3, Message: "outer", Wrapped: &plugins.Error{Code: 4, Message: bad}}
		}
		if r.Chance(0.06) && len(atts) > 0 {
			// a response the codec refuses: the update must fail and change nothing
			k := r.Intn(len(atts))
			atts[k].Resp = storelib.Unencodable{C: make(chan int)}
			ref[k].Resp = storelib.Unencodable{}
		}
		if lw := wrote(a.ID, x, rec.UpdateAction(pid, a.ID, a.Plugin, x, atts, ref)); lw != nil {
			lw.atts = seed
		}
	}
}
