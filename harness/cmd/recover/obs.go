package main

// The observation side of the recovery harness: plan construction from a shape, the scripted plugins
// (outcome = function of the action alone), the ONE-lock event log, the logging + snapshotting vault wrapper, and
// the printers to Coq terms.
//
// The event vocabulary and the term syntax are those of harness/engine (Coercion.Engine.Event); build, the log,
// LogVault and the image projection of that package are unexported or hard-wired to its own run registry, so the
// parts needed here are re-stated (adapted: per-run object table, snapshots, outcome tables) - see the final
// report of C09/C10.

import (
	"context"
	"fmt"
	"sort"
	"strings"
	"sync"
	"time"

	"verifharness/core"
	"verifharness/engine"
	"verifharness/hplug"
	"verifharness/plangen"

	"github.com/element-of-surprise/coercion/plugins"
	"github.com/element-of-surprise/coercion/workflow"
	"github.com/element-of-surprise/coercion/workflow/storage"
	"github.com/google/uuid"
)

// ---- specs --------------------------------------------------------------------------------------------------

// Spec is a complete case input: deterministic function of (seed, tier, index).
type Spec struct {
	Index       int            `json:"index"`
	Kind        string         `json:"kind"` // "determined": outcomes are a function of the action alone; "contk": a continuous check fails at its k-th invocation
	Shape       engine.Shape   `json:"shape"`
	Out         map[string]int `json:"-"`                     // action path -> engine.Outcome of EVERY invocation
	OutText     map[string]string `json:"outcomes"`           // the non-ok ones, human readable
	ContFailAt  map[string]int `json:"cont_fail_at,omitempty"` // action path -> k: the k-th invocation IN A PROCESS is a permanent error
	SleepUs     map[string]int `json:"-"`
	ContDelayUs [2]int         `json:"cont_delay_us"`
	Determined  bool           `json:"determined"`
	ShortMs     map[string]int `json:"short_timeouts_ms,omitempty"` // actions scripted to overrun get a short timeout
}

var outcomeShort = [...]string{"ok", "err", "perm", "wrongtype", "overrun"}

// ---- the event log --------------------------------------------------------------------------------------------

var (
	logMu sync.Mutex
	runs  = map[string]*PlanRun{} // by nonce
)

type ObjRef struct{ Term, Human string }

type Cell struct {
	St          int
	N           int
	LastOK      bool
	SZ, EZ, Ord bool
}

type Image struct {
	Cells  []Cell
	Reason int
}

type Event struct {
	Kind   byte // 'S' start, 'E' end, 'W' write, 'X' release
	Path   string
	O      engine.Outcome
	Obj    int // index into refs ('W')
	C      Cell
	Reason int
	Img    *Image
	AtUs   int64
}

type actState struct {
	path    string
	inv     sync.Mutex // held from before Start is logged until End is logged: invocations of one action do not overlap in the log
	calls   int        // invocations in this process (guarded by logMu)
	flying  int
	overrun bool
}

// PlanRun is one observed run (uninterrupted, or one recovery) of one plan instance on one store.
type PlanRun struct {
	Spec   *Spec
	Nonce  string
	ID     uuid.UUID
	refs   []ObjRef
	ids    map[uuid.UUID]int
	order  []uuid.UUID
	acts   map[string]*actState
	t0     time.Time
	events []Event
	closed bool
	after  int // events after the release
}

func (r *PlanRun) logLocked(e Event) {
	if r.closed {
		r.after++
		return
	}
	e.AtUs = time.Since(r.t0).Microseconds()
	r.events = append(r.events, e)
}

func scopeTerm(scope int) string {
	if scope < 0 {
		return "SPlan"
	}
	return core.App("SBlock", core.Nat(scope))
}

var grpShort = [...]string{"bypass", "pre", "cont", "post", "deferred"}

func objPlan() ObjRef { return ObjRef{"OPlan", "plan"} }
func objChecks(scope, g int) ObjRef {
	h := "plan." + grpShort[g]
	if scope >= 0 {
		h = fmt.Sprintf("block%d.%s", scope, grpShort[g])
	}
	return ObjRef{core.App("OChecks", scopeTerm(scope), engine.GrpName[g]), h}
}
func objBlock(b int) ObjRef { return ObjRef{core.App("OBlock", core.Nat(b)), fmt.Sprintf("block%d", b)} }
func objSeq(b, s int) ObjRef {
	return ObjRef{core.App("OSeq", core.Nat(b), core.Nat(s)), fmt.Sprintf("block%d.seq%d", b, s)}
}
func objAct(path string) ObjRef {
	return ObjRef{core.App("OAct", engine.ArefTerm(path)), engine.PathHuman(path)}
}

// ---- building the plan ----------------------------------------------------------------------------------------

// build makes the workflow.Plan of a spec (as Submit would leave it: everything NotStarted) and the table of its
// object ids in walk order.
func build(sp *Spec, r *core.Rand, nonce string) (*workflow.Plan, *PlanRun) {
	run := &PlanRun{Spec: sp, Nonce: nonce, acts: map[string]*actState{}, ids: map[uuid.UUID]int{}}
	reg := func(id uuid.UUID, ref ObjRef) {
		run.ids[id] = len(run.refs)
		run.refs = append(run.refs, ref)
		run.order = append(run.order, id)
	}
	st := func() *workflow.State { return &workflow.State{Status: workflow.NotStarted} }
	action := func(path string, retries int, check bool) *workflow.Action {
		a := &workflow.Action{ID: plangen.V7(r), Name: "a " + path, Descr: "action " + path, Retries: retries,
			Timeout: 2 * time.Second, State: st(), Req: hplug.Req{Nonce: nonce, Path: path, Arg: int64(retries)}}
		if ms, ok := sp.ShortMs[path]; ok {
			a.Timeout = time.Duration(ms) * time.Millisecond
		}
		a.Plugin = hplug.ActionName
		if check {
			a.Plugin = hplug.CheckName
		}
		run.acts[path] = &actState{path: path}
		return a
	}
	checks := func(scope, g int, grp *engine.Group) *workflow.Checks {
		if grp == nil {
			return nil
		}
		k := &workflow.Checks{ID: plangen.V7(r), State: st()}
		if g == engine.GCont {
			d := sp.ContDelayUs[0]
			if scope >= 0 {
				d = sp.ContDelayUs[1]
			}
			k.Delay = time.Duration(d) * time.Microsecond
		}
		reg(k.ID, objChecks(scope, g))
		for i, rt := range grp.Retries {
			p := engine.ChkPath(scope, g, i)
			a := action(p, rt, true)
			k.Actions = append(k.Actions, a)
			reg(a.ID, objAct(p))
		}
		return k
	}
	p := &workflow.Plan{ID: plangen.V7(r), Name: "plan " + nonce, Descr: "recover " + sp.Kind, State: st(),
		SubmitTime: time.Now().UTC()}
	run.ID = p.ID
	reg(p.ID, objPlan())
	p.BypassChecks = checks(-1, engine.GBypass, sp.Shape.G[engine.GBypass])
	p.PreChecks = checks(-1, engine.GPre, sp.Shape.G[engine.GPre])
	p.ContChecks = checks(-1, engine.GCont, sp.Shape.G[engine.GCont])
	p.PostChecks = checks(-1, engine.GPost, sp.Shape.G[engine.GPost])
	p.DeferredChecks = checks(-1, engine.GDeferred, sp.Shape.G[engine.GDeferred])
	for bi, bs := range sp.Shape.Blocks {
		b := &workflow.Block{ID: plangen.V7(r), Name: fmt.Sprintf("block %d", bi), Descr: "block", State: st(),
			Concurrency: bs.Conc, ToleratedFailures: bs.Tol}
		reg(b.ID, objBlock(bi))
		b.BypassChecks = checks(bi, engine.GBypass, bs.G[engine.GBypass])
		b.PreChecks = checks(bi, engine.GPre, bs.G[engine.GPre])
		b.ContChecks = checks(bi, engine.GCont, bs.G[engine.GCont])
		b.PostChecks = checks(bi, engine.GPost, bs.G[engine.GPost])
		b.DeferredChecks = checks(bi, engine.GDeferred, bs.G[engine.GDeferred])
		for si, sq := range bs.Seqs {
			s := &workflow.Sequence{ID: plangen.V7(r), Name: fmt.Sprintf("seq %d.%d", bi, si), Descr: "sequence", State: st()}
			reg(s.ID, objSeq(bi, si))
			for ai, rt := range sq {
				pth := engine.SeqPath(bi, si, ai)
				a := action(pth, rt, false)
				s.Actions = append(s.Actions, a)
				reg(a.ID, objAct(pth))
			}
			b.Sequences = append(b.Sequences, s)
		}
		p.Blocks = append(p.Blocks, b)
	}
	return p, run
}

// observer makes the PlanRun that observes another run (a recovery) of the same plan under a new nonce.
func (r *PlanRun) observer(nonce string) *PlanRun {
	n := &PlanRun{Spec: r.Spec, Nonce: nonce, ID: r.ID, refs: r.refs, ids: r.ids, order: r.order, acts: map[string]*actState{}}
	for p := range r.acts {
		n.acts[p] = &actState{path: p}
	}
	return n
}

func register(r *PlanRun) {
	logMu.Lock()
	r.t0 = time.Now()
	runs[r.Nonce] = r
	logMu.Unlock()
}

// closeRun stops logging into r (later events are only counted) and returns its events.
func closeRun(r *PlanRun) (evs []Event) {
	logMu.Lock()
	r.closed = true
	evs = r.events
	logMu.Unlock()
	return evs
}

// settle reports what happened after closeRun: events logged late and plugin invocations still inside the plugin
// (those the engine timed out excepted).
func settle(r *PlanRun) (after int, inflight int) {
	logMu.Lock()
	defer logMu.Unlock()
	after = r.after
	for _, a := range r.acts {
		if a.flying > 0 && !a.overrun {
			inflight += a.flying
		}
	}
	delete(runs, r.Nonce)
	return
}

// setNonce rewrites the nonce carried by every request of p.
func setNonce(p *workflow.Plan, nonce string) {
	each := func(as []*workflow.Action) {
		for _, a := range as {
			if rq, ok := a.Req.(hplug.Req); ok {
				rq.Nonce = nonce
				a.Req = rq
			}
		}
	}
	chk := func(k *workflow.Checks) {
		if k != nil {
			each(k.Actions)
		}
	}
	for _, k := range []*workflow.Checks{p.BypassChecks, p.PreChecks, p.ContChecks, p.PostChecks, p.DeferredChecks} {
		chk(k)
	}
	for _, b := range p.Blocks {
		for _, k := range []*workflow.Checks{b.BypassChecks, b.PreChecks, b.ContChecks, b.PostChecks, b.DeferredChecks} {
			chk(k)
		}
		for _, s := range b.Sequences {
			each(s.Actions)
		}
	}
}

// nonceOf reads the nonce carried by the requests of a stored plan.
func nonceOf(p *workflow.Plan) string {
	found := ""
	each := func(as []*workflow.Action) {
		for _, a := range as {
			if rq, ok := a.Req.(hplug.Req); ok && found == "" {
				found = rq.Nonce
			}
		}
	}
	for _, k := range []*workflow.Checks{p.BypassChecks, p.PreChecks, p.ContChecks, p.PostChecks, p.DeferredChecks} {
		if k != nil {
			each(k.Actions)
		}
	}
	for _, b := range p.Blocks {
		for _, k := range []*workflow.Checks{b.BypassChecks, b.PreChecks, b.ContChecks, b.PostChecks, b.DeferredChecks} {
			if k != nil {
				each(k.Actions)
			}
		}
		for _, s := range b.Sequences {
			each(s.Actions)
		}
	}
	return found
}

// ---- plugins ----------------------------------------------------------------------------------------------------

// behave: the outcome of an invocation is a function of the action alone (Spec.Out), except for the actions of
// Spec.ContFailAt whose k-th invocation in this process is a permanent error. Events are attributed by the nonce
// and the path carried INSIDE the request.
func behave(ctx context.Context, p *hplug.Plugin, req any) (any, *plugins.Error) {
	rq, ok := req.(hplug.Req)
	if !ok {
		return p.OKResp(req), nil
	}
	logMu.Lock()
	run := runs[rq.Nonce]
	var a *actState
	if run != nil {
		a = run.acts[rq.Path]
	}
	if a == nil {
		logMu.Unlock()
		return p.OKResp(req), nil
	}
	logMu.Unlock()
	a.inv.Lock()
	defer a.inv.Unlock()
	logMu.Lock()
	a.calls++
	call := a.calls
	a.flying++
	a.overrun = false
	run.logLocked(Event{Kind: 'S', Path: a.path})
	logMu.Unlock()

	sp := run.Spec
	o := engine.Outcome(sp.Out[a.path])
	if k, ok := sp.ContFailAt[a.path]; ok {
		o = engine.OOk
		if call == k {
			o = engine.OPerm
		}
	}
	if us := sp.SleepUs[a.path]; us > 0 && o != engine.OOverrun {
		select {
		case <-time.After(time.Duration(us) * time.Microsecond):
		case <-ctx.Done():
		}
	}
	if o == engine.OOverrun {
		logMu.Lock()
		a.overrun = true
		logMu.Unlock()
		select {
		case <-ctx.Done():
		case <-time.After(3 * time.Second):
		}
	}
	logMu.Lock()
	if ctx.Err() != nil {
		o = engine.OOverrun // whatever was scripted, the engine has stopped listening to this invocation
	} else if o == engine.OOverrun {
		o = engine.OOk
	}
	a.flying--
	run.logLocked(Event{Kind: 'E', Path: a.path, O: o})
	logMu.Unlock()
	switch o {
	case engine.OOk:
		return p.OKResp(req), nil
	case engine.OErr:
		return nil, &plugins.Error{Code: 1, Message: "scripted transient error"}
	case engine.OPerm:
		return nil, &plugins.Error{Code: 2, Message: "scripted permanent error", Permanent: true}
	case engine.OWrongType:
		return hplug.AltResp{Echo: "wrong response type"}, nil
	}
	return nil, &plugins.Error{Code: 3, Message: "scripted overrun: returned after the deadline"}
}

// ---- the logging (and snapshotting) vault --------------------------------------------------------------------

// obsVault embeds a storage.Vault VALUE (the unexported private() method is promoted). Every Update* is logged AFTER
// it returned, under the one log lock; with snap set the whole plan is read back right after the write, under the
// vault's own lock, so that snapshot k is exactly the durable image after the first k writes.
type obsVault struct {
	storage.Vault
	run   *PlanRun
	more  []*PlanRun // further plans held by the same store (multi-plan stores): writes are attributed by object id
	snap  bool
	mu    sync.Mutex
	snaps []*workflow.Plan
	serr  error
}

func cellOf(st *workflow.State, attempts []*workflow.Attempt) Cell {
	c := Cell{SZ: true, EZ: true, Ord: true}
	if st != nil {
		c.St = int(st.Status)
		c.SZ = st.Start.IsZero()
		c.EZ = st.End.IsZero()
		c.Ord = c.SZ || c.EZ || !st.End.Before(st.Start)
	}
	c.N = len(attempts)
	if c.N > 0 {
		c.LastOK = attempts[c.N-1] != nil && attempts[c.N-1].Err == nil
	}
	return c
}

func (v *obsVault) wrote(id uuid.UUID, c Cell, reason int, err error) {
	if err != nil {
		return
	}
	logMu.Lock()
	if i, ok := v.run.ids[id]; ok {
		v.run.logLocked(Event{Kind: 'W', Obj: i, C: c, Reason: reason})
	} else {
		for _, r := range v.more {
			if i, ok := r.ids[id]; ok {
				r.logLocked(Event{Kind: 'W', Obj: i, C: c, Reason: reason})
				break
			}
		}
	}
	logMu.Unlock()
	if v.snap {
		p, rerr := v.Vault.Read(context.Background(), v.run.ID)
		if rerr != nil {
			v.serr = rerr
			p = nil
		}
		v.snaps = append(v.snaps, p)
	}
}

func (v *obsVault) UpdatePlan(ctx context.Context, p *workflow.Plan) error {
	v.mu.Lock()
	defer v.mu.Unlock()
	c, rs := cellOf(p.State, nil), int(p.Reason)
	err := v.Vault.UpdatePlan(ctx, p)
	v.wrote(p.ID, c, rs, err)
	return err
}
func (v *obsVault) UpdateChecks(ctx context.Context, k *workflow.Checks) error {
	v.mu.Lock()
	defer v.mu.Unlock()
	c := cellOf(k.State, nil)
	err := v.Vault.UpdateChecks(ctx, k)
	v.wrote(k.ID, c, 0, err)
	return err
}
func (v *obsVault) UpdateBlock(ctx context.Context, b *workflow.Block) error {
	v.mu.Lock()
	defer v.mu.Unlock()
	c := cellOf(b.State, nil)
	err := v.Vault.UpdateBlock(ctx, b)
	v.wrote(b.ID, c, 0, err)
	return err
}
func (v *obsVault) UpdateSequence(ctx context.Context, s *workflow.Sequence) error {
	v.mu.Lock()
	defer v.mu.Unlock()
	c := cellOf(s.State, nil)
	err := v.Vault.UpdateSequence(ctx, s)
	v.wrote(s.ID, c, 0, err)
	return err
}
func (v *obsVault) UpdateAction(ctx context.Context, a *workflow.Action) error {
	v.mu.Lock()
	defer v.mu.Unlock()
	c := cellOf(a.State, a.Attempts)
	err := v.Vault.UpdateAction(ctx, a)
	v.wrote(a.ID, c, 0, err)
	return err
}

// ---- images and terms ------------------------------------------------------------------------------------------

func (r *PlanRun) imageOf(p *workflow.Plan) *Image {
	byID := map[uuid.UUID]Cell{}
	if p != nil {
		byID[p.ID] = cellOf(p.State, nil)
		chk := func(k *workflow.Checks) {
			if k == nil {
				return
			}
			byID[k.ID] = cellOf(k.State, nil)
			for _, a := range k.Actions {
				byID[a.ID] = cellOf(a.State, a.Attempts)
			}
		}
		for _, k := range []*workflow.Checks{p.BypassChecks, p.PreChecks, p.ContChecks, p.PostChecks, p.DeferredChecks} {
			chk(k)
		}
		for _, b := range p.Blocks {
			byID[b.ID] = cellOf(b.State, nil)
			for _, k := range []*workflow.Checks{b.BypassChecks, b.PreChecks, b.ContChecks, b.PostChecks, b.DeferredChecks} {
				chk(k)
			}
			for _, s := range b.Sequences {
				byID[s.ID] = cellOf(s.State, nil)
				for _, a := range s.Actions {
					byID[a.ID] = cellOf(a.State, a.Attempts)
				}
			}
		}
	}
	im := &Image{Cells: make([]Cell, len(r.order))}
	for i, id := range r.order {
		c, ok := byID[id]
		if !ok {
			c = Cell{St: int(workflow.Stopped), N: 99} // object missing from the read: matches nothing
		}
		im.Cells[i] = c
	}
	if p != nil {
		im.Reason = int(p.Reason)
	}
	return im
}

func statusTerm(s int) string {
	switch workflow.Status(s) {
	case workflow.NotStarted:
		return "NotStarted"
	case workflow.Running:
		return "Running"
	case workflow.Completed:
		return "Completed"
	case workflow.Failed:
		return "Failed"
	}
	return "Stopped"
}

func reasonTerm(r int) string {
	switch workflow.FailureReason(r) {
	case workflow.FRUnknown:
		return "FRUnknown"
	case workflow.FRPreCheck:
		return "FRPreCheck"
	case workflow.FRBlock:
		return "FRBlock"
	case workflow.FRPostCheck:
		return "FRPostCheck"
	case workflow.FRContCheck:
		return "FRContCheck"
	case workflow.FRDeferredCheck:
		return "FRDeferredCheck"
	case workflow.FRStopped:
		return "FRStopped"
	}
	return "FRExceedRecovery"
}

func (r *PlanRun) imageTerm(im *Image) string {
	cs := make([]string, len(im.Cells))
	for i, c := range im.Cells {
		cs[i] = core.Pair(r.refs[i].Term, core.App("OC", statusTerm(c.St), core.Nat(c.N), core.B(c.LastOK),
			core.App("TF", core.B(c.SZ), core.B(c.EZ), core.B(c.Ord))))
	}
	return core.App("IM", core.List(cs), reasonTerm(im.Reason))
}

func (r *PlanRun) eventTerm(e Event) string {
	switch e.Kind {
	case 'S':
		return core.App("EvStart", engine.ArefTerm(e.Path))
	case 'E':
		return core.App("EvEnd", engine.ArefTerm(e.Path), engine.OutcomeName[e.O])
	case 'W':
		return core.App("EvWrite", r.refs[e.Obj].Term, statusTerm(e.C.St), core.Nat(e.C.N), core.B(e.C.LastOK), reasonTerm(e.Reason))
	case 'X':
		return core.App("EvRelease", r.imageTerm(e.Img))
	}
	return "EvBad"
}

func (r *PlanRun) imageHuman(im *Image) string {
	var xs []string
	for i, c := range im.Cells {
		if c.St == int(workflow.NotStarted) && c.N == 0 {
			continue
		}
		x := fmt.Sprintf("%s=%s", r.refs[i].Human, statusTerm(c.St))
		if c.N > 0 {
			x += fmt.Sprintf("/%d%s", c.N, map[bool]string{true: "ok", false: "err"}[c.LastOK])
		}
		xs = append(xs, x)
	}
	return strings.Join(xs, " ") + " reason=" + reasonTerm(im.Reason) + " (objects not listed: NotStarted)"
}

func (r *PlanRun) eventHuman(i int, e Event) string {
	h := fmt.Sprintf("#%d +%dus ", i, e.AtUs)
	switch e.Kind {
	case 'S':
		return h + "Start " + engine.PathHuman(e.Path)
	case 'E':
		return h + "End " + engine.PathHuman(e.Path) + " " + outcomeShort[e.O]
	case 'W':
		x := h + fmt.Sprintf("Write %s %s n=%d lastok=%v", r.refs[e.Obj].Human, statusTerm(e.C.St), e.C.N, e.C.LastOK)
		if r.refs[e.Obj].Term == "OPlan" {
			x += " reason=" + reasonTerm(e.Reason)
		}
		return x
	case 'X':
		return h + "Release " + r.imageHuman(e.Img)
	}
	return h + "?"
}

func (r *PlanRun) traceTerms(evs []Event) (terms, human []string) {
	terms = make([]string, len(evs))
	human = make([]string, len(evs))
	for i, e := range evs {
		terms[i] = r.eventTerm(e)
		human[i] = r.eventHuman(i, e)
	}
	return
}

func sortedKeys[V any](m map[string]V) []string {
	ks := make([]string, 0, len(m))
	for k := range m {
		ks = append(ks, k)
	}
	sort.Strings(ks)
	return ks
}
