// recover: crash-point recoveries of the REAL engine (properties C09 / C10, stage 2: the resumed run).
//
//	recover -plans 40 -tier quick -out cases.jsonl [-from i] [-only i] [-double 5] [-doublesmall 0] [-file 0] [-kills 0] [-workers w]
//
// For every generated plan (deterministic function of VERIF_SEED, tier and index):
//   - run it uninterrupted on a fresh in-memory sqlite vault behind a wrapper that logs every Update* and reads the
//     whole plan back after each one: read-back k is the durable image a crash after the k-th write leaves behind
//     (case kind "run": shape, trace, every read-back; Coq checks that the engine automaton accepts the trace and
//     that read-back k = crash_image of the first k writes);
//   - for EVERY k (no sampling for runs of <= 150 writes): put read-back k into a fresh vault (vault.Create), open a
//     new Workstream on it with coercion.New (the real recovery), Wait with a deadline (2 s => observation Hang,
//     confirmed in a fresh process), and log the recovering process's trace with the same event vocabulary (case
//     kind "rec": shape, crash image, trace, the uninterrupted run's final status, whether the plugin outcomes were
//     a function of the action alone);
//   - double crashes: for a sample of recoveries (percentage -double) every write prefix of THE RECOVERY is again
//     a crash point (level 2);
//   - thorough: a share of the recoveries (-file) on file-backed vaults; -kills real SIGKILLs of a child running a
//     plan on a file-backed vault at a random instant, then a restart on that file in a fresh process.
//
// One child process per plan; a hang ends the child (the process is tainted), the image is kept as a file-backed
// vault, re-run in a fresh process, and a new child continues after that prefix. Plugin events are attributed by the
// nonce carried inside the requests; every recovery gets its own nonce.
package main

import (
	"bufio"
	"context"
	"encoding/json"
	"flag"
	"fmt"
	"os"
	"os/exec"
	"path/filepath"
	"runtime"
	"sort"
	"strings"
	"sync"
	"syscall"
	"time"

	"verifharness/core"
	"verifharness/engine"
	"verifharness/hplug"

	coercion "github.com/element-of-surprise/coercion"
	"github.com/element-of-surprise/coercion/workflow"
	"github.com/element-of-surprise/coercion/workflow/storage/sqlite"
)

var (
	recoverDeadline = 2 * time.Second
	runDeadline     = 6 * time.Second
	settleDelay     = 1500 * time.Microsecond
	maxPrefixes     = 150
)

// ---- generation ---------------------------------------------------------------------------------------------

func randGroup(r *core.Rand, p float64, maxActs, maxRetries int) *engine.Group {
	if !r.Chance(p) {
		return nil
	}
	g := &engine.Group{}
	for i, n := 0, r.Range(1, maxActs); i < n; i++ {
		g.Retries = append(g.Retries, r.Intn(maxRetries+1))
	}
	return g
}

func genSpec(seed uint64, tier string, idx int) *Spec {
	r := core.NewRand(seed).Fork(uint64(idx)).Fork(0xc09)
	quick := tier != "thorough"
	maxBlocks, maxSeqs, maxActs := 2, 3, 2
	if !quick {
		maxBlocks, maxSeqs, maxActs = 3, 4, 3
	}
	fam := idx % 8
	sp := &Spec{Index: idx, Kind: "determined", Determined: true, Out: map[string]int{}, SleepUs: map[string]int{},
		OutText: map[string]string{}}
	gp := []float64{0.12, 0.3, 0.5}[r.Intn(3)]
	sh := engine.Shape{}
	for g := 0; g < 5; g++ {
		sh.G[g] = randGroup(r, gp, 2, 2)
	}
	nb := r.Range(1, maxBlocks)
	for b := 0; b < nb; b++ {
		bl := engine.Block{Conc: r.Range(1, 3), Tol: r.Range(-1, 2)}
		for g := 0; g < 5; g++ {
			bl.G[g] = randGroup(r, gp, 2, 2)
		}
		for s, n := 0, r.Range(1, maxSeqs); s < n; s++ {
			var q []int
			for a, m := 0, r.Range(1, maxActs); a < m; a++ {
				q = append(q, r.Intn(3))
			}
			bl.Seqs = append(bl.Seqs, q)
		}
		sh.Blocks = append(sh.Blocks, bl)
	}
	switch fam {
	case 6: // many groups in one scope: where the check-group guards of a recovered run live
		if r.Chance(0.5) {
			for g := 1; g < 5; g++ {
				if sh.G[g] == nil {
					sh.G[g] = &engine.Group{Retries: []int{r.Intn(2)}}
				}
			}
		} else {
			b := r.Intn(len(sh.Blocks))
			for g := 1; g < 5; g++ {
				if sh.Blocks[b].G[g] == nil {
					sh.Blocks[b].G[g] = &engine.Group{Retries: []int{r.Intn(2)}}
				}
			}
		}
	case 7: // tolerance: several sequences, failures likely
		b := r.Intn(len(sh.Blocks))
		for len(sh.Blocks[b].Seqs) < 3 {
			sh.Blocks[b].Seqs = append(sh.Blocks[b].Seqs, []int{r.Intn(2)})
		}
	}
	sp.Shape = sh
	pf := []float64{0.04, 0.12, 0.3}[r.Intn(3)]
	if fam == 7 {
		pf = 0.4
	}
	fails := []engine.Outcome{engine.OErr, engine.OPerm, engine.OWrongType, engine.OErr}
	acts := sh.Actions()
	for _, p := range sortedKeys(acts) {
		o := engine.OOk
		pp := pf
		if strings.HasPrefix(p, "c/") {
			var sc, g, i int
			fmt.Sscanf(p, "c/%d/%d/%d", &sc, &g, &i)
			pp = 0.08
			if g == engine.GBypass {
				pp = 0.8 // a bypass that succeeds skips the scope
			}
		}
		if r.Chance(pp) {
			o = fails[r.Intn(len(fails))]
		}
		sp.Out[p] = int(o)
		sp.SleepUs[p] = r.Intn(300)
		if o != engine.OOk {
			sp.OutText[engine.PathHuman(p)] = outcomeShort[o]
		}
	}
	sp.ContDelayUs = [2]int{r.Range(800, 3000), r.Range(800, 3000)}
	if fam == 7 {
		// tolerated failures used up exactly: block b tolerates t >= 1 failed sequences and exactly t of its (>= 3)
		// sequences fail; nothing else of the block fails, so the uninterrupted block ends Completed. A recovery that
		// counts a durably Failed sequence twice (or forgets one) changes the outcome.
		sp.Kind = "tol"
		b := r.Intn(len(sp.Shape.Blocks))
		t := r.Range(1, 2)
		sp.Shape.Blocks[b].Tol = t
		sp.Shape.Blocks[b].G[engine.GBypass] = nil
		sp.Shape.G[engine.GBypass] = nil
		for len(sp.Shape.Blocks[b].Seqs) < 3 {
			sp.Shape.Blocks[b].Seqs = append(sp.Shape.Blocks[b].Seqs, []int{r.Intn(2)})
		}
		nseq := len(sp.Shape.Blocks[b].Seqs)
		failing := map[int]bool{}
		for len(failing) < t {
			failing[r.Intn(nseq)] = true
		}
		for _, q := range sortedKeys(sp.Shape.Actions()) {
			if _, ok := sp.Out[q]; !ok {
				sp.Out[q] = int(engine.OOk)
			}
			var x, y, z int
			if strings.HasPrefix(q, "s/") {
				fmt.Sscanf(q, "s/%d/%d/%d", &x, &y, &z)
				if x == b {
					sp.Out[q] = int(engine.OOk)
					delete(sp.OutText, engine.PathHuman(q))
					if failing[y] && z == 0 {
						sp.Out[q] = int([]engine.Outcome{engine.OPerm, engine.OErr, engine.OWrongType}[r.Intn(3)])
						sp.OutText[engine.PathHuman(q)] = outcomeShort[sp.Out[q]]
					}
				}
			} else {
				fmt.Sscanf(q, "c/%d/%d/%d", &x, &y, &z)
				if x == b || x == -1 {
					sp.Out[q] = int(engine.OOk)
					delete(sp.OutText, engine.PathHuman(q))
				}
			}
		}
	}
	if fam == 2 {
		// a block-level post or deferred check that ALWAYS fails, in a block that is followed by another block: the
		// uninterrupted run fails the block and the plan there; a recovery must do the same wherever the crash falls
		// (in particular between the failed group's write and the block's write)
		sp.Kind = "blkchk"
		for len(sp.Shape.Blocks) < 2 {
			sp.Shape.Blocks = append(sp.Shape.Blocks, engine.Block{Conc: 1, Tol: 0, Seqs: [][]int{{0}}})
		}
		sp.Shape.G[engine.GBypass] = nil
		b := r.Intn(len(sp.Shape.Blocks) - 1)
		g := []int{engine.GDeferred, engine.GDeferred, engine.GPost}[r.Intn(3)]
		sp.Shape.Blocks[b].G[engine.GBypass] = nil
		sp.Shape.Blocks[b].G[g] = &engine.Group{Retries: []int{r.Intn(2)}}
		sp.Shape.Blocks[b].Tol = -1
		for _, q := range sortedKeys(sp.Shape.Actions()) {
			var sc, gg, i int
			isChk := false
			if strings.HasPrefix(q, "c/") {
				fmt.Sscanf(q, "c/%d/%d/%d", &sc, &gg, &i)
				isChk = true
			}
			if _, ok := sp.Out[q]; !ok {
				sp.Out[q] = int(engine.OOk)
				sp.SleepUs[q] = r.Intn(300)
			}
			if isChk && sc <= b && !(sc == b && gg == g) && gg != engine.GBypass {
				sp.Out[q] = int(engine.OOk) // nothing else fails up to that block
				delete(sp.OutText, engine.PathHuman(q))
			}
			if !isChk {
				var sb, sq, si int
				fmt.Sscanf(q, "s/%d/%d/%d", &sb, &sq, &si)
				if sb <= b {
					sp.Out[q] = int(engine.OOk)
					delete(sp.OutText, engine.PathHuman(q))
				}
			}
		}
		fq := engine.ChkPath(b, g, 0)
		sp.Out[fq] = int([]engine.Outcome{engine.OPerm, engine.OErr}[r.Intn(2)])
		sp.OutText[engine.PathHuman(fq)] = outcomeShort[sp.Out[fq]]
	}
	if fam == 3 {
		// overrun: one or two sequence actions never answer within their (15-25 ms) timeout: the ENGINE ends the attempt
		// and records its own timeout error (not permanent), retries while it may, then fails the action. The write of
		// such an attempt (action still Running, last attempt complete WITH an error) is a crash point like every other.
		sp.Kind = "overrun"
		sp.ShortMs = map[string]int{}
		var seqActs []string
		for _, q := range sortedKeys(acts) {
			if strings.HasPrefix(q, "s/") {
				seqActs = append(seqActs, q)
			}
		}
		for n := r.Range(1, 2); n > 0 && len(seqActs) > 0; n-- {
			q := seqActs[r.Intn(len(seqActs))]
			sp.Out[q] = int(engine.OOverrun)
			sp.OutText[engine.PathHuman(q)] = "overrun"
			sp.ShortMs[q] = r.Range(15, 25)
		}
	}
	if fam == 4 && idx%16 == 4 {
		// the recovery-only gap of BlockPreChecks: pre group Completed, the initial continuous run (always failing) still
		// in flight at the crash; the continuous group ticks late, the sequences are quick
		b := r.Intn(len(sp.Shape.Blocks))
		sp.Shape.Blocks[b].G[engine.GBypass] = nil
		sp.Shape.Blocks[b].G[engine.GPre] = &engine.Group{Retries: []int{0}}
		sp.Shape.Blocks[b].G[engine.GCont] = &engine.Group{Retries: []int{0}}
		pre, cont := engine.ChkPath(b, engine.GPre, 0), engine.ChkPath(b, engine.GCont, 0)
		sp.Out[pre], sp.Out[cont] = int(engine.OOk), int(engine.OPerm)
		delete(sp.OutText, engine.PathHuman(pre))
		sp.OutText[engine.PathHuman(cont)] = "perm"
		sp.SleepUs[pre], sp.SleepUs[cont] = 20, 1500
		sp.ContDelayUs[1] = 6000
		for _, q := range sortedKeys(sp.Shape.Actions()) {
			if _, ok := sp.Out[q]; !ok {
				sp.Out[q] = int(engine.OOk)
			}
			if strings.HasPrefix(q, fmt.Sprintf("s/%d/", b)) {
				sp.SleepUs[q] = 30
			}
		}
		for g := 0; g < 5; g++ { // nothing before this block may fail or bypass
			if sp.Shape.G[g] != nil && g == engine.GBypass {
				sp.Shape.G[g] = nil
			}
		}
		sp.Kind = "gap"
	}
	if fam == 5 { // a continuous check that fails at its k-th invocation while sequences are in flight (R3 images)
		sp.Kind, sp.Determined = "contk", false
		sp.ContFailAt = map[string]int{}
		b := r.Intn(len(sh.Blocks))
		scope := b
		if r.Chance(0.35) {
			scope = -1
		}
		grp := &engine.Group{Retries: []int{0}}
		if scope < 0 {
			sp.Shape.G[engine.GCont] = grp
			sp.ContDelayUs[0] = 1000
		} else {
			sp.Shape.Blocks[b].G[engine.GCont] = grp
			sp.ContDelayUs[1] = 1000
		}
		p := engine.ChkPath(scope, engine.GCont, 0)
		sp.Out[p] = int(engine.OOk)
		delete(sp.OutText, engine.PathHuman(p))
		sp.ContFailAt[p] = r.Range(2, 3)
		for _, q := range sortedKeys(sp.Shape.Actions()) {
			if _, ok := sp.Out[q]; !ok {
				sp.Out[q] = int(engine.OOk)
			}
			if strings.HasPrefix(q, "s/") {
				sp.SleepUs[q] = r.Range(900, 1800)
			}
			if strings.HasPrefix(q, "c/") && strings.Contains(q, fmt.Sprintf("/%d/", engine.GBypass)) {
				sp.Out[q] = int(engine.OPerm) // a bypass that succeeds would skip the scope
				sp.OutText[engine.PathHuman(q)] = "perm"
			}
		}
	}
	return sp
}

func (sp *Spec) dist() map[string]any {
	acts := sp.Shape.Actions()
	seqs, groups := 0, 0
	var conc, tol []int
	for _, g := range sp.Shape.G {
		if g != nil {
			groups++
		}
	}
	for _, b := range sp.Shape.Blocks {
		seqs += len(b.Seqs)
		conc = append(conc, b.Conc)
		tol = append(tol, b.Tol)
		for _, g := range b.G {
			if g != nil {
				groups++
			}
		}
	}
	return map[string]any{"kind": sp.Kind, "blocks": len(sp.Shape.Blocks), "sequences": seqs, "actions": len(acts),
		"groups": groups, "conc": conc, "tol": tol, "scripted_nonok_actions": len(sp.OutText)}
}

// ---- one uninterrupted run -----------------------------------------------------------------------------------

var plugOnce sync.Once
var plugSet *hplug.Set

func plugs() *hplug.Set {
	plugOnce.Do(func() {
		plugSet = hplug.NewSet()
		plugSet.Action.SetBehaviour(behave)
		plugSet.Check.SetBehaviour(behave)
	})
	return plugSet
}

type runObs struct {
	run   *PlanRun
	evs   []Event
	snaps []*workflow.Plan
	fin   *workflow.Plan
	hang  bool
	err   string
	after int
	leak  int
}

func runFresh(sp *Spec, seed uint64) runObs {
	ctx := context.Background()
	set := plugs()
	r := core.NewRand(seed).Fork(uint64(sp.Index)).Fork(0x1d)
	nonce := fmt.Sprintf("n%016x-%d-run", r.Uint64(), sp.Index)
	plan, run := build(sp, r, nonce)
	o := runObs{run: run}
	inner, err := sqlite.New(ctx, "", set.Reg, sqlite.WithInMemory())
	if err != nil {
		o.err = "sqlite.New: " + err.Error()
		return o
	}
	if err := inner.Create(ctx, plan); err != nil {
		o.err = "create: " + err.Error()
		return o
	}
	v := &obsVault{Vault: inner, run: run, snap: true}
	ws, err := coercion.New(ctx, set.Reg, v)
	if err != nil {
		o.err = "coercion.New: " + err.Error()
		return o
	}
	register(run)
	if err := ws.Start(ctx, run.ID); err != nil {
		o.err = "start: " + err.Error()
		return o
	}
	wctx, cancel := context.WithTimeout(ctx, runDeadline)
	fin, err := ws.Wait(wctx, run.ID)
	cancel()
	logMu.Lock()
	if err != nil || fin == nil {
		o.hang = true
	} else {
		o.fin = fin
		run.logLocked(Event{Kind: 'X', Img: run.imageOf(fin)})
	}
	logMu.Unlock()
	time.Sleep(settleDelay)
	o.evs = closeRun(run)
	v.mu.Lock()
	o.snaps = v.snaps
	if v.serr != nil {
		o.err = "read-back: " + v.serr.Error()
	}
	v.mu.Unlock()
	o.after, o.leak = settle(run)
	if !o.hang {
		inner.Close(ctx)
	}
	return o
}

// ---- one recovery ----------------------------------------------------------------------------------------------

type recObs struct {
	run      *PlanRun
	image    *Image // what the store returns for the crash image: what recovery reads
	evs      []Event
	snaps    []*workflow.Plan
	hang     bool
	err      string
	after    int
	leak     int
	dir      string // file-backed vault directory ("" = in memory)
	cancelUs int    // >= 0: the context given to coercion.New was cancelled this long after New returned; -1: live context
	resumed  bool
	finImage *Image
}

// recoverImage puts img into a fresh vault and opens a new Workstream on it: the real recovery.
func recoverImage(base *PlanRun, img *workflow.Plan, nonce string, snap bool, dir string, cancelUs int) recObs {
	ctx := context.Background()
	set := plugs()
	run := base.observer(nonce)
	o := recObs{run: run, dir: dir, cancelUs: cancelUs}
	setNonce(img, nonce)
	var inner *sqlite.Vault
	var err error
	if dir == "" {
		inner, err = sqlite.New(ctx, "", set.Reg, sqlite.WithInMemory())
	} else {
		inner, err = sqlite.New(ctx, dir, set.Reg)
	}
	if err != nil {
		o.err = "sqlite.New: " + err.Error()
		return o
	}
	if err := inner.Create(ctx, img); err != nil {
		o.err = "create: " + err.Error()
		return o
	}
	return recoverStore(inner, run, snap, o)
}

// recoverStore opens a Workstream on a vault that already holds the crash image.
func recoverStore(inner *sqlite.Vault, run *PlanRun, snap bool, o recObs) recObs {
	ctx := context.Background()
	set := plugs()
	rb, err := inner.Read(ctx, run.ID)
	if err != nil {
		o.err = "read: " + err.Error()
		return o
	}
	o.image = run.imageOf(rb)
	o.resumed = rb.State != nil && rb.State.Status == workflow.Running
	v := &obsVault{Vault: inner, run: run, snap: snap}
	register(run)
	// the context given to coercion.New is the caller's: it may be cancelled right after New returned (a start-up
	// routine with a deadline); execution must not depend on it. Wait / Plan keep a live context.
	newCtx, cancelNew := context.WithCancel(ctx)
	defer cancelNew()
	ws, err := coercion.New(newCtx, set.Reg, v)
	if err != nil {
		o.err = "coercion.New: " + err.Error()
		return o
	}
	if o.cancelUs >= 0 {
		d := time.Duration(o.cancelUs) * time.Microsecond
		go func() {
			time.Sleep(d)
			cancelNew()
		}()
	}
	wctx, cancel := context.WithTimeout(ctx, recoverDeadline)
	fin, err := ws.Wait(wctx, run.ID)
	cancel()
	logMu.Lock()
	if err != nil || fin == nil {
		o.hang = true
	} else {
		o.finImage = run.imageOf(fin)
		run.logLocked(Event{Kind: 'X', Img: o.finImage})
	}
	logMu.Unlock()
	time.Sleep(settleDelay)
	o.evs = closeRun(run)
	v.mu.Lock()
	o.snaps = v.snaps
	v.mu.Unlock()
	o.after, o.leak = settle(run)
	if !o.hang {
		inner.Close(ctx)
	}
	return o
}

// ---- cases -------------------------------------------------------------------------------------------------------

func specInput(sp *Spec, seed uint64, extra map[string]any) map[string]any {
	m := map[string]any{"seed": seed, "index": sp.Index, "spec": sp}
	for k, v := range extra {
		m[k] = v
	}
	return m
}

func countRunning(im *Image) (n int) {
	if im == nil {
		return 0
	}
	for _, c := range im.Cells {
		if c.St == int(workflow.Running) {
			n++
		}
	}
	return
}

func runCase(sp *Spec, seed uint64, o runObs, attempt int) core.Case {
	run := o.run
	terms, human := run.traceTerms(o.evs)
	imgs := make([]string, 0, len(o.snaps))
	for _, s := range o.snaps {
		imgs = append(imgs, run.imageTerm(run.imageOf(s)))
	}
	shape := sp.Shape.Coq()
	d := sp.dist()
	d["events"], d["writes"], d["hang"], d["attempt"] = len(o.evs), len(o.snaps), o.hang, attempt
	c := core.Case{ID: fmt.Sprintf("run-%d", sp.Index), Kind: "run",
		Coq:        core.App("CRun", shape, core.List(terms), core.List(imgs)),
		Nontrivial: !(sp.Shape.Trivial() && len(sp.OutText) == 0),
		Hash:       core.Hash("run", shape, strings.Join(terms, ";")),
		Dist:       d, Input: specInput(sp, seed, nil),
		Observed: map[string]any{"events": human, "hang": o.hang}}
	switch {
	case o.err != "":
		c.Note, c.Coq = "harness: "+o.err, ""
	case o.hang:
		c.Note = "hang: the uninterrupted run did not finish within " + runDeadline.String()
	case o.after > 0:
		c.Note = fmt.Sprintf("activity after release: %d events", o.after)
	case o.leak > 0:
		c.Note = fmt.Sprintf("leak: %d plugin invocations still in flight after release", o.leak)
	}
	return c
}

func recCase(sp *Spec, seed uint64, id string, level int, k, j int, verdict int, o recObs, writes int) core.Case {
	run := o.run
	terms, human := run.traceTerms(o.evs)
	shape := sp.Shape.Coq()
	d := sp.dist()
	starts := 0
	for _, e := range o.evs {
		if e.Kind == 'S' {
			starts++
		}
	}
	d["events"], d["hang"], d["level"], d["crash_write"], d["writes_of_run"] = len(o.evs), o.hang, level, k, writes
	d["resumed"], d["plugin_calls"], d["file_backed"] = o.resumed, starts, o.dir != ""
	d["new_ctx_cancelled_after_us"] = o.cancelUs
	d["running_left"] = countRunning(o.finImage)
	d["after_release"], d["leak"] = o.after, o.leak
	if o.image != nil {
		d["running_in_image"] = countRunning(o.image)
	}
	c := core.Case{ID: id, Kind: "rec", Nontrivial: o.resumed, Dist: d,
		Input:    specInput(sp, seed, map[string]any{"crash_after_write": k, "second_crash_after_write": j, "level": level}),
		Observed: map[string]any{"events": human, "hang": o.hang, "uninterrupted_verdict": statusTerm(verdict)}}
	if o.err != "" || o.image == nil {
		c.Note = "harness: " + o.err
		return c
	}
	img := run.imageTerm(o.image)
	c.Observed.(map[string]any)["crash_image"] = run.imageHuman(o.image)
	c.Coq = core.App("CRec", shape, img, core.List(terms), statusTerm(verdict), core.B(sp.Determined), core.Nat(level))
	c.Hash = core.Hash("rec", shape, img, strings.Join(terms, ";"))
	switch {
	case o.hang:
		c.Note = "hang: Wait did not return within " + recoverDeadline.String() + " after coercion.New on the crash image"
	case o.after > 0:
		c.Note = fmt.Sprintf("activity after release: %d events", o.after)
	case o.leak > 0:
		c.Note = fmt.Sprintf("leak: %d plugin invocations still in flight after release", o.leak)
	}
	return c
}

// ---- child: one plan, every crash point ------------------------------------------------------------------------

type lineWriter struct{ f *os.File }

func (w *lineWriter) Put(c core.Case) {
	b, _ := json.Marshal(c)
	w.f.Write(append(b, '\n'))
}

func pickPrefixes(n int, r *core.Rand) []int {
	ks := make([]int, 0, n)
	if n <= maxPrefixes {
		for k := 1; k <= n; k++ {
			ks = append(ks, k)
		}
		return ks
	}
	seen := map[int]bool{}
	for len(ks) < maxPrefixes {
		k := 1 + r.Intn(n)
		if !seen[k] {
			seen[k] = true
			ks = append(ks, k)
		}
	}
	sort.Ints(ks)
	return ks
}

// childPlan runs plan idx and every recovery from prefix `from` on. Exit code 4: a recovery hung (the image is kept
// in hangDir as a file-backed vault; the last line names it); the parent continues with a fresh child.
func childPlan(idx, from int, tier string, doublePct, doubleSmall, filePct int, out, tmp string, attempt int) {
	f0, err := os.OpenFile(out, os.O_CREATE|os.O_WRONLY|os.O_APPEND, 0644)
	if err != nil {
		fmt.Fprintln(os.Stderr, err)
		os.Exit(2)
	}
	w := &lineWriter{f0}
	seed := core.Seed()
	sp := genSpec(seed, tier, idx)
	o := runFresh(sp, seed)
	w.Put(runCase(sp, seed, o, attempt))
	if o.err != "" || o.hang || o.fin == nil {
		os.Exit(0)
	}
	verdict := int(o.fin.State.Status)
	sel := core.NewRand(seed).Fork(uint64(idx)).Fork(0xd0b1e)
	ks := pickPrefixes(len(o.snaps), sel.Fork(1))
	hung := func(id string, img *workflow.Plan, nonce string, c core.Case) {
		// keep the image for a confirmation run in a fresh process
		dir := filepath.Join(tmp, "hang-"+id)
		os.RemoveAll(dir)
		ctx := context.Background()
		if st, err := sqlite.New(ctx, dir, plugs().Reg); err == nil {
			setNonce(img, nonce+"-confirm")
			if err := st.Create(ctx, img); err == nil {
				c.Dist["hang_store"] = dir
				c.Dist["hang_nonce"] = nonce + "-confirm"
			}
			st.Close(ctx)
		}
		w.Put(c)
		os.Exit(4)
	}
	for _, k := range ks {
		if k < from {
			continue
		}
		img := o.snaps[k-1]
		if img == nil {
			continue
		}
		id := fmt.Sprintf("rec-%d-k%d", idx, k)
		rk := sel.Fork(uint64(1000 + k))
		double := rk.Intn(100) < doublePct || len(o.snaps) <= doubleSmall
		dir := ""
		if rk.Intn(100) < filePct {
			dir = filepath.Join(tmp, fmt.Sprintf("store-%d-%d", idx, k))
			os.RemoveAll(dir)
		}
		nonce := fmt.Sprintf("%s-k%d-a%d", o.run.Nonce, k, attempt)
		cancelUs := -1
		if rc := rk.Fork(3); rc.Chance(0.5) {
			cancelUs = rc.Intn(3001)
		}
		ro := recoverImage(o.run, img, nonce, double, dir, cancelUs)
		c := recCase(sp, seed, id, 1, k, 0, verdict, ro, len(o.snaps))
		if dir != "" && !ro.hang {
			os.RemoveAll(dir)
		}
		if ro.hang {
			hung(id, img, nonce, c)
		}
		w.Put(c)
		if !double || !ro.resumed {
			continue
		}
		js := pickPrefixes(len(ro.snaps), rk.Fork(2))
		for _, j := range js {
			img2 := ro.snaps[j-1]
			if img2 == nil {
				continue
			}
			id2 := fmt.Sprintf("rec-%d-k%d-j%d", idx, k, j)
			nonce2 := fmt.Sprintf("%s-j%d", nonce, j)
			cancel2 := -1
			if rc := rk.Fork(uint64(100 + j)); rc.Chance(0.5) {
				cancel2 = rc.Intn(3001)
			}
			r2 := recoverImage(o.run, img2, nonce2, false, "", cancel2)
			c2 := recCase(sp, seed, id2, 2, k, j, verdict, r2, len(ro.snaps))
			if r2.hang {
				hung(id2, img2, nonce2, c2)
			}
			w.Put(c2)
		}
	}
	os.Exit(0)
}

// ---- child: one store holding several plans -----------------------------------------------------------------

var newDeadline = 5 * time.Second

// multiSpecs: the plans of store i - 3..6 plans that are Running at a crash point of their own, 0..2 plans that are
// not (finished, or never started). Plan indices are disjoint from the single-plan ranges.
func multiSpecs(seed uint64, store int) (idx []int, running []bool, r *core.Rand) {
	r = core.NewRand(seed).Fork(uint64(store)).Fork(0x3a11)
	nrun, nother := r.Range(3, 6), r.Range(0, 2)
	for j := 0; j < nrun+nother; j++ {
		idx = append(idx, 700000+store*16+j)
		running = append(running, j < nrun)
	}
	return
}

// childMulti: the plans of store `store` are run uninterrupted one by one (each on its own vault), a crash image of
// each is put into ONE fresh vault, and one Workstream is opened on it: coercion.New must return (newDeadline) and
// every plan that was Running must be driven to its end (recoverDeadline each). One rec case per plan.
func childMulti(store int, tier, out string) {
	f0, err := os.OpenFile(out, os.O_CREATE|os.O_WRONLY|os.O_APPEND, 0644)
	if err != nil {
		fmt.Fprintln(os.Stderr, err)
		os.Exit(2)
	}
	w := &lineWriter{f0}
	seed := core.Seed()
	ctx := context.Background()
	set := plugs()
	idx, wantRunning, r := multiSpecs(seed, store)
	type member struct {
		sp      *Spec
		base    *PlanRun
		img     *workflow.Plan
		k       int
		writes  int
		verdict int
		run     *PlanRun
		kind    string
	}
	var ms []*member
	var comp []map[string]any
	for j, pi := range idx {
		sp := genSpec(seed, tier, pi)
		o := runFresh(sp, seed)
		if o.err != "" || o.hang || o.fin == nil || len(o.snaps) == 0 {
			w.Put(runCase(sp, seed, o, 0))
			continue
		}
		m := &member{sp: sp, base: o.run, writes: len(o.snaps), verdict: int(o.fin.State.Status)}
		if wantRunning[j] {
			// a write prefix at which the plan is durably Running
			var ks []int
			for k, s := range o.snaps {
				if s != nil && s.State != nil && s.State.Status == workflow.Running {
					ks = append(ks, k+1)
				}
			}
			if len(ks) == 0 {
				continue
			}
			m.k, m.kind = ks[r.Intn(len(ks))], "running"
			m.img = o.snaps[m.k-1]
		} else if r.Chance(0.5) {
			m.k, m.kind = len(o.snaps), "finished"
			m.img = o.snaps[len(o.snaps)-1]
		} else {
			rr := core.NewRand(seed).Fork(uint64(sp.Index)).Fork(0x1d)
			rr.Uint64()
			m.img, _ = build(sp, rr, "unused")
			m.k, m.kind = 0, "not-started"
		}
		ms = append(ms, m)
		comp = append(comp, map[string]any{"plan_index": pi, "crash_after_write": m.k, "of_writes": m.writes, "state": m.kind})
	}
	inner, err := sqlite.New(ctx, "", set.Reg, sqlite.WithInMemory())
	if err != nil {
		w.Put(core.Case{ID: fmt.Sprintf("store-%d", store), Kind: "rec", Note: "harness: sqlite.New: " + err.Error()})
		os.Exit(0)
	}
	v := &obsVault{Vault: inner}
	for j, m := range ms {
		nonce := fmt.Sprintf("%s-store%d-p%d", m.base.Nonce, store, j)
		m.run = m.base.observer(nonce)
		setNonce(m.img, nonce)
		if err := inner.Create(ctx, m.img); err != nil {
			w.Put(core.Case{ID: fmt.Sprintf("store-%d", store), Kind: "rec", Note: "harness: create: " + err.Error()})
			os.Exit(0)
		}
		if j == 0 {
			v.run = m.run
		} else {
			v.more = append(v.more, m.run)
		}
	}
	images := make([]*Image, len(ms))
	resumed := make([]bool, len(ms))
	for j, m := range ms {
		rb, err := inner.Read(ctx, m.run.ID)
		if err != nil {
			w.Put(core.Case{ID: fmt.Sprintf("store-%d", store), Kind: "rec", Note: "harness: read: " + err.Error()})
			os.Exit(0)
		}
		images[j] = m.run.imageOf(rb)
		resumed[j] = rb.State != nil && rb.State.Status == workflow.Running
		register(m.run)
	}
	type newRes struct {
		ws  *coercion.Workstream
		err error
	}
	ch := make(chan newRes, 1)
	go func() {
		ws, err := coercion.New(ctx, set.Reg, v)
		ch <- newRes{ws, err}
	}()
	var ws *coercion.Workstream
	select {
	case nr := <-ch:
		if nr.err != nil {
			w.Put(core.Case{ID: fmt.Sprintf("store-%d", store), Kind: "rec", Note: "harness: coercion.New: " + nr.err.Error()})
			os.Exit(0)
		}
		ws = nr.ws
	case <-time.After(newDeadline):
		nrun := 0
		for _, b := range resumed {
			if b {
				nrun++
			}
		}
		w.Put(core.Case{ID: fmt.Sprintf("store-%d", store), Kind: "store-hang", Nontrivial: true,
			Note: fmt.Sprintf("hang: coercion.New did not return within %s on a store holding %d plans (%d Running)", newDeadline, len(ms), nrun),
			Dist: map[string]any{"hang": true, "multi": true, "plans": len(ms), "running_plans": nrun},
			Input: map[string]any{"seed": seed, "store": store, "composition": comp}})
		os.Exit(4)
	}
	obs := make([]recObs, len(ms))
	var wg sync.WaitGroup
	for j, m := range ms {
		obs[j] = recObs{run: m.run, image: images[j], resumed: resumed[j], cancelUs: -1}
		wg.Add(1)
		go func(j int, m *member) {
			defer wg.Done()
			wctx, cancel := context.WithTimeout(ctx, recoverDeadline)
			fin, err := ws.Wait(wctx, m.run.ID)
			cancel()
			logMu.Lock()
			if err != nil || fin == nil {
				obs[j].hang = true
			} else {
				obs[j].finImage = m.run.imageOf(fin)
				m.run.logLocked(Event{Kind: 'X', Img: obs[j].finImage})
			}
			logMu.Unlock()
		}(j, m)
	}
	wg.Wait()
	time.Sleep(settleDelay)
	anyHang := false
	for j, m := range ms {
		obs[j].evs = closeRun(m.run)
		obs[j].after, obs[j].leak = settle(m.run)
		c := recCase(m.sp, seed, fmt.Sprintf("store-%d-p%d", store, j), 1, m.k, 0, m.verdict, obs[j], m.writes)
		c.Dist["multi"], c.Dist["plans_in_store"], c.Dist["store"] = true, len(ms), store
		if in, ok := c.Input.(map[string]any); ok {
			in["store"], in["composition"] = store, comp
		}
		w.Put(c)
		anyHang = anyHang || obs[j].hang
	}
	if !anyHang {
		inner.Close(ctx)
	}
	os.Exit(0)
}

// childRerun recovers the plan stored in a file-backed vault (a kept hang image, or the store of a killed child) in
// this fresh process and prints one rec case.
func statusOfTerm(s string) int {
	for _, st := range []workflow.Status{workflow.NotStarted, workflow.Running, workflow.Completed, workflow.Failed, workflow.Stopped} {
		if statusTerm(int(st)) == s {
			return int(st)
		}
	}
	return int(workflow.NotStarted)
}

func childRerun(idx int, tier, dir, nonce, id string, level, k int, out string, needVerdict bool, verdictStr string) {
	f0, err := os.OpenFile(out, os.O_CREATE|os.O_WRONLY|os.O_APPEND, 0644)
	if err != nil {
		fmt.Fprintln(os.Stderr, err)
		os.Exit(2)
	}
	w := &lineWriter{f0}
	seed := core.Seed()
	sp := genSpec(seed, tier, idx)
	ctx := context.Background()
	verdict := statusOfTerm(verdictStr)
	if needVerdict {
		o := runFresh(sp, seed)
		if o.fin == nil {
			w.Put(core.Case{ID: id, Kind: "rec", Note: "harness: the uninterrupted reference run did not finish: " + o.err, Dist: map[string]any{"hang": true}})
			os.Exit(0)
		}
		verdict = int(o.fin.State.Status)
	}
	// the id table: rebuild the plan from the spec (same ids: same PRNG path)
	r := core.NewRand(seed).Fork(uint64(sp.Index)).Fork(0x1d)
	r.Uint64()
	_, base := build(sp, r, "unused")
	inner, err := sqlite.New(ctx, dir, plugs().Reg)
	if err != nil {
		w.Put(core.Case{ID: id, Kind: "rec", Note: "harness: sqlite.New: " + err.Error()})
		os.Exit(0)
	}
	rb, err := inner.Read(ctx, base.ID)
	if err != nil {
		// killed before Create committed: nothing is stored, nothing to recover
		w.Put(core.Case{ID: id, Kind: "rec-empty", Note: "store holds no plan: " + err.Error(), Dist: map[string]any{"level": level}})
		os.Exit(0)
	}
	if nonce == "" {
		nonce = nonceOf(rb)
	}
	run := base.observer(nonce)
	ro := recoverStore(inner, run, false, recObs{run: run, dir: dir, cancelUs: -1})
	c := recCase(sp, seed, id, level, k, 0, verdict, ro, 0)
	c.Dist["fresh_process"] = true
	w.Put(c)
	os.Exit(0)
}

// childKillRun runs plan idx on a file-backed vault until it is killed (or finishes).
func childKillRun(idx int, tier, dir string) {
	seed := core.Seed()
	sp := genSpec(seed, tier, idx)
	for p := range sp.SleepUs { // slower plugins: the kill instants spread over the run
		sp.SleepUs[p] = 300 + sp.SleepUs[p]*6
	}
	ctx := context.Background()
	set := plugs()
	r := core.NewRand(seed).Fork(uint64(sp.Index)).Fork(0x1d)
	nonce := fmt.Sprintf("n%016x-%d-kill", r.Uint64(), sp.Index)
	plan, run := build(sp, r, nonce)
	inner, err := sqlite.New(ctx, dir, set.Reg)
	if err != nil {
		os.Exit(3)
	}
	if err := inner.Create(ctx, plan); err != nil {
		os.Exit(3)
	}
	ws, err := coercion.New(ctx, set.Reg, inner)
	if err != nil {
		os.Exit(3)
	}
	register(run)
	fmt.Println("started")
	os.Stdout.Sync()
	if err := ws.Start(ctx, run.ID); err != nil {
		os.Exit(3)
	}
	wctx, cancel := context.WithTimeout(ctx, runDeadline)
	ws.Wait(wctx, run.ID)
	cancel()
	fmt.Println("finished")
	os.Stdout.Sync()
	time.Sleep(5 * time.Second) // wait for the kill
}

// ---- parent ------------------------------------------------------------------------------------------------------

func readCases(path string) []core.Case {
	f, err := os.Open(path)
	if err != nil {
		return nil
	}
	defer f.Close()
	sc := bufio.NewScanner(f)
	sc.Buffer(make([]byte, 1<<20), 1<<30)
	var cs []core.Case
	for sc.Scan() {
		var c core.Case
		if json.Unmarshal(sc.Bytes(), &c) == nil {
			cs = append(cs, c)
		}
	}
	return cs
}

func runChild(args []string, timeout time.Duration) (code int, timedOut bool) {
	cmd := exec.Command(os.Args[0], args...)
	cmd.Env = os.Environ()
	cmd.Stderr = nil
	if err := cmd.Start(); err != nil {
		return -1, false
	}
	done := make(chan error, 1)
	go func() { done <- cmd.Wait() }()
	select {
	case err := <-done:
		if err == nil {
			return 0, false
		}
		if ee, ok := err.(*exec.ExitError); ok {
			return ee.ExitCode(), false
		}
		return -1, false
	case <-time.After(timeout):
		cmd.Process.Kill()
		<-done
		return -1, true
	}
}

func dget(c core.Case, k string) any {
	if c.Dist == nil {
		return nil
	}
	return c.Dist[k]
}

func isHang(c core.Case) bool { b, _ := dget(c, "hang").(bool); return b }

// onePlan drives the children of one plan and returns its cases in order.
func onePlan(idx int, tier string, doublePct, doubleSmall, filePct int, tmp string) []core.Case {
	var all []core.Case
	from := 1
	for attempt := 0; attempt < 40; attempt++ {
		out := filepath.Join(tmp, fmt.Sprintf("plan-%d-a%d.jsonl", idx, attempt))
		code, to := runChild([]string{"-child-plan", fmt.Sprint(idx), "-from", fmt.Sprint(from), "-tier", tier,
			"-double", fmt.Sprint(doublePct), "-doublesmall", fmt.Sprint(doubleSmall), "-file", fmt.Sprint(filePct), "-out", out, "-tmp", tmp, "-attempt", fmt.Sprint(attempt)},
			10*time.Minute)
		cs := readCases(out)
		os.Remove(out)
		if attempt > 0 && len(cs) > 0 && cs[0].Kind == "run" {
			cs[0].ID = fmt.Sprintf("%s-a%d", cs[0].ID, attempt)
		}
		if code == 0 && !to {
			all = append(all, cs...)
			return all
		}
		if len(cs) == 0 {
			all = append(all, core.Case{ID: fmt.Sprintf("run-%d-a%d", idx, attempt), Kind: "child-died",
				Note: fmt.Sprintf("the child process of plan %d died (exit %d, timed out %v) before reporting", idx, code, to),
				Dist: map[string]any{"hang": true}, Input: map[string]any{"seed": core.Seed(), "index": idx}})
			return all
		}
		last := cs[len(cs)-1]
		all = append(all, cs[:len(cs)-1]...)
		if code == 4 && isHang(last) {
			// confirm the hang in a fresh process on the kept image
			dir, _ := dget(last, "hang_store").(string)
			nonce, _ := dget(last, "hang_nonce").(string)
			confirmed := true
			if dir != "" {
				out2 := filepath.Join(tmp, fmt.Sprintf("confirm-%s.jsonl", last.ID))
				lvl := 1
				if f, ok := dget(last, "level").(float64); ok {
					lvl = int(f)
				}
				runChild([]string{"-child-rerun", dir, "-idx", fmt.Sprint(idx), "-tier", tier, "-nonce", nonce, "-id", last.ID,
					"-level", fmt.Sprint(lvl), "-out", out2, "-verdict-of", fmt.Sprint(verdictOf(last))}, time.Minute)
				cc := readCases(out2)
				os.Remove(out2)
				os.RemoveAll(dir)
				if len(cc) == 1 && cc[0].Coq != "" && !isHang(cc[0]) {
					confirmed = false
					cc[0].Dist["hang_not_confirmed"] = true
					cc[0].Input = last.Input
					all = append(all, cc[0])
				}
			}
			if confirmed {
				last.Dist["hang_confirmed_in_fresh_process"] = dir != ""
				all = append(all, last)
			}
		} else {
			all = append(all, last)
			all = append(all, core.Case{ID: fmt.Sprintf("child-%d-a%d", idx, attempt), Kind: "child-died",
				Note: fmt.Sprintf("the child process of plan %d died (exit %d, timed out %v) after %s", idx, code, to, last.ID),
				Dist: map[string]any{"hang": true}, Input: map[string]any{"seed": core.Seed(), "index": idx}})
		}
		// continue after the prefix the child stopped at
		var k int
		if m, ok := last.Input.(map[string]any); ok {
			if f, ok := m["crash_after_write"].(float64); ok {
				k = int(f)
			}
		}
		if k < from {
			k = from
		}
		from = k + 1
	}
	return all
}

// oneStore runs the child of one multi-plan store; a child that does not come back is a hang of the store.
func oneStore(store int, tier, tmp string) []core.Case {
	out := filepath.Join(tmp, fmt.Sprintf("store-%d.jsonl", store))
	code, to := runChild([]string{"-child-multi", fmt.Sprint(store), "-tier", tier, "-out", out}, 3*time.Minute)
	cs := readCases(out)
	os.Remove(out)
	if (code != 0 && code != 4) || to || len(cs) == 0 {
		cs = append(cs, core.Case{ID: fmt.Sprintf("store-%d", store), Kind: "child-died",
			Note: fmt.Sprintf("the child process of store %d died (exit %d, timed out %v)", store, code, to),
			Dist: map[string]any{"hang": true, "multi": true}, Input: map[string]any{"seed": core.Seed(), "store": store}})
	}
	return cs
}

func verdictOf(c core.Case) string {
	if m, ok := c.Observed.(map[string]any); ok {
		if s, ok := m["uninterrupted_verdict"].(string); ok {
			return s
		}
	}
	return ""
}

func killRound(i, idx int, tier, tmp string) []core.Case {
	dir := filepath.Join(tmp, fmt.Sprintf("kill-%d", i))
	os.RemoveAll(dir)
	r := core.NewRand(core.Seed()).Fork(uint64(i)).Fork(0x6b111)
	cmd := exec.Command(os.Args[0], "-child-killrun", dir, "-idx", fmt.Sprint(idx), "-tier", tier)
	cmd.Env = os.Environ()
	op, _ := cmd.StdoutPipe()
	if err := cmd.Start(); err != nil {
		return nil
	}
	sc := bufio.NewScanner(op)
	started := make(chan bool, 1)
	finished := make(chan bool, 1)
	go func() {
		for sc.Scan() {
			switch sc.Text() {
			case "started":
				started <- true
			case "finished":
				finished <- true
			}
		}
	}()
	select {
	case <-started:
	case <-time.After(20 * time.Second):
	}
	delay := time.Duration(r.Intn(40000)) * time.Microsecond
	wasDone := false
	select {
	case <-finished:
		wasDone = true
	case <-time.After(delay):
	}
	cmd.Process.Signal(syscall.SIGKILL)
	cmd.Wait()
	out := filepath.Join(tmp, fmt.Sprintf("kill-%d.jsonl", i))
	id := fmt.Sprintf("kill-%d-plan%d", i, idx)
	runChild([]string{"-child-rerun", dir, "-idx", fmt.Sprint(idx), "-tier", tier, "-id", id, "-level", "1", "-out", out, "-need-verdict"}, 2*time.Minute)
	cs := readCases(out)
	os.Remove(out)
	os.RemoveAll(dir)
	for k := range cs {
		if cs[k].Dist == nil {
			cs[k].Dist = map[string]any{}
		}
		cs[k].Dist["sigkill"] = true
		cs[k].Dist["kill_delay_us"] = delay.Microseconds()
		cs[k].Dist["killed_after_finish"] = wasDone
	}
	if len(cs) == 0 {
		cs = append(cs, core.Case{ID: id, Kind: "child-died", Note: "the restart after SIGKILL did not report", Dist: map[string]any{"hang": true, "sigkill": true}})
	}
	return cs
}

func main() {
	childPlanF := flag.Int("child-plan", -1, "internal")
	childMultiF := flag.Int("child-multi", -1, "internal")
	stores := flag.Int("stores", 0, "stores holding 3-6 Running plans (and 0-2 others), recovered by one coercion.New")
	childRerunF := flag.String("child-rerun", "", "internal: directory of a file-backed vault")
	childKillF := flag.String("child-killrun", "", "internal: directory of a file-backed vault")
	idxF := flag.Int("idx", 0, "internal")
	nonceF := flag.String("nonce", "", "internal")
	idF := flag.String("id", "", "internal")
	levelF := flag.Int("level", 1, "internal")
	verdictF := flag.String("verdict-of", "", "internal")
	needVerdict := flag.Bool("need-verdict", false, "internal")
	attemptF := flag.Int("attempt", 0, "internal")
	tmpF := flag.String("tmp", "", "internal")
	plans := flag.Int("plans", 30, "number of plans")
	from := flag.Int("from", 0, "first plan index (child: first prefix)")
	only := flag.String("only", "", "comma separated plan indices (replay)")
	tier := flag.String("tier", "quick", "quick|thorough (shape sizes)")
	double := flag.Int("double", 5, "percentage of recoveries whose own write prefixes are crash points again")
	doubleSmall := flag.Int("doublesmall", 0, "runs with at most this many writes: EVERY recovery's write prefixes are crash points again")
	file := flag.Int("file", 0, "percentage of recoveries on a file-backed vault")
	kills := flag.Int("kills", 0, "real SIGKILLs of a child running a plan on a file-backed vault")
	out := flag.String("out", "-", "output file (JSONL)")
	workers := flag.Int("workers", 0, "children in parallel")
	flag.Parse()

	if *childPlanF >= 0 {
		runtime.GOMAXPROCS(4)
		childPlan(*childPlanF, *from, *tier, *double, *doubleSmall, *file, *out, *tmpF, *attemptF)
		return
	}
	if *childMultiF >= 0 {
		runtime.GOMAXPROCS(4)
		childMulti(*childMultiF, *tier, *out)
		return
	}
	if *childRerunF != "" {
		runtime.GOMAXPROCS(4)
		childRerun(*idxF, *tier, *childRerunF, *nonceF, *idF, *levelF, 0, *out, *needVerdict, *verdictF)
		return
	}
	if *childKillF != "" {
		runtime.GOMAXPROCS(4)
		childKillRun(*idxF, *tier, *childKillF)
		return
	}

	w, err := core.NewWriter(*out)
	if err != nil {
		fmt.Fprintln(os.Stderr, err)
		os.Exit(2)
	}
	defer w.Close()
	tmp, err := os.MkdirTemp("", "recover")
	if err != nil {
		fmt.Fprintln(os.Stderr, err)
		os.Exit(2)
	}
	defer os.RemoveAll(tmp)
	var idx []int
	if *only != "" {
		for _, s := range strings.Split(*only, ",") {
			var v int
			if _, err := fmt.Sscanf(strings.TrimSpace(s), "%d", &v); err == nil {
				idx = append(idx, v)
			}
		}
	} else {
		for i := 0; i < *plans; i++ {
			idx = append(idx, *from+i)
		}
	}
	nw := *workers
	if nw <= 0 {
		nw = min(16, runtime.NumCPU())
	}
	type job struct {
		pos   int
		kill  bool
		store bool
	}
	total := len(idx) + *kills + *stores
	results := make([][]core.Case, total)
	next := make(chan job, total)
	for i := range idx {
		next <- job{i, false, false}
	}
	for i := 0; i < *kills; i++ {
		next <- job{len(idx) + i, true, false}
	}
	for i := 0; i < *stores; i++ {
		next <- job{len(idx) + *kills + i, false, true}
	}
	close(next)
	var wg sync.WaitGroup
	for k := 0; k < max(1, min(nw, total)); k++ {
		wg.Add(1)
		go func() {
			defer wg.Done()
			for j := range next {
				if j.store {
					i := j.pos - len(idx) - *kills
					results[j.pos] = oneStore(*from+i, *tier, tmp)
				} else if j.kill {
					i := j.pos - len(idx)
					results[j.pos] = killRound(i, *from+i%max(1, len(idx)), *tier, tmp)
				} else {
					results[j.pos] = onePlan(idx[j.pos], *tier, *double, *doubleSmall, *file, tmp)
				}
			}
		}()
	}
	wg.Wait()
	n, hangs, recs := 0, 0, 0
	for _, cs := range results {
		for _, c := range cs {
			w.Put(c)
			n++
			if isHang(c) {
				hangs++
			}
			if c.Kind == "rec" {
				recs++
			}
		}
	}
	fmt.Fprintf(os.Stderr, "recover: plans=%d cases=%d recoveries=%d hangs=%d\n", len(idx), n, recs, hangs)
}
