package main

import (
	"fmt"
	"reflect"
	"time"

	"github.com/brunoga/deep"
	"github.com/element-of-surprise/coercion/workflow/utils/clone"
)

type R struct {
	Name  string
	Times []time.Time
	TM    map[string]time.Time
	TP    []*time.Time
	T     time.Time
	TI    any
	Pass  string `coerce:"secure"`
}

func main() {
	now := time.Unix(1700000000, 0).UTC()
	r := &R{Name: "n", Times: []time.Time{now}, TM: map[string]time.Time{"a": now}, TP: []*time.Time{&now}, T: now, TI: now, Pass: "pw"}
	fmt.Println(clone.Secure(r))
	fmt.Printf("%+v\n", *r)
	fmt.Println(*r.TP[0])

	// StructOf with unexported
	defer func() { fmt.Println("recovered:", recover()) }()
	st := reflect.StructOf([]reflect.StructField{
		{Name: "A", Type: reflect.TypeOf(""), Tag: `coerce:"secure"`},
		{Name: "b", Type: reflect.TypeOf(""), PkgPath: "main"},
		{Name: "Arr", Type: reflect.ArrayOf(2, reflect.TypeOf(""))},
	})
	v := reflect.New(st)
	v.Elem().Field(0).SetString("x")
	fmt.Println(v.Elem().Field(1).String(), v.Elem().Field(1).CanSet())
	c := deep.MustCopy(v.Interface())
	fmt.Printf("%+v\n", c)
	fmt.Println(clone.Secure(c))
	fmt.Printf("%+v\n", c)
}
