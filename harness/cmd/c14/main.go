// c14: Create is all-or-nothing and unique; Delete removes exactly one plan.
// Families (one Coq case each, Coercion.Store.StoreCheck.case):
//   plant      a value the JSON codec refuses, planted at EVERY action position (request, or an attempt's
//              response) of generated plans; Create directly and through Workstream.Submit; afterwards the
//              clean plan with the same ids is created (orphan rows would collide)
//   dup        creating an id twice (same or different content), re-create after delete
//   interleave creates and deletes of 2-5 plans interleaved
//   collide    (sqlite) a plan sharing one object id with a stored plan: primary-key conflict mid-transaction
//   fault      (cosmosdb) the fake client's createItemErr / deleteItemErr toggles, before the plan batch
//              and between the plan batch and the search batch
//   kill       (thorough) a child process killed at a random instant during Create on a file-backed store
// Observed after every operation: result class, Read of every plan id, and on file-backed sqlite the row
// counts per table per plan_id over the harness's own SQL connection.
package main

import (
	"bufio"
	"context"
	"encoding/json"
	"errors"
	"flag"
	"fmt"
	"io"
	"log/slog"
	"os"
	"os/exec"
	"path/filepath"
	"strings"
	"time"

	"verifharness/core"
	"verifharness/hplug"
	"verifharness/plangen"
	"verifharness/storelib"

	coercion "github.com/element-of-surprise/coercion"
	"github.com/element-of-surprise/coercion/plugins"
	"github.com/element-of-surprise/coercion/workflow"
	"github.com/element-of-surprise/coercion/workflow/storage/cosmosdb"
	"github.com/google/uuid"
)

var ctx = context.Background()

func opts(r *core.Rand, size int) plangen.Opts {
	switch size {
	case 0:
		return plangen.Opts{GroupP: 0.15, MaxBlocks: 1, MaxSeqs: 2, MaxActions: 2, MaxCheckActions: 2, KeyP: 0.2, AltP: 0.3}
	case 1:
		return plangen.Opts{GroupP: 0.3, MaxBlocks: 2, MaxSeqs: 2, MaxActions: 2, MaxCheckActions: 2, KeyP: 0.2, AltP: 0.3}
	}
	return plangen.Opts{GroupP: 0.5, MaxBlocks: 3, MaxSeqs: 3, MaxActions: 3, MaxCheckActions: 3, KeyP: 0.2, AltP: 0.3}
}

// maker returns a generator of structurally equal, pointer-disjoint stored-form plans.
func maker(seed *core.Rand, size int, anyP float64) func() *workflow.Plan {
	return func() *workflow.Plan {
		r := seed.Fork(0)
		p := plangen.New(r, opts(r, size)).Plan()
		storelib.Materialize(r, p, storelib.MatOpts{AnyP: anyP})
		return p
	}
}

// plant puts an unencodable value at action position k: in the request (through the Any plugin of the
// action's kind, whose ValidateReq accepts it) or, if inAttempt, in the response of an attempt.
// plantKind: "chan-req", "chan-att" (a channel behind an `any`), "utf8-req", "utf8-resp", "utf8-err" (a string that
// is not valid UTF-8 in the request, in an attempt's response, in a wrapped error message of an attempt).
func plantKind(p *workflow.Plan, k int, kind string, live bool) string {
	ar := storelib.Actions(p)[k]
	bad := storelib.InvalidUTF8[k%len(storelib.InvalidUTF8)]
	switch kind {
	case "chan-req":
		return plant(p, k, false, live)
	case "chan-att":
		return plant(p, k, true, live)
	case "utf8-req":
		storelib.TaintReq(ar.A, bad)
		return ar.Path + " (request string not valid UTF-8)"
	case "utf8-resp":
		ar.A.Attempts = append(ar.A.Attempts, &workflow.Attempt{Resp: storelib.TaintedResp(ar.A.Plugin, bad), Start: time.Unix(5, 5)})
		return ar.Path + " (attempt response string not valid UTF-8)"
	case "utf8-err":
		ar.A.Attempts = append(ar.A.Attempts, &workflow.Attempt{Err: &plugins.Error{Code: 1, Message: "outer",
			Wrapped: &plugins.Error{Code: 2, Message: "inner " + bad}}, Start: time.Unix(5, 5)})
		return ar.Path + " (wrapped error message not valid UTF-8)"
	}
	panic("unknown plant kind " + kind)
}

var plantKinds = []string{"chan-req", "chan-att", "utf8-req", "utf8-resp", "utf8-err"}

func plant(p *workflow.Plan, k int, inAttempt bool, live bool) string {
	ar := storelib.Actions(p)[k]
	var bad any = storelib.Unencodable{}
	if live {
		bad = storelib.Unencodable{C: make(chan int)}
	}
	if inAttempt {
		ar.A.Attempts = append(ar.A.Attempts, &workflow.Attempt{Resp: bad, Start: time.Unix(5, 5)})
		return ar.Path + " (attempt response)"
	}
	if ar.Check {
		ar.A.Plugin = storelib.AnyCheckName
	} else {
		ar.A.Plugin = storelib.AnyActionName
	}
	ar.A.Req = storelib.AnyReq{Nonce: "n", Path: ar.Path, X: bad}
	return ar.Path + " (request)"
}

type env struct {
	w     *core.Writer
	count int
}

func (e *env) emit(kind string, idx int, bk string, rec *storelib.Rec, nontrivial bool, dist map[string]any, input map[string]any) {
	d := map[string]any{"backend": bk, "ops": rec.Steps(), "reads": rec.Reads, "table": rec.TableSize(), "ophist": rec.OpHist, "counts": rec.B.HasCounts()}
	for k, v := range dist {
		d[k] = v
	}
	in := map[string]any{"seed": core.Seed(), "index": idx, "backend": bk}
	for k, v := range input {
		in[k] = v
	}
	e.w.Put(core.Case{ID: fmt.Sprintf("%s-%d", kind, e.count), Kind: kind, Coq: rec.CaseTerm(), Nontrivial: nontrivial, Hash: core.Hash(rec.CaseTerm()),
		Dist: d, Input: in, Observed: rec.Log, Note: rec.Note()})
	e.count++
}

func open(bk string) (*storelib.Backend, *storelib.Set, *storelib.Rec) {
	set := storelib.NewSet()
	b, err := storelib.Open(ctx, bk, set)
	if err != nil {
		fmt.Fprintln(os.Stderr, "open", bk, err)
		os.Exit(2)
	}
	return b, set, storelib.NewRec(ctx, b, set)
}

// ---- family plant (direct Create) ----
func famPlant(e *env, root *core.Rand, nPlans int, bks []string) {
	for i := 0; i < nPlans; i++ {
		r := root.Fork(uint64(1000 + i))
		mk := maker(r.Fork(1), i%3, 0.1)
		other := maker(r.Fork(2), 0, 0.1)
		n := len(storelib.Actions(mk()))
		for k := 0; k < n; k++ {
			bk := bks[(i+k)%len(bks)]
			kind := plantKinds[r.Fork(uint64(50+k)).Intn(len(plantKinds))] // independent of the backend rotation
			inAttempt := kind != "chan-req" && kind != "utf8-req"
			if bk == "cosmos-fake" && storelib.Hangs >= 3 {
				continue
			}
			b, _, rec := open(bk)
			o := other()
			rec.IDs = []uuid.UUID{mk().ID, o.ID}
			withOther := k%2 == 0
			if withOther {
				rec.Create(other(), other(), "create-other")
			}
			give, ref := mk(), mk()
			where := plantKind(give, k, kind, true)
			plantKind(ref, k, kind, false)
			rec.Create(give, ref, "create-planted")
			// the clean plan with the same ids must now be creatable: nothing of the failed one is left
			rec.Create(mk(), mk(), "create-clean")
			e.emit("plant", i, bk, rec, true, map[string]any{"actions": n, "position": k, "where": where, "in_attempt": inAttempt, "planted": kind, "via": "create"}, map[string]any{"position": k})
			closeVault(b, rec)
		}
	}
}

// ---- family plantcz: cosmosdb, EVERY action position x {request, attempt response} ----
// After the failed Create: Read must fail, Exists must be false, there must be no search entry, no item
// of the plan may be left in the container (probed through the vault's own updater: a patch of an
// item that is not there fails), and the clean plan with the same ids must then be creatable.
func famPlantCosmos(e *env, root *core.Rand, nPlans int) {
	for i := 0; i < nPlans; i++ {
		r := root.Fork(uint64(1500 + i))
		mk := maker(r.Fork(1), i%3, 0.1)
		other := maker(r.Fork(2), 0, 0.1)
		n := len(storelib.Actions(mk()))
		for k := 0; k < n; k++ {
			kinds := []string{"chan-req", "utf8-req", "utf8-resp"}
			if k%2 == 1 {
				kinds = []string{"chan-att", "utf8-req", "utf8-err"}
			}
			for _, kind := range kinds {
				inAttempt := kind != "chan-req" && kind != "utf8-req"
				if storelib.Hangs >= 3 {
					return // the hang is recorded in three cases already; each further one costs the deadline
				}
				b, _, rec := open("cosmos-fake")
				o := other()
				rec.IDs = []uuid.UUID{mk().ID, o.ID}
				if k%2 == 0 {
					rec.Create(other(), other(), "create-other")
				}
				give, ref := mk(), mk()
				where := plantKind(give, k, kind, true)
				plantKind(ref, k, kind, false)
				rec.Create(give, ref, "create-planted")
				// orphan items? patch some objects of the plan that must not exist
				objs := storelib.ObjectsOf(ref)
				st := storelib.RandState(r.Fork(uint64(90 + k)))
				rec.UpdateBlock(ref.ID, objs.Blocks[0].ID, st)
				a := storelib.Actions(ref)[k].A
				rec.UpdateAction(ref.ID, a.ID, a.Plugin, st, nil, nil)
				if len(objs.Seqs) > 0 {
					rec.UpdateSequence(ref.ID, objs.Seqs[len(objs.Seqs)-1].ID, st)
				}
				rec.Create(mk(), mk(), "create-clean")
				e.emit("plantcz", i, "cosmos-fake", rec, true, map[string]any{"actions": n, "position": k, "where": where, "in_attempt": inAttempt, "planted": kind, "via": "create"}, map[string]any{"position": k, "planted": kind})
				closeVault(b, rec)
			}
		}
	}
}

// ---- family plant through Workstream.Submit (fresh plans; sqlite) ----
func famSubmit(e *env, root *core.Rand, nPlans int, bks []string) {
	for i := 0; i < nPlans; i++ {
		r := root.Fork(uint64(2000 + i))
		fresh := func() *workflow.Plan {
			q := r.Fork(1)
			return plangen.New(q, opts(q, i%3)).Plan()
		}
		n := len(storelib.Actions(fresh()))
		for k := -1; k < n; k++ { // k = -1: nothing planted (a successful Submit stores exactly the submitted plan)
			bk := bks[(i+k+1)%len(bks)]
			b, set, rec := open(bk)
			ws, err := coercion.New(ctx, set.Reg, b.Vault)
			if err != nil {
				fmt.Fprintln(os.Stderr, "coercion.New", err)
				os.Exit(2)
			}
			p := fresh()
			where := "none"
			kind := []string{"chan-req", "utf8-req"}[(k+i+2)%2]
			if k >= 0 {
				where = plantKind(p, k, kind, true)
			}
			var serr error
			func() {
				defer func() {
					if x := recover(); x != nil {
						serr = fmt.Errorf("panic: %v", x)
						rec.Notes = append(rec.Notes, fmt.Sprintf("panic in Submit: %v", x))
					}
				}()
				_, serr = ws.Submit(ctx, p)
			}()
			// Submit assigned ids, states and the submit time in place (also when Create failed); sqlite does
			// not touch its argument, so p itself is the record of what was submitted.
			if p.ID == uuid.Nil || p.State == nil {
				rec.Notes = append(rec.Notes, "panic-class: Submit left the plan without id/state: "+fmt.Sprint(serr))
				e.emit("submit", i, bk, rec, true, map[string]any{"position": k}, nil)
				closeVault(b, rec)
				continue
			}
			rec.IDs = []uuid.UUID{p.ID}
			rec.Created_(p, serr, "submit", "CCreate")
			e.emit("submit", i, bk, rec, k >= 0, map[string]any{"actions": n, "position": k, "where": where, "planted": kind, "via": "submit"}, map[string]any{"position": k})
			closeVault(b, rec)
		}
	}
}

// ---- family dup ----
func famDup(e *env, root *core.Rand, n int, bks []string) {
	for i := 0; i < n; i++ {
		r := root.Fork(uint64(3000 + i))
		bk := bks[i%len(bks)]
		b, _, rec := open(bk)
		mk := maker(r.Fork(1), i%2, 0.1)
		alt := func() *workflow.Plan { // same plan id, everything else different
			q := maker(r.Fork(2), i%2, 0.1)()
			q.ID = mk().ID
			storelib.SetPlanIDs(q)
			return q
		}
		rec.IDs = []uuid.UUID{mk().ID}
		rec.Create(mk(), mk(), "create")
		if i%2 == 0 {
			rec.Create(mk(), mk(), "create-duplicate")
		} else {
			rec.Create(alt(), alt(), "create-duplicate-other-content")
		}
		if r.Chance(0.5) {
			rec.Delete(mk().ID)
			rec.Delete(mk().ID)
			if i%2 == 0 {
				rec.Create(alt(), alt(), "create-after-delete")
			} else {
				rec.Create(mk(), mk(), "create-after-delete")
			}
			rec.Create(mk(), mk(), "create-duplicate")
		}
		e.emit("dup", i, bk, rec, true, nil, nil)
		closeVault(b, rec)
	}
}

// ---- family interleave ----
func famInterleave(e *env, root *core.Rand, n int, bks []string) {
	for i := 0; i < n; i++ {
		r := root.Fork(uint64(4000 + i))
		bk := bks[i%len(bks)]
		b, _, rec := open(bk)
		np := r.Range(2, 5)
		mks := make([]func() *workflow.Plan, np)
		live := make([]bool, np)
		for j := range mks {
			mks[j] = maker(r.Fork(uint64(10+j)), r.Intn(2), 0.1)
			rec.IDs = append(rec.IDs, mks[j]().ID)
		}
		rec.IDs = append(rec.IDs, plangen.V7(r))
		steps := r.Range(6, 18)
		for k := 0; k < steps; k++ {
			j := r.Intn(np)
			if (live[j] && r.Chance(0.75)) || (!live[j] && r.Chance(0.15)) {
				if rec.Delete(mks[j]().ID) == nil {
					live[j] = false
				}
			} else {
				if rec.Create(mks[j](), mks[j](), "create") == nil {
					live[j] = true
				}
			}
		}
		e.emit("interleave", i, bk, rec, true, map[string]any{"plans": np}, nil)
		closeVault(b, rec)
	}
}

// ---- family collide (sqlite): one object id shared with a stored plan ----
func famCollide(e *env, root *core.Rand, n int, bks []string) {
	for i := 0; i < n; i++ {
		r := root.Fork(uint64(5000 + i))
		bk := bks[i%len(bks)]
		b, _, rec := open(bk)
		mkA := maker(r.Fork(1), 1, 0.1)
		choice := r.Intn(1000)
		mkB := func() *workflow.Plan {
			q := maker(r.Fork(2), 1, 0.1)()
			a := mkA()
			oa, ob := storelib.ObjectsOf(a), storelib.ObjectsOf(q)
			switch k := choice % 5; {
			case k == 0 && len(oa.Checks) > 0 && len(ob.Checks) > 0:
				ob.Checks[choice%len(ob.Checks)].ID = oa.Checks[choice%len(oa.Checks)].ID
			case k == 1:
				ob.Blocks[len(ob.Blocks)-1].ID = oa.Blocks[choice%len(oa.Blocks)].ID
			case k == 2:
				ob.Seqs[len(ob.Seqs)-1].ID = oa.Seqs[choice%len(oa.Seqs)].ID
			case k == 3:
				// an id shared across DIFFERENT tables is no conflict in sqlite
				ob.Seqs[0].ID = oa.Blocks[0].ID
			default:
				ob.Actions[len(ob.Actions)-1].ID = oa.Actions[choice%len(oa.Actions)].ID
			}
			return q
		}
		rec.IDs = []uuid.UUID{mkA().ID, mkB().ID}
		rec.Create(mkA(), mkA(), "create")
		rec.Create(mkB(), mkB(), "create-colliding")
		rec.Delete(mkA().ID)
		rec.Create(mkB(), mkB(), "create-after-delete-of-the-other")
		e.emit("collide", i, bk, rec, true, map[string]any{"shared": choice % 5}, nil)
		closeVault(b, rec)
	}
}

// ---- family fault (cosmosdb fake) ----
func famFault(e *env, root *core.Rand, n int) {
	for i := 0; i < n; i++ {
		r := root.Fork(uint64(6000 + i))
		b, set, rec := open("cosmos-fake")
		mk := maker(r.Fork(1), i%2, 1.0) // every action on an Any plugin: its Request() is the hook between the batches
		other := maker(r.Fork(2), 0, 0.1)
		rec.IDs = []uuid.UUID{mk().ID, other().ID}
		rec.Create(other(), other(), "create-other")
		mode := i % 10
		switch mode {
		case 8: // Delete whose PLAN batch is refused the way the service refuses (HTTP 207: nil error, Success=false,
			// 412 / 424 per operation; a stale If-Match after a concurrent update, a missing item): nothing was
			// deleted, so Delete must return an error and the plan must be completely there, search entry included
			rec.Create(mk(), mk(), "create")
			victim := storelib.Actions(mk())[0].A.ID.String()
			if i%20 >= 10 {
				victim = mk().ID.String() // the plan item itself (the last operation of the batch)
			}
			b.Cosmos.SetBatchRefusalStyle(true)
			b.Cosmos.SetPoisonItem(victim)
			err := b.Vault.Delete(ctx, mk().ID)
			b.Cosmos.SetPoisonItem("")
			b.Cosmos.SetBatchRefusalStyle(false)
			rec.Deleted_(mk().ID, err, "delete-plan-batch-softly-refused", "(CDeleteStage 0)")
			rec.Delete(mk().ID)
		case 9: // only the SEARCH batch of Delete softly refused: an error, the items are gone, the entry stays
			rec.Create(mk(), mk(), "create")
			b.Cosmos.SetBatchRefusalStyle(true)
			b.Cosmos.SetPoisonSearchPartition(true)
			err := b.Vault.Delete(ctx, mk().ID)
			b.Cosmos.SetPoisonSearchPartition(false)
			b.Cosmos.SetBatchRefusalStyle(false)
			rec.Deleted_(mk().ID, err, "delete-search-batch-softly-refused", "(CDeleteStage 1)")
		case 7: // UpdatePlan whose ITEM patch fails (the plan is not there: 404, not retriable): an error, and the
			// search partition must be untouched - the search entry is replaced only after the patch succeeded
			gone := mk()
			st := storelib.RandState(r.Fork(9))
			rec.UpdatePlan(gone.ID, storelib.RandReason(r.Fork(10)), st, gone.SubmitTime) // never created
			rec.Create(mk(), mk(), "create")
			rec.Delete(gone.ID)
			rec.UpdatePlan(gone.ID, storelib.RandReason(r.Fork(11)), st, gone.SubmitTime) // deleted
		case 4: // Delete while every batch on the SEARCH partition is refused: the plan's items go, the search
			// entry stays - Delete must report an ERROR (success is never reported while a trace remains)
			rec.Create(mk(), mk(), "create")
			b.Cosmos.SetPoisonSearchPartition(true)
			err := b.Vault.Delete(ctx, mk().ID)
			b.Cosmos.SetPoisonSearchPartition(false)
			rec.Deleted_(mk().ID, err, "delete-search-partition-refused", "(CDeleteStage 1)")
		case 5: // Create while the search partition is refused (the two-batch gap, through the batch hook)
			b.Cosmos.SetPoisonSearchPartition(true)
			err := b.Vault.Create(ctx, mk())
			b.Cosmos.SetPoisonSearchPartition(false)
			rec.Created_(mk(), err, "create-search-partition-refused", "(CCreateStage 1)")
		case 6: // UpdatePlan while its second write (the ReplaceItem batch on the search partition) is refused:
			// an error, the plan item is patched. (SetPoisonSearchPartition wraps the creator's and the
			// deleter's client only; the fake's replaceItemErr toggle hits exactly that batch: PatchItem does not look at it.)
			rec.Create(mk(), mk(), "create")
			st := storelib.RandState(r.Fork(9))
			rs := storelib.RandReason(r.Fork(10))
			up := &workflow.Plan{ID: mk().ID, Name: "mutated-by-update", Descr: "mutated", Reason: rs, State: st, SubmitTime: mk().SubmitTime}
			b.Cosmos.SetReplaceItemErr(true)
			err := b.Vault.UpdatePlan(ctx, up)
			b.Cosmos.SetReplaceItemErr(false)
			rec.UpdatedPlan_(mk().ID, rs, st, mk().SubmitTime, err, "update-plan-search-partition-refused", "(CUpdatePlanStage 1)")
		case 3: // duplicate id, DIFFERENT definition, while ReadItem answers a non-404 error: the Exists
			// pre-check fails, Create must return the error and must not have written anything
			alt := func() *workflow.Plan {
				q := maker(r.Fork(3), (i/4)%2, 0.3)()
				q.ID = mk().ID
				storelib.SetPlanIDs(q)
				return q
			}
			rec.Create(mk(), mk(), "create")
			b.Cosmos.SetReadItemErr(errors.New("429 too many requests (injected)"))
			err := b.Vault.Create(ctx, alt())
			b.Cosmos.SetReadItemErr(nil)
			rec.Created_(alt(), err, "create-duplicate-other-content-while-reads-fail", "(CCreateStage 3)")
			// and a fresh id under the same fault: nothing may be written either
			fresh := maker(r.Fork(4), 0, 0.1)
			rec.IDs = append(rec.IDs, fresh().ID)
			b.Cosmos.SetReadItemErr(errors.New("503 service unavailable (injected)"))
			err = b.Vault.Create(ctx, fresh())
			b.Cosmos.SetReadItemErr(nil)
			rec.Created_(fresh(), err, "create-fresh-while-reads-fail", "(CCreateStage 3)")
			rec.Create(fresh(), fresh(), "create-clean")
		case 0: // the plan batch fails
			b.Cosmos.SetCreateItemErr(true)
			err := b.Vault.Create(ctx, mk())
			b.Cosmos.SetCreateItemErr(false)
			rec.Created_(mk(), err, "create-fault-plan-batch", "(CCreateStage 0)")
			rec.Create(mk(), mk(), "create-clean")
		case 1: // the search batch fails: flip the toggle while the creator re-reads the plan
			armed := true
			hook := func() {
				if armed {
					b.Cosmos.SetCreateItemErr(true)
				}
			}
			set.AnyAction.SetOnRequest(hook)
			set.AnyCheck.SetOnRequest(hook)
			err := b.Vault.Create(ctx, mk())
			armed = false
			b.Cosmos.SetCreateItemErr(false)
			set.AnyAction.SetOnRequest(nil)
			set.AnyCheck.SetOnRequest(nil)
			rec.Created_(mk(), err, "create-fault-search-batch", "(CCreateStage 1)")
		case 2: // Delete with the plan batch failing, then for real
			rec.Create(mk(), mk(), "create")
			b.Cosmos.SetDeleteItemErr(true)
			err := b.Vault.Delete(ctx, mk().ID)
			b.Cosmos.SetDeleteItemErr(false)
			rec.Deleted_(mk().ID, err, "delete-fault-plan-batch", "(CDeleteStage 0)")
			rec.Delete(mk().ID)
			rec.Delete(other().ID)
		}
		e.emit("fault", i, "cosmos-fake", rec, true, map[string]any{"mode": mode}, nil)
		closeVault(b, rec)
	}
}

// ---- family bigbatch (cosmosdb): plans of more than a hundred items; a batch that contains a poisoned item is
// refused as a whole. Create must be ONE batch: whichever item is poisoned - among the first hundred in
// emission order or beyond - Create fails and NOTHING is left; Delete with a poisoned item fails and
// EVERYTHING is left. ----
func itemIDs(p *workflow.Plan) []string {
	raw, _, err := cosmosdb.VerifPlanItems(p)
	if err != nil {
		fmt.Fprintln(os.Stderr, "VerifPlanItems", err)
		os.Exit(2)
	}
	ids := make([]string, len(raw))
	for i, it := range raw {
		var m struct {
			ID string `json:"id"`
		}
		if err := json.Unmarshal(it, &m); err != nil || m.ID == "" {
			fmt.Fprintln(os.Stderr, "item without id", err)
			os.Exit(2)
		}
		ids[i] = m.ID
	}
	return ids
}

func famBigBatch(e *env, root *core.Rand, n int) {
	for i := 0; i < n; i++ {
		r := root.Fork(uint64(8000 + i))
		rBig := r.Fork(1) // fixed before r advances: every mk() is the same plan
		mk := func() *workflow.Plan { return storelib.BigPlan(rBig.Fork(0)) }
		other := maker(r.Fork(2), 0, 0.1)
		order := itemIDs(mk())
		nItems := len(order)
		if nItems <= 110 {
			fmt.Fprintln(os.Stderr, "big plan too small:", nItems)
			os.Exit(2)
		}
		for mode := 0; mode < 3; mode++ {
			b, _, rec := open("cosmos-fake")
			ref := mk()
			rec.IDs = []uuid.UUID{ref.ID, other().ID}
			rec.Create(other(), other(), "create-other")
			var k int
			switch mode {
			case 0: // beyond the first hundred (also beyond the second, when there is one)
				k = 100 + r.Intn(nItems-101)
				if nItems > 215 && r.Chance(0.5) {
					k = 200 + r.Intn(nItems-201)
				}
			case 1: // among the first hundred
				k = r.Intn(100)
			case 2: // any item, for Delete
				k = r.Intn(nItems)
			}
			objs := storelib.ObjectsOf(ref)
			st := storelib.RandState(r.Fork(uint64(30 + mode)))
			if mode < 2 {
				b.Cosmos.SetPoisonItem(order[k])
				err := b.Vault.Create(ctx, mk())
				b.Cosmos.SetPoisonItem("")
				rec.Created_(mk(), err, "create-with-refused-item", "(CCreateStage 0)")
				// no item of the plan may be left: patches of early and late objects must not find anything
				first := storelib.Actions(ref)[0].A
				rec.UpdateAction(ref.ID, first.ID, first.Plugin, st, nil, nil)
				rec.UpdateBlock(ref.ID, objs.Blocks[0].ID, st)
				rec.UpdateSequence(ref.ID, objs.Seqs[len(objs.Seqs)-1].ID, st)
				rec.Create(mk(), mk(), "create-clean")
			} else {
				rec.Create(mk(), mk(), "create")
				b.Cosmos.SetPoisonItem(order[k])
				err := b.Vault.Delete(ctx, ref.ID)
				b.Cosmos.SetPoisonItem("")
				rec.Deleted_(ref.ID, err, "delete-with-refused-item", "(CDeleteStage 0)")
				rec.UpdateBlock(ref.ID, objs.Blocks[0].ID, st) // still there: the patch succeeds
				rec.Delete(ref.ID)
			}
			e.emit("bigbatch", i, "cosmos-fake", rec, true, map[string]any{"mode": mode, "items": nItems, "refused_item_index": k}, map[string]any{"mode": mode})
			closeVault(b, rec)
		}
	}
}

// ---- family cancel (sqlite, memory and file): the caller's context is cancelled at a random instant during
// Create / Delete (the connection is interrupted: any statement, or the COMMIT itself, may fail).
// Only implications are checked, never an instant: Create nil => the complete plan is readable; Create error
// => no trace; Delete nil => no trace; Delete error => the plan is completely there or completely gone; no
// panic; afterwards the store answers (every id is read, and rows are counted, after every call). ----
func famCancel(e *env, root *core.Rand, n int) {
	for i := 0; i < n; i++ {
		r := root.Fork(uint64(9000 + i))
		bk := []string{"sqlite-mem", "sqlite-file"}[i%2]
		b, _, rec := open(bk)
		nSlots := 3
		mks := make([]func() *workflow.Plan, nSlots)
		live := make([]bool, nSlots)
		for j := range mks {
			size := []int{0, 0, 1}[(i+j)%3] // mostly small plans: the COMMIT is then a larger share of the call
			mks[j] = maker(r.Fork(uint64(10+j)), size, 0.1)
			rec.IDs = append(rec.IDs, mks[j]().ID)
		}
		// how long do the undisturbed calls take here and now? (only used to aim the cancellation)
		var tCreate, tDelete time.Duration
		for k := 0; k < 3; k++ {
			give := mks[0]()
			s := time.Now()
			err := b.Vault.Create(ctx, give)
			tCreate += time.Since(s)
			rec.Created_(mks[0](), err, "create", "CCreate")
			s = time.Now()
			err = b.Vault.Delete(ctx, give.ID)
			tDelete += time.Since(s)
			rec.Deleted_(give.ID, err, "delete", "CDelete")
		}
		tCreate, tDelete = tCreate/3, tDelete/3
		ops := 24
		for k := 0; k < ops && !rec.Dead; k++ {
			j := r.Intn(nSlots)
			if !live[j] {
				d := time.Duration(r.Intn(int(tCreate)*3/2 + 1))
				give := mks[j]()
				err := rec.CallCancelled("Create (context cancelled)", d, func(ctx context.Context) error { return b.Vault.Create(ctx, give) })
				rec.Created_(mks[j](), err, "create-cancelled", "CCancelledCreate")
				if err != nil && k%3 == 0 {
					err = rec.Create(mks[j](), mks[j](), "create")
				}
				live[j] = err == nil
			} else {
				d := time.Duration(r.Intn(int(tDelete)*3/2 + 1))
				id := mks[j]().ID
				err := rec.CallCancelled("Delete (context cancelled)", d, func(ctx context.Context) error { return b.Vault.Delete(ctx, id) })
				rec.Deleted_(id, err, "delete-cancelled", "CCancelledDelete")
				ex, _ := b.Vault.Exists(ctx, id)
				live[j] = ex
			}
		}
		e.emit("cancel", i, bk, rec, true, nil, nil)
		closeVault(b, rec)
	}
}

// ---- family cancelburst (sqlite): many Deletes of a tiny plan, each cancelled late in the call (where the
// last DELETE statements and the COMMIT are); same implications as family cancel ----
func famCancelBurst(e *env, root *core.Rand, n, tries int) {
	for i := 0; i < n; i++ {
		r := root.Fork(uint64(9500 + i))
		bk := []string{"sqlite-mem", "sqlite-file"}[i%2]
		b, _, rec := open(bk)
		seed := r.Fork(1)
		mk := func() *workflow.Plan {
			q := seed.Fork(0)
			p := plangen.New(q, plangen.Opts{GroupP: 0.0001, MaxBlocks: 1, MaxSeqs: 1, MaxActions: 1, MaxCheckActions: 1}).Plan()
			storelib.Materialize(q, p, storelib.MatOpts{Plain: true})
			return p
		}
		id := mk().ID
		rec.IDs = []uuid.UUID{id}
		var tDelete time.Duration
		for k := 0; k < 4; k++ {
			give := mk()
			err := b.Vault.Create(ctx, give)
			rec.Created_(mk(), err, "create", "CCreate")
			s := time.Now()
			err = b.Vault.Delete(ctx, id)
			tDelete += time.Since(s)
			rec.Deleted_(id, err, "delete", "CDelete")
		}
		tDelete /= 4
		live := false
		for k := 0; k < tries && !rec.Dead; k++ {
			if !live {
				live = rec.Create(mk(), mk(), "create") == nil
				continue
			}
			d := tDelete*4/10 + time.Duration(r.Intn(int(tDelete)*8/10+1)) // 0.4 .. 1.2 of an undisturbed Delete
			err := rec.CallCancelled("Delete (context cancelled)", d, func(cx context.Context) error { return b.Vault.Delete(cx, id) })
			rec.Deleted_(id, err, "delete-cancelled", "CCancelledDelete")
			ex, _ := b.Vault.Exists(ctx, id)
			live = ex
		}
		e.emit("cancelburst", i, bk, rec, true, nil, nil)
		closeVault(b, rec)
	}
}

// ---- family checkonly (sqlite): stored-form plans in which a block that has check groups has no sequences
// (the vaults do not validate; the cosmosdb creator rejects the shape, so this family is sqlite only): Create,
// Delete, the usual census after each, and the same ids must be creatable again (seeded change C14-i) ----
func famCheckOnly(e *env, root *core.Rand, n int) {
	for i := 0; i < n; i++ {
		r := root.Fork(uint64(9800 + i))
		bk := []string{"sqlite-mem", "sqlite-file"}[i%2]
		b, _, rec := open(bk)
		seed := r.Fork(1)
		mk := func() *workflow.Plan {
			q := seed.Fork(0)
			p := plangen.New(q, plangen.Opts{GroupP: 0.7, MaxBlocks: 2, MaxSeqs: 2, MaxActions: 2, MaxCheckActions: 2}).Plan()
			storelib.Materialize(q, p, storelib.MatOpts{AnyP: 0.1})
			for _, bl := range p.Blocks {
				if bl.BypassChecks != nil || bl.PreChecks != nil || bl.PostChecks != nil || bl.ContChecks != nil || bl.DeferredChecks != nil {
					bl.Sequences = nil
				}
			}
			return p
		}
		id := mk().ID
		rec.IDs = []uuid.UUID{id}
		for k := 0; k < 2 && !rec.Dead; k++ {
			if rec.Create(mk(), mk(), "create") != nil {
				break
			}
			rec.Delete(id)
		}
		e.emit("checkonly", i, bk, rec, true, nil, nil)
		closeVault(b, rec)
	}
}

// ---- family kill (thorough): child process killed during Create on a file-backed store ----
func childKill(dir string, seed uint64, idx int) {
	set := storelib.NewSet()
	b, err := storelib.OpenFile(ctx, dir, set)
	if err != nil {
		fmt.Println("ERR", err)
		os.Exit(3)
	}
	r := core.NewRand(seed).Fork(uint64(7000 + idx))
	base := maker(r.Fork(2), 0, 0.1)
	if err := b.Vault.Create(ctx, base()); err != nil {
		fmt.Println("ERR", err)
		os.Exit(3)
	}
	big := maker(r.Fork(1), 2, 0.1)()
	fmt.Println("READY")
	os.Stdout.Sync()
	err = b.Vault.Create(ctx, big)
	fmt.Println("DONE", err)
	os.Stdout.Sync()
	time.Sleep(time.Hour)
}

func famKill(e *env, root *core.Rand, n int) {
	self, _ := os.Executable()
	for i := 0; i < n; i++ {
		r := root.Fork(uint64(7000 + i))
		rBase, rBig := r.Fork(2), r.Fork(1) // before r is advanced: the child derives the same two
		dir, _ := filepath.Abs(fmt.Sprintf("killdb-%d-%d", os.Getpid(), i))
		os.RemoveAll(dir)
		cmd := exec.Command(self, "-child-kill", dir, "-child-idx", fmt.Sprint(i))
		cmd.Env = append(os.Environ(), fmt.Sprintf("VERIF_SEED=%d", core.Seed()))
		out, _ := cmd.StdoutPipe()
		if err := cmd.Start(); err != nil {
			fmt.Fprintln(os.Stderr, "child", err)
			os.Exit(2)
		}
		sc := bufio.NewScanner(out)
		ready := false
		for sc.Scan() {
			if strings.HasPrefix(sc.Text(), "READY") {
				ready = true
				break
			}
			if strings.HasPrefix(sc.Text(), "ERR") {
				break
			}
		}
		delay := time.Duration(r.Intn(6000)) * time.Microsecond
		if i%5 == 0 {
			delay = time.Duration(r.Intn(400)) * time.Microsecond
		}
		time.Sleep(delay)
		cmd.Process.Kill()
		finished := false
		for sc.Scan() {
			if strings.HasPrefix(sc.Text(), "DONE") {
				finished = true
			}
		}
		cmd.Wait()
		if !ready {
			fmt.Fprintln(os.Stderr, "child never became ready")
			os.Exit(2)
		}
		set := storelib.NewSet()
		b, err := storelib.OpenFile(ctx, dir, set)
		if err != nil {
			fmt.Fprintln(os.Stderr, "reopen", err)
			os.Exit(2)
		}
		rec := storelib.NewRec(ctx, b, set)
		base := maker(rBase, 0, 0.1)
		big := maker(rBig, 2, 0.1)
		rec.IDs = []uuid.UUID{base().ID, big().ID}
		// the model replays the child's history: base created, then the killed create of big
		rec.NoObs = true
		rec.Created_(base(), nil, "create-base (in the child)", "CCreate")
		rec.NoObs = false
		rec.Created_(big(), nil, "create-killed", "CKilledCreate")
		total, _ := b.TotalRows()
		e.emit("kill", i, "sqlite-file", rec, true, map[string]any{"delay_us": delay.Microseconds(), "child_finished": finished, "total_rows": total}, nil)
		closeVault(b, rec)
	}
}

// closeVault closes the vault, unless a call into it never returned.
func closeVault(b *storelib.Backend, rec *storelib.Rec) {
	if rec != nil && rec.Dead {
		b.Abandon()
		return
	}
	b.Close(ctx)
}

func main() {
	nPlant := flag.Int("plant", 6, "plans for the plant family (one case per action position)")
	nPlantCz := flag.Int("plantcz", 3, "plans for the cosmosdb plant family (two cases per action position)")
	nSubmit := flag.Int("submit", 4, "plans for the Submit family (one case per action position)")
	nDup := flag.Int("dup", 12, "cases")
	nInter := flag.Int("interleave", 18, "cases")
	nCollide := flag.Int("collide", 10, "cases")
	nFault := flag.Int("fault", 20, "cases")
	nBig := flag.Int("bigbatch", 2, "big plans for the cosmosdb batch family (three cases each)")
	nCancel := flag.Int("cancel", 10, "cases of the context-cancelled family (24 cancelled calls each)")
	nBurst := flag.Int("cancelburst", 16, "cases of the late-cancelled Delete burst (about 150 cancelled Deletes each)")
	nKill := flag.Int("kill", 0, "cases (thorough)")
	out := flag.String("out", "-", "output file (JSONL)")
	childDir := flag.String("child-kill", "", "internal: run as the child of the kill family on this directory")
	childIdx := flag.Int("child-idx", 0, "internal")
	flag.Parse()

	slog.SetDefault(slog.New(slog.NewTextHandler(io.Discard, nil)))
	if *childDir != "" {
		childKill(*childDir, core.Seed(), *childIdx)
		return
	}
	w, err := core.NewWriter(*out)
	if err != nil {
		fmt.Fprintln(os.Stderr, err)
		os.Exit(2)
	}
	defer w.Close()
	e := &env{w: w}
	root := core.NewRand(core.Seed())
	_ = hplug.ActionName

	all := []string{"sqlite-file", "sqlite-file", "sqlite-mem", "cosmos-fake"}
	sq := []string{"sqlite-file", "sqlite-file", "sqlite-mem"}
	famPlant(e, root, *nPlant, all)
	famPlantCosmos(e, root, *nPlantCz)
	famSubmit(e, root, *nSubmit, sq)
	famDup(e, root, *nDup, all)
	famInterleave(e, root, *nInter, all)
	famCollide(e, root, *nCollide, sq)
	famFault(e, root, *nFault)
	famBigBatch(e, root, *nBig)
	famCancel(e, root, *nCancel)
	famCancelBurst(e, root, *nBurst, 300)
	famCheckOnly(e, root, 12)
	famKill(e, root, *nKill)
}
