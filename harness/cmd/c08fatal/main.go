// c08fatal: "write failure is fatal" (C08, thorough tier).
//
//	c08fatal -n 40 -out cases.jsonl [-workers w]
//	c08fatal -quick -out cases.jsonl          the quick-tier slice: three fixed small plans (see quickSpec), every k
//
// For each of n small plans (shapes and outcome scripts from package engine's generator, profile persist; gates and
// overruns removed) a DRY child process runs the plan to the end with a counting vault and reports W, the number of
// Update* calls. Then, for every k = 1..W, a fresh child runs the same plan with a vault whose k-th Update* returns an
// error WITHOUT writing. Expected (internal/execute/sm: every Update* error is log.Fatalf): the process exits with a
// non-zero status, Wait never returns, and after the failed write no plugin is invoked that depends on it:
//
//	strict plans (one sequence at a time, single-action check groups, no continuous groups): no plugin invocation at all;
//	other plans: no invocation of the action whose write failed, of a later action of its sequence, of an action of the
//	sequence / group / block whose write failed; none at all if the plan's write failed (actions of continuous groups
//	excepted for block and plan writes: their thread runs concurrently with the state machine).
//
// The child logs one line per event with unbuffered writes to stdout (they survive os.Exit):
//
//	W k kind path status   Update* number k succeeded        F k kind path   Update* number k failed (injected)
//	S path / E path        plugin entered / about to return   X               Wait returned
//
// Every random choice derives from VERIF_SEED and the plan index.
package main

import (
	"bufio"
	"context"
	"errors"
	"flag"
	"fmt"
	"os"
	"os/exec"
	"runtime"
	"sort"
	"strconv"
	"strings"
	"sync"
	"time"

	"verifharness/core"
	"verifharness/engine"
	"verifharness/hplug"
	"verifharness/plangen"

	coercion "github.com/element-of-surprise/coercion"
	"github.com/element-of-surprise/coercion/plugins"
	"github.com/element-of-surprise/coercion/workflow"
	"github.com/element-of-surprise/coercion/workflow/storage"
	"github.com/element-of-surprise/coercion/workflow/storage/sqlite"
	"github.com/google/uuid"
)

// ---- the plan of index p ------------------------------------------------------------------------------------

var quickMode bool

// quickSpec: the three fixed plans of the quick tier. Each contains an action that is retried after a transient
// failure (retries >= 1, script err first), a check group and a sequence of two actions.
//
//	0 (strict)  plan pre group [1 action, retries 1: err, ok]; block: sequence [a0 retries 2: err, err, ok; a1 ok]; post group
//	1           block bypass group failing (perm); pre group of 2 actions (one err, ok); 2 sequences of 2 actions, conc 2,
//	            one action err then perm (sequence fails, tolerated); block deferred group; plan deferred group
//	2           plan continuous group (retries 1: err, ok on its first run); block with a 2-action sequence whose second
//	            action needs 2 attempts; second block with a post group that fails after a retry
func quickSpec(p int) *engine.Spec {
	st := func(os ...engine.Outcome) engine.Script {
		var run []engine.Step
		for _, o := range os {
			run = append(run, engine.Step{O: o})
		}
		return engine.Script{run}
	}
	g := func(rs ...int) *engine.Group { return &engine.Group{Retries: rs} }
	sp := &engine.Spec{Profile: "c08quick", Index: p, Kind: "fixed", Scripts: map[string]engine.Script{}}
	E, K, P := engine.OErr, engine.OOk, engine.OPerm
	switch p {
	case 0:
		sp.Shape.G[engine.GPre] = g(1)
		sp.Scripts[engine.ChkPath(-1, engine.GPre, 0)] = st(E, K)
		b := engine.Block{Seqs: [][]int{{2, 0}}, Conc: 1, Tol: 0}
		b.G[engine.GPost] = g(0)
		sp.Shape.Blocks = []engine.Block{b}
		sp.Scripts[engine.SeqPath(0, 0, 0)] = st(E, E, K)
	case 1:
		b := engine.Block{Seqs: [][]int{{1, 0}, {1, 1}}, Conc: 2, Tol: 1}
		b.G[engine.GBypass] = g(0)
		b.G[engine.GPre] = g(1, 0)
		b.G[engine.GDeferred] = g(1)
		sp.Shape.Blocks = []engine.Block{b}
		sp.Shape.G[engine.GDeferred] = g(0)
		sp.Scripts[engine.ChkPath(0, engine.GBypass, 0)] = st(P)
		sp.Scripts[engine.ChkPath(0, engine.GPre, 0)] = st(E, K)
		sp.Scripts[engine.SeqPath(0, 0, 0)] = st(E, K)
		sp.Scripts[engine.SeqPath(0, 1, 1)] = st(E, P)
		sp.Scripts[engine.ChkPath(0, engine.GDeferred, 0)] = st(E, K)
	default:
		sp.Shape.G[engine.GCont] = g(1)
		sp.Scripts[engine.ChkPath(-1, engine.GCont, 0)] = st(E, K)
		b0 := engine.Block{Seqs: [][]int{{0, 2}}, Conc: 1, Tol: -1}
		b1 := engine.Block{Seqs: [][]int{{1}}, Conc: 1, Tol: 0}
		b1.G[engine.GPost] = g(1)
		sp.Shape.Blocks = []engine.Block{b0, b1}
		sp.Scripts[engine.SeqPath(0, 0, 1)] = st(E, K)
		sp.Scripts[engine.SeqPath(1, 0, 0)] = st(E, K)
		sp.Scripts[engine.ChkPath(1, engine.GPost, 0)] = st(E, E)
	}
	return sp
}

// spec picks the p-th small plan of the persist profile: at most 2 blocks, 16 actions.
func spec(seed uint64, p int) *engine.Spec {
	if quickMode {
		return quickSpec(p)
	}
	idx := 0
	for found := -1; ; idx++ {
		sp := engine.Generate(seed, "persist", 700000+idx, engine.Options{})
		if len(sp.Shape.Actions()) <= 16 && len(sp.Shape.Blocks) <= 2 {
			found++
			if found == p {
				if p%2 == 1 {
					makeStrict(sp)
				}
				return sp
			}
		}
	}
}

// makeStrict turns a plan into one in which at most one plugin can be in flight: no continuous groups, one action
// per check group, one sequence at a time (every odd plan index).
func makeStrict(sp *engine.Spec) {
	fix := func(g *[5]*engine.Group) {
		g[engine.GCont] = nil
		for i := range g {
			if g[i] != nil && len(g[i].Retries) > 1 {
				g[i] = &engine.Group{Retries: g[i].Retries[:1]}
			}
		}
	}
	fix(&sp.Shape.G)
	for b := range sp.Shape.Blocks {
		fix(&sp.Shape.Blocks[b].G)
		sp.Shape.Blocks[b].Conc = 1
	}
}

func strict(sh engine.Shape) bool {
	ok := func(g [5]*engine.Group) bool {
		for i, x := range g {
			if x != nil && (i == engine.GCont || len(x.Retries) > 1) {
				return false
			}
		}
		return true
	}
	if !ok(sh.G) {
		return false
	}
	for _, b := range sh.Blocks {
		if !ok(b.G) || (b.Conc > 1 && len(b.Seqs) > 1) {
			return false
		}
	}
	return true
}

// ---- child ----------------------------------------------------------------------------------------------------

var (
	outMu sync.Mutex
	count int // Update* calls so far (guarded by outMu)
)

func emit(format string, a ...any) {
	os.Stdout.WriteString(fmt.Sprintf(format, a...) + "\n")
}

type failVault struct {
	storage.Vault
	k     int
	names map[uuid.UUID]string
}

func (v failVault) do(kind string, id uuid.UUID, st *workflow.State, f func() error) error {
	outMu.Lock()
	count++
	n := count
	if n == v.k {
		emit("F %d %s %s", n, kind, v.names[id])
		outMu.Unlock()
		return errors.New("c08fatal: injected write failure")
	}
	outMu.Unlock()
	err := f()
	outMu.Lock()
	if err != nil {
		emit("! %d %s %s storage error: %v", n, kind, v.names[id], err)
	} else {
		emit("W %d %s %s %d", n, kind, v.names[id], int(st.Status))
	}
	outMu.Unlock()
	return err
}

func (v failVault) UpdatePlan(ctx context.Context, p *workflow.Plan) error {
	return v.do("plan", p.ID, p.State, func() error { return v.Vault.UpdatePlan(ctx, p) })
}
func (v failVault) UpdateChecks(ctx context.Context, k *workflow.Checks) error {
	return v.do("checks", k.ID, k.State, func() error { return v.Vault.UpdateChecks(ctx, k) })
}
func (v failVault) UpdateBlock(ctx context.Context, b *workflow.Block) error {
	return v.do("block", b.ID, b.State, func() error { return v.Vault.UpdateBlock(ctx, b) })
}
func (v failVault) UpdateSequence(ctx context.Context, s *workflow.Sequence) error {
	return v.do("seq", s.ID, s.State, func() error { return v.Vault.UpdateSequence(ctx, s) })
}
func (v failVault) UpdateAction(ctx context.Context, a *workflow.Action) error {
	return v.do("action", a.ID, a.State, func() error { return v.Vault.UpdateAction(ctx, a) })
}

type actState struct {
	mu       sync.Mutex
	retries  int
	script   engine.Script
	run, att int
}

func childMain(seed uint64, p, k int) int {
	runtime.GOMAXPROCS(4)
	sp := spec(seed, p)
	r := core.NewRand(seed).Fork(uint64(p)).Fork(0xc08)
	names := map[uuid.UUID]string{}
	acts := map[string]*actState{}
	st := func() *workflow.State { return &workflow.State{Status: workflow.NotStarted} }
	action := func(path string, retries int, check bool) *workflow.Action {
		a := &workflow.Action{ID: plangen.V7(r), Name: "a " + path, Descr: "action " + path, Retries: retries,
			Timeout: 3 * time.Second, State: st(), Req: hplug.Req{Nonce: "c08fatal", Path: path, Arg: int64(retries)}}
		a.Plugin = hplug.ActionName
		if check {
			a.Plugin = hplug.CheckName
		}
		names[a.ID] = path
		acts[path] = &actState{retries: retries, script: sp.Scripts[path]}
		return a
	}
	checks := func(scope, g int, grp *engine.Group) *workflow.Checks {
		if grp == nil {
			return nil
		}
		c := &workflow.Checks{ID: plangen.V7(r), State: st()}
		if g == engine.GCont {
			c.Delay = 1500 * time.Microsecond
		}
		names[c.ID] = fmt.Sprintf("g/%d/%d", scope, g)
		for i, rt := range grp.Retries {
			c.Actions = append(c.Actions, action(engine.ChkPath(scope, g, i), rt, true))
		}
		return c
	}
	plan := &workflow.Plan{ID: plangen.V7(r), Name: "c08fatal plan", Descr: "write failure is fatal", State: st(),
		SubmitTime: time.Now().UTC()}
	names[plan.ID] = "plan"
	sh := sp.Shape
	plan.BypassChecks = checks(-1, engine.GBypass, sh.G[engine.GBypass])
	plan.PreChecks = checks(-1, engine.GPre, sh.G[engine.GPre])
	plan.ContChecks = checks(-1, engine.GCont, sh.G[engine.GCont])
	plan.PostChecks = checks(-1, engine.GPost, sh.G[engine.GPost])
	plan.DeferredChecks = checks(-1, engine.GDeferred, sh.G[engine.GDeferred])
	for bi, bs := range sh.Blocks {
		b := &workflow.Block{ID: plangen.V7(r), Name: fmt.Sprintf("block %d", bi), Descr: "block", State: st(),
			Concurrency: bs.Conc, ToleratedFailures: bs.Tol}
		names[b.ID] = fmt.Sprintf("b/%d", bi)
		b.BypassChecks = checks(bi, engine.GBypass, bs.G[engine.GBypass])
		b.PreChecks = checks(bi, engine.GPre, bs.G[engine.GPre])
		b.ContChecks = checks(bi, engine.GCont, bs.G[engine.GCont])
		b.PostChecks = checks(bi, engine.GPost, bs.G[engine.GPost])
		b.DeferredChecks = checks(bi, engine.GDeferred, bs.G[engine.GDeferred])
		for si, sq := range bs.Seqs {
			s := &workflow.Sequence{ID: plangen.V7(r), Name: fmt.Sprintf("seq %d.%d", bi, si), Descr: "sequence", State: st()}
			names[s.ID] = fmt.Sprintf("q/%d/%d", bi, si)
			for ai, rt := range sq {
				s.Actions = append(s.Actions, action(engine.SeqPath(bi, si, ai), rt, false))
			}
			b.Sequences = append(b.Sequences, s)
		}
		plan.Blocks = append(plan.Blocks, b)
	}

	behave := func(ctx context.Context, pl *hplug.Plugin, req any) (any, *plugins.Error) {
		rq, _ := req.(hplug.Req)
		a := acts[rq.Path]
		if a == nil {
			return pl.OKResp(req), nil
		}
		a.mu.Lock()
		defer a.mu.Unlock()
		o := engine.OOk
		if a.run < len(a.script) && a.att < len(a.script[a.run]) {
			o = a.script[a.run][a.att].O
		}
		if o == engine.OOverrun { // no timeouts here: an overrun is scripted as a transient error
			o = engine.OErr
		}
		outMu.Lock()
		emit("S %s", rq.Path)
		outMu.Unlock()
		time.Sleep(200 * time.Microsecond)
		outMu.Lock()
		emit("E %s %d", rq.Path, int(o))
		outMu.Unlock()
		if o == engine.OOk || o == engine.OPerm || o == engine.OWrongType || a.att+1 > a.retries {
			a.run++
			a.att = 0
		} else {
			a.att++
		}
		switch o {
		case engine.OErr:
			return nil, &plugins.Error{Code: 1, Message: "scripted transient error"}
		case engine.OPerm:
			return nil, &plugins.Error{Code: 2, Message: "scripted permanent error", Permanent: true}
		case engine.OWrongType:
			return hplug.AltResp{Echo: "wrong response type"}, nil
		}
		return pl.OKResp(req), nil
	}
	set := hplug.NewSet()
	set.Action.SetBehaviour(behave)
	set.Check.SetBehaviour(behave)

	ctx := context.Background()
	inner, err := sqlite.New(ctx, "", set.Reg, sqlite.WithInMemory())
	if err != nil {
		emit("! harness sqlite.New: %v", err)
		return 3
	}
	vault := failVault{Vault: inner, k: k, names: names}
	ws, err := coercion.New(ctx, set.Reg, vault)
	if err != nil {
		emit("! harness coercion.New: %v", err)
		return 3
	}
	if err := vault.Create(ctx, plan); err != nil {
		emit("! harness create: %v", err)
		return 3
	}
	if err := ws.Start(ctx, plan.ID); err != nil {
		emit("! harness start: %v", err)
		return 3
	}
	wctx, cancel := context.WithTimeout(ctx, 6*time.Second)
	defer cancel()
	if _, err := ws.Wait(wctx, plan.ID); err != nil {
		outMu.Lock()
		emit("T wait: %v", err)
		outMu.Unlock()
		return 4
	}
	outMu.Lock()
	emit("X")
	outMu.Unlock()
	return 0
}

// ---- parent ---------------------------------------------------------------------------------------------------

type obs struct {
	lines []string
	exit  int
	hung  bool
}

func runChild(p, k int) obs {
	args := []string{"-child", "-plan", strconv.Itoa(p), "-k", strconv.Itoa(k)}
	if quickMode {
		args = append(args, "-quick")
	}
	cmd := exec.Command(os.Args[0], args...)
	cmd.Env = os.Environ()
	op, _ := cmd.StdoutPipe()
	cmd.Stderr = nil
	if err := cmd.Start(); err != nil {
		return obs{exit: -2}
	}
	var o obs
	done := make(chan struct{})
	go func() {
		sc := bufio.NewScanner(op)
		sc.Buffer(make([]byte, 1<<16), 1<<22)
		for sc.Scan() {
			o.lines = append(o.lines, sc.Text())
		}
		close(done)
	}()
	timer := time.AfterFunc(12*time.Second, func() { o.hung = true; cmd.Process.Kill() })
	<-done
	err := cmd.Wait()
	timer.Stop()
	o.exit = 0
	if err != nil {
		o.exit = -1
		var ee *exec.ExitError
		if errors.As(err, &ee) {
			o.exit = ee.ExitCode()
		}
	}
	return o
}

// depends: may plugin `path` not be invoked after the write of object `obj` (kind) failed?
func depends(kind, obj, path string) bool {
	f := strings.Split(obj, "/")
	p := strings.Split(path, "/")
	// a continuous group runs in its own thread, concurrently with the state machine that writes the plan and the
	// blocks: an invocation of it between the failed write and the exit of the process does not depend on that write
	cont := p[0] == "c" && p[2] == strconv.Itoa(engine.GCont)
	switch kind {
	case "plan":
		return !cont
	case "block": // b/<bi>
		return ((p[0] == "s" && p[1] == f[1]) || (p[0] == "c" && p[1] == f[1])) && !cont
	case "seq": // q/<bi>/<si>
		return p[0] == "s" && p[1] == f[1] && p[2] == f[2]
	case "checks": // g/<scope>/<g>
		return p[0] == "c" && p[1] == f[1] && p[2] == f[2]
	case "action":
		if obj == path {
			return true
		}
		if f[0] == "s" && p[0] == "s" && p[1] == f[1] && p[2] == f[2] {
			a, _ := strconv.Atoi(f[3])
			b, _ := strconv.Atoi(p[3])
			return b > a
		}
	}
	return false
}

func main() {
	isChild := flag.Bool("child", false, "internal")
	planIdx := flag.Int("plan", 0, "internal: plan index")
	kFail := flag.Int("k", 0, "internal: fail Update* number k (0 = none)")
	n := flag.Int("n", 40, "number of plans")
	out := flag.String("out", "-", "output file (JSONL)")
	workers := flag.Int("workers", 0, "child processes in parallel (default min(12, NumCPU))")
	quick := flag.Bool("quick", false, "the quick-tier slice: three fixed small plans, every k")
	flag.Parse()
	quickMode = *quick
	if quickMode {
		*n = 3
	}
	seed := core.Seed()
	if *isChild {
		os.Exit(childMain(seed, *planIdx, *kFail))
	}
	w, err := core.NewWriter(*out)
	if err != nil {
		fmt.Fprintln(os.Stderr, err)
		os.Exit(2)
	}
	defer w.Close()
	nw := *workers
	if nw <= 0 {
		nw = min(12, runtime.NumCPU())
	}

	type job struct{ p, k int }
	type res struct {
		job
		o obs
	}
	// dry runs
	dry := make([]obs, *n)
	{
		var wg sync.WaitGroup
		sem := make(chan struct{}, nw)
		for p := 0; p < *n; p++ {
			wg.Add(1)
			sem <- struct{}{}
			go func(p int) { defer wg.Done(); dry[p] = runChild(p, 0); <-sem }(p)
		}
		wg.Wait()
	}
	var jobs []job
	writes := make([]int, *n)
	for p := 0; p < *n; p++ {
		for _, l := range dry[p].lines {
			if strings.HasPrefix(l, "W ") {
				writes[p]++
			}
		}
		released := len(dry[p].lines) > 0 && dry[p].lines[len(dry[p].lines)-1] == "X"
		if dry[p].exit != 0 || !released {
			w.Put(core.Case{ID: fmt.Sprintf("fatal-%d-dry", p), Kind: "dry", Nontrivial: true,
				Dist:     map[string]any{"k": 0, "writes": writes[p], "kind": "dry"},
				Input:    map[string]any{"seed": seed, "plan": p, "k": 0, "spec": spec(seed, p)},
				Observed: map[string]any{"verdict": "dry run did not complete", "exit": dry[p].exit, "log": tail(dry[p].lines, 30)}})
			continue
		}
		for k := 1; k <= writes[p]; k++ {
			jobs = append(jobs, job{p, k})
		}
	}
	results := make([]res, len(jobs))
	{
		var wg sync.WaitGroup
		sem := make(chan struct{}, nw)
		for i, j := range jobs {
			wg.Add(1)
			sem <- struct{}{}
			go func(i int, j job) { defer wg.Done(); results[i] = res{j, runChild(j.p, j.k)}; <-sem }(i, j)
		}
		wg.Wait()
	}
	sort.SliceStable(results, func(a, b int) bool {
		if results[a].p != results[b].p {
			return results[a].p < results[b].p
		}
		return results[a].k < results[b].k
	})
	for _, r := range results {
		sp := spec(seed, r.p)
		isStrict := strict(sp.Shape)
		verdict := "ok"
		failedKind, failedObj := "", ""
		var after []string
		seenF := false
		for _, l := range r.o.lines {
			f := strings.Fields(l)
			if len(f) == 0 {
				continue
			}
			if f[0] == "F" && len(f) >= 4 {
				seenF, failedKind, failedObj = true, f[2], f[3]
				continue
			}
			if !seenF {
				if f[0] == "!" {
					verdict = "harness: " + l
				}
				continue
			}
			after = append(after, l)
			switch f[0] {
			case "X":
				verdict = "Wait returned after the failed write: the failure was not fatal"
			case "S":
				if len(f) >= 2 && (isStrict || depends(failedKind, failedObj, f[1])) && verdict == "ok" {
					verdict = "plugin " + engine.PathHuman(f[1]) + " invoked after the write of " + failedKind + " " + failedObj + " failed"
				}
			}
		}
		switch {
		case !seenF && verdict == "ok":
			verdict = "the injected failure was never reached (schedule-dependent number of writes)"
			if r.o.exit == 0 {
				verdict = "ok" // the run was shorter than the dry run: nothing was injected, nothing to judge
				failedKind = "not-reached"
			}
		case r.o.hung && verdict == "ok":
			verdict = "the process did not exit within 12 s after the failed write"
		case r.o.exit == 0 && verdict == "ok":
			verdict = "the process exited with status 0 after a failed write"
		}
		w.Put(core.Case{
			ID: fmt.Sprintf("fatal-%d-%d", r.p, r.k), Kind: "fail-kth-write", Nontrivial: true,
			Hash: core.Hash(fmt.Sprint(r.p), fmt.Sprint(r.k), failedKind, failedObj, verdict),
			Dist: map[string]any{"k": r.k, "writes": writes[r.p], "kind": failedKind, "strict": isStrict,
				"actions": len(sp.Shape.Actions()), "blocks": len(sp.Shape.Blocks)},
			Input:    map[string]any{"seed": seed, "plan": r.p, "k": r.k, "spec": sp},
			Observed: map[string]any{"verdict": verdict, "exit": r.o.exit, "failed": failedKind + " " + failedObj, "after_failure": after, "log_tail": tail(r.o.lines, 12)},
		})
	}
	fmt.Fprintf(os.Stderr, "c08fatal: plans=%d crash points=%d\n", *n, len(results))
}

func tail(l []string, n int) []string {
	if len(l) > n {
		return l[len(l)-n:]
	}
	return l
}
