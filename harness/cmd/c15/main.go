// c15: drives Exists / Search / List of the real vaults (sqlite in memory, sqlite file-backed, cosmosdb
// over the package's fake client) on generated histories and prints one case per history: the
// mutations with their results, and every observation (result lists in arrival order, error class,
// whether the stream was closed within the deadline). For cosmosdb the fake does not interpret query
// text, so additionally the text and parameters of buildSearchQuery and of List (hooks VerifSearchQuery,
// VerifListQuery) are parsed into the Query.v AST, and the raw search item written by Create / UpdatePlan is read back (hook
// SearchItemRaw); Coq evaluates the AST over those items.
//
// Histories run in worker processes (this binary re-executed with -worker): a panic in a background
// goroutine of the code under test kills only the worker; the parent records it and goes on.
package main

import (
	"bufio"
	"context"
	"encoding/json"
	"errors"
	"flag"
	"fmt"
	"math/big"
	"os"
	"os/exec"
	"path/filepath"
	"runtime/debug"
	"sort"
	"strings"
	"time"

	"verifharness/core"
	"verifharness/hplug"
	"verifharness/plangen"

	"github.com/Azure/azure-sdk-for-go/sdk/azcore"
	"github.com/Azure/azure-sdk-for-go/sdk/data/azcosmos"
	"github.com/element-of-surprise/coercion/workflow"
	"github.com/element-of-surprise/coercion/workflow/storage"
	"github.com/element-of-surprise/coercion/workflow/storage/cosmosdb"
	"github.com/element-of-surprise/coercion/workflow/storage/sqlite"
	"github.com/google/uuid"
)

const (
	swarmName        = "verif-swarm"
	swarmIx          = 1
	streamIdle       = 2 * time.Second        // a stream that delivers nothing and is not closed for this long is NeverClosed
	streamShort      = 300 * time.Millisecond // used after the same kind of call already hung twice in this process
	callTimeout      = 5 * time.Second
	scenarioDeadline = 90 * time.Second
)

// names and descriptions, incl. numeric-looking ones (a column with numeric affinity would rewrite them)
var names = []string{"", "alpha", "beta", "gamma", "007", "1e3", "+15", " 15 ", "12345678901234567890", "0x1F", "1.50"}

// ---------------------------------------------------------------------------------- abstraction

type abs struct {
	ids map[uuid.UUID]int
}

func (a *abs) id(u uuid.UUID) int {
	if u == uuid.Nil {
		return 0
	}
	if i, ok := a.ids[u]; ok {
		return i
	}
	return 999
}

func nameIx(s string) int {
	for i, n := range names {
		if n == s {
			return i
		}
	}
	return 99
}

func statusN(s int64) uint64 {
	if s < 0 {
		return 9999
	}
	return uint64(s)
}

type resultObs struct {
	ID, Group, Name, Descr int
	Submit                 int64
	Status                 int64
	Start, End             string // exact nanoseconds since the Unix epoch (decimal; the zero time is -62135596800000000000)
}

// nanosOf is the instant of t in nanoseconds since the Unix epoch, exactly (Time.UnixNano wraps outside 1678..2262).
func nanosOf(t time.Time) string {
	n := new(big.Int).Mul(big.NewInt(t.Unix()), big.NewInt(1000000000))
	n.Add(n, big.NewInt(int64(t.Nanosecond())))
	return n.String()
}

func bigZ(s string) string {
	if s == "" {
		s = "0"
	}
	return "(" + s + ")%Z"
}

func (r resultObs) term() string {
	return core.App("Build_result", core.N(uint64(r.ID)), core.N(uint64(r.Group)), core.N(uint64(r.Name)), core.N(uint64(r.Descr)),
		core.Z(r.Submit), core.N(statusN(r.Status)), bigZ(r.Start), bigZ(r.End))
}

type rowObs struct {
	resultObs
	Swarm int
}

func (r rowObs) term() string {
	return core.App("Build_row", core.N(uint64(r.ID)), core.N(uint64(r.Group)), core.N(uint64(r.Name)), core.N(uint64(r.Descr)),
		core.Z(r.Submit), core.N(statusN(r.Status)), bigZ(r.Start), bigZ(r.End), core.N(uint64(r.Swarm)))
}

type streamObs struct {
	Class  int         `json:"class"` // 0 channel returned, 1 error returned, 2 panic
	Items  []resultObs `json:"items"`
	Err    bool        `json:"err"`
	Closed bool        `json:"closed"`
	Note   string      `json:"note,omitempty"`
}

func (o streamObs) term() string {
	its := make([]string, len(o.Items))
	for i, it := range o.Items {
		its[i] = it.term()
	}
	return core.App("Build_sobs", core.Nat(o.Class), core.List(its), core.B(o.Err), core.B(o.Closed))
}

type filterSpec struct {
	IDs      []int   `json:"ids"`
	Groups   []int   `json:"groups"`
	Statuses []int64 `json:"statuses"`
}

// nlist prints a list of N; runs of 4 or more consecutive values are written (nrange start n), so that
// a filter with a thousand never-created ids stays a short term.
func nlist(xs []int) string {
	var parts []string
	var lit []string
	flush := func() {
		if len(lit) > 0 {
			parts = append(parts, core.List(lit))
			lit = nil
		}
	}
	for i := 0; i < len(xs); {
		j := i + 1
		for j < len(xs) && xs[j] == xs[j-1]+1 {
			j++
		}
		if j-i >= 4 {
			flush()
			parts = append(parts, core.App("nrange", core.N(uint64(xs[i])), core.Nat(j-i)))
			i = j
			continue
		}
		lit = append(lit, core.N(uint64(xs[i])))
		i++
	}
	flush()
	if len(parts) == 0 {
		return "[]"
	}
	if len(parts) == 1 {
		return parts[0]
	}
	return "(" + strings.Join(parts, " ++ ") + ")"
}

// MarshalJSON keeps long id lists readable in replays: runs are written "a..b".
func (f filterSpec) MarshalJSON() ([]byte, error) {
	ids := any(f.IDs)
	if len(f.IDs) > 40 {
		var parts []string
		for i := 0; i < len(f.IDs); {
			j := i + 1
			for j < len(f.IDs) && f.IDs[j] == f.IDs[j-1]+1 {
				j++
			}
			if j-i >= 3 {
				parts = append(parts, fmt.Sprintf("%d..%d", f.IDs[i], f.IDs[j-1]))
			} else {
				for k := i; k < j; k++ {
					parts = append(parts, fmt.Sprint(f.IDs[k]))
				}
			}
			i = j
		}
		ids = map[string]any{"count": len(f.IDs), "ids": strings.Join(parts, " ")}
	}
	return json.Marshal(map[string]any{"ids": ids, "groups": f.Groups, "statuses": f.Statuses})
}

func (f filterSpec) term() string {
	st := make([]string, len(f.Statuses))
	for i, x := range f.Statuses {
		st[i] = core.N(statusN(x))
	}
	return core.App("Build_filters", nlist(f.IDs), nlist(f.Groups), core.List(st))
}

func (f filterSpec) kind() string {
	k := ""
	if len(f.IDs) > 0 {
		k += "I"
	}
	if len(f.Groups) > 0 {
		k += "G"
	}
	if len(f.Statuses) > 0 {
		k += "S"
	}
	if k == "" {
		k = "empty"
	}
	return k
}

// ---------------------------------------------------------------------------------- vaults

type ctl interface {
	SearchItemRaw(ctx context.Context, id string) ([]byte, error)
	SetReadItemErr(err error)
	SetQueryItemsErr(b bool)
	SetEmptyPages(on bool)
}

type vaultUnderTest struct {
	v       storage.Vault
	cosmos  bool
	ctl     ctl
	cleanup func()
}

// pageSize / emptyPages: cosmosdb only. Query results are handed out in pages of at most pageSize items
// (0 = one page) and, when emptyPages, with an empty page that has a continuation before every non-empty
// page after the first -- what the real service may do.
func openVault(backend string, set *hplug.Set, scratch string, pageSize int, emptyPages bool) (*vaultUnderTest, error) {
	ctx := context.Background()
	switch backend {
	case "sqlite-mem":
		v, err := sqlite.New(ctx, "", set.Reg, sqlite.WithInMemory())
		if err != nil {
			return nil, err
		}
		return &vaultUnderTest{v: v, cleanup: func() { v.Close(ctx) }}, nil
	case "sqlite-file":
		dir, err := os.MkdirTemp(scratch, "c15db")
		if err != nil {
			return nil, err
		}
		v, err := sqlite.New(ctx, dir, set.Reg)
		if err != nil {
			return nil, err
		}
		return &vaultUnderTest{v: v, cleanup: func() { v.Close(ctx); os.RemoveAll(dir) }}, nil
	case "cosmos":
		v, c := cosmosdb.NewFakeVaultOpts(set.Reg, swarmName, pageSize)
		c.SetEmptyPages(emptyPages)
		return &vaultUnderTest{v: v, cosmos: true, ctl: c, cleanup: func() {}}, nil
	}
	return nil, fmt.Errorf("unknown backend %q", backend)
}

// ---------------------------------------------------------------------------------- plans

type planSpec struct {
	Ix     int   `json:"ix"`
	Group  int   `json:"group"`
	Name   int   `json:"name"`
	Descr  int   `json:"descr"`
	Submit int64 `json:"submit"` // Unix seconds; zeroSubmit = the zero time.Time
	Status int64 `json:"status"`
	Start  int64 `json:"start"` // State.Start: Unix seconds (odd seconds carry 500 ms); zeroSubmit = the zero time.Time
	End    int64 `json:"end"`
}

// stateTime turns the generator's second count into the time.Time written as State.Start / State.End.
func stateTime(sec int64) time.Time {
	if sec == zeroSubmit {
		return time.Time{}
	}
	if sec%2 != 0 {
		return time.Unix(sec, 500000000).UTC()
	}
	return time.Unix(sec, 0).UTC()
}

const zeroSubmit = -62135596800

func timeOf(sec int64) time.Time {
	if sec == zeroSubmit {
		return time.Time{}
	}
	return time.Unix(sec, 0).UTC()
}

func (p planSpec) rowTerm() string {
	return rowObs{resultObs{p.Ix, p.Group, p.Name, p.Descr, p.Submit, p.Status, nanosOf(stateTime(p.Start)), nanosOf(stateTime(p.End))}, 0}.term()
}

// build makes a small complete plan (one block, one sequence, one action, sometimes a check group)
// carrying the projection ps. Every call makes fresh child ids; the plan id is fixed by ps.Ix.
func build(r *core.Rand, uu []uuid.UUID, ps planSpec, withChecks bool) *workflow.Plan {
	st := func() *workflow.State { return &workflow.State{} }
	id := func() uuid.UUID { return plangen.V7(r) }
	a := &workflow.Action{ID: id(), Name: "a", Descr: "d", Plugin: hplug.ActionName, Req: hplug.Req{Nonce: "c15"}, State: st()}
	s := &workflow.Sequence{ID: id(), Name: "s", Descr: "d", Actions: []*workflow.Action{a}, State: st()}
	b := &workflow.Block{ID: id(), Name: "b", Descr: "d", Sequences: []*workflow.Sequence{s}, State: st(), Concurrency: 1}
	p := &workflow.Plan{ID: uu[ps.Ix], GroupID: uu[ps.Group], Name: names[ps.Name], Descr: names[ps.Descr],
		Blocks: []*workflow.Block{b}, State: &workflow.State{Status: workflow.Status(ps.Status), Start: stateTime(ps.Start), End: stateTime(ps.End)}, SubmitTime: timeOf(ps.Submit)}
	if ps.Group == 0 {
		p.GroupID = uuid.Nil
	}
	if withChecks {
		ca := &workflow.Action{ID: id(), Name: "c", Descr: "d", Plugin: hplug.CheckName, Req: hplug.Req{Nonce: "c15"}, State: st()}
		p.PreChecks = &workflow.Checks{ID: id(), Actions: []*workflow.Action{ca}, State: st()}
	}
	return p
}

// ---------------------------------------------------------------------------------- observing

type hangs struct{ n map[string]int }

// processHangs is shared by all histories of a worker process: once a kind of call has hung twice in
// this process, later calls of that kind get the short deadline (keeps a run on a broken tree short).
var processHangs = &hangs{n: map[string]int{}}

func (h *hangs) deadline(kind string) time.Duration {
	if h.n[kind] >= 2 {
		return streamShort
	}
	return streamIdle
}

// observeStream calls f (Search or List) and drains the channel. Nothing here can hang the harness:
// the call and the drain run against deadlines; what does not finish is an observation.
func observeStream(a *abs, h *hangs, kind string, f func(ctx context.Context) (chan storage.Stream[storage.ListResult], error)) streamObs {
	return observeStreamCtx(a, h, kind, func() (context.Context, context.CancelFunc) {
		return context.WithTimeout(context.Background(), 30*time.Second)
	}, f)
}

// observeStreamCtx is observeStream under a context of the caller's making (live, already cancelled,
// cancelled a moment after the call starts, expired).
func observeStreamCtx(a *abs, h *hangs, kind string, mk func() (context.Context, context.CancelFunc), f func(ctx context.Context) (chan storage.Stream[storage.ListResult], error)) streamObs {
	type ret struct {
		ch    chan storage.Stream[storage.ListResult]
		err   error
		panic string
	}
	ctx, cancel := mk()
	defer cancel()
	rc := make(chan ret, 1)
	go func() {
		defer func() {
			if r := recover(); r != nil {
				rc <- ret{panic: fmt.Sprintf("%v\n%s", r, debug.Stack())}
			}
		}()
		ch, err := f(ctx)
		rc <- ret{ch: ch, err: err}
	}()
	var r ret
	select {
	case r = <-rc:
	case <-time.After(callTimeout):
		h.n[kind]++
		return streamObs{Class: 2, Note: "call did not return within the deadline"}
	}
	if r.panic != "" {
		return streamObs{Class: 2, Note: "panic: " + firstLines(r.panic, 6)}
	}
	if r.err != nil {
		return streamObs{Class: 1, Note: "error: " + r.err.Error()}
	}
	if r.ch == nil {
		return streamObs{Class: 2, Note: "nil channel and nil error"}
	}
	o := streamObs{Items: []resultObs{}}
	idle := h.deadline(kind)
	t := time.NewTimer(idle)
	defer t.Stop()
	for {
		select {
		case s, ok := <-r.ch:
			if !ok {
				o.Closed = true
				return o
			}
			if s.Err != nil {
				o.Err = true
				if o.Note == "" {
					o.Note = "stream error: " + s.Err.Error()
				}
			} else {
				o.Items = append(o.Items, resultOf(a, s.Result))
			}
			if !t.Stop() {
				select {
				case <-t.C:
				default:
				}
			}
			t.Reset(idle)
		case <-t.C:
			h.n[kind]++
			o.Note = strings.TrimSpace(o.Note + " NeverClosed: no element and no close for " + idle.String())
			return o
		}
	}
}

func resultOf(a *abs, r storage.ListResult) resultObs {
	o := resultObs{ID: a.id(r.ID), Group: a.id(r.GroupID), Name: nameIx(r.Name), Descr: nameIx(r.Descr), Submit: r.SubmitTime.Unix(), Status: -1,
		Start: "7", End: "7"} // 7 ns: no generated time (a nil State)
	if r.State != nil {
		o.Status = int64(r.State.Status)
		o.Start, o.End = nanosOf(r.State.Start), nanosOf(r.State.End)
	}
	return o
}

func firstLines(s string, n int) string {
	l := strings.Split(s, "\n")
	if len(l) > n {
		l = l[:n]
	}
	return strings.Join(l, " | ")
}

// guarded runs a mutation or Exists with a deadline and panic capture. class: 0 ok, 1 error, 2 panic/hang.
func guarded(f func(ctx context.Context) error) (class int, note string) {
	ctx, cancel := context.WithTimeout(context.Background(), 30*time.Second)
	defer cancel()
	done := make(chan [2]string, 1)
	go func() {
		defer func() {
			if r := recover(); r != nil {
				done <- [2]string{"2", fmt.Sprintf("panic: %v | %s", r, firstLines(string(debug.Stack()), 8))}
			}
		}()
		if err := f(ctx); err != nil {
			done <- [2]string{"1", err.Error()}
			return
		}
		done <- [2]string{"0", ""}
	}()
	select {
	case d := <-done:
		return int(d[0][0] - '0'), d[1]
	case <-time.After(callTimeout):
		return 2, "call did not return within the deadline"
	}
}

// searchItem reads the raw search item of plan ix back from the cosmos search partition.
func searchItem(a *abs, vt *vaultUnderTest, u uuid.UUID) (present bool, row rowObs, note string) {
	b, err := vt.ctl.SearchItemRaw(context.Background(), u.String())
	if err != nil {
		return false, rowObs{}, "SearchItemRaw: " + err.Error()
	}
	if len(b) == 0 {
		return false, rowObs{}, ""
	}
	var it struct {
		Swarm       string    `json:"swarm"`
		Name        string    `json:"name"`
		Descr       string    `json:"descr"`
		ID          uuid.UUID `json:"id"`
		GroupID     uuid.UUID `json:"groupID"`
		SubmitTime  time.Time `json:"submitTime"`
		StateStatus int64     `json:"stateStatus"`
		StateStart  time.Time `json:"stateStart"`
		StateEnd    time.Time `json:"stateEnd"`
	}
	if err := json.Unmarshal(b, &it); err != nil {
		return true, rowObs{resultObs: resultObs{ID: 999}}, "search item does not parse: " + err.Error()
	}
	sw := 99
	switch it.Swarm {
	case "":
		sw = 0
	case swarmName:
		sw = swarmIx
	}
	return true, rowObs{resultObs{a.id(it.ID), a.id(it.GroupID), nameIx(it.Name), nameIx(it.Descr), it.SubmitTime.Unix(), it.StateStatus,
		nanosOf(it.StateStart), nanosOf(it.StateEnd)}, sw}, ""
}

// ---------------------------------------------------------------------------------- a history

type stepRec struct {
	Kind  string `json:"kind"`
	Input any    `json:"input,omitempty"`
	Obs   any    `json:"obs,omitempty"`
	Note  string `json:"note,omitempty"`
	term  string
	// volatile: the observation depends on the schedule (contexts cancelled during the call); the verdict does
	// not, and the observation is left out of the history's hash
	volatile bool
	filter   *filterSpec
	limit    *int
}

type scenario struct {
	r       *core.Rand
	backend string
	vt      *vaultUnderTest
	a       *abs
	uu      []uuid.UUID // index -> uuid (0 = Nil)
	h       *hangs
	steps   []stepRec
	live    map[int]planSpec // harness's own bookkeeping, used only to aim the generator
	nPlans  int
	wedged  bool
	index   int
	tier    string
	groups  []int
	unknown []int
	hist    map[string]int
}

func (s *scenario) add(st stepRec) {
	s.steps = append(s.steps, st)
	s.hist["step:"+st.Kind]++
	if strings.Contains(st.Note, "call did not return within the deadline") {
		// the store is wedged (on the original tree: a connection that was never returned): the observation
		// just recorded is the violation; nothing more is asked of this store, every call would hang
		s.wedged = true
	}
}

// skip is true once the store has wedged.
func (s *scenario) skip() bool {
	if s.wedged {
		s.hist["skipped-after-wedge"]++
	}
	return s.wedged
}

func (s *scenario) itemTerm(ix int) (string, any, string) {
	if !s.vt.cosmos {
		return "None", nil, ""
	}
	present, row, note := searchItem(s.a, s.vt, s.uu[ix])
	if !present {
		return "None", nil, note
	}
	return core.Some(row.term()), row, note
}

func (s *scenario) create(ps planSpec) {
	if s.skip() {
		return
	}
	p := build(s.r, s.uu, ps, s.r.Chance(0.3))
	class, note := guarded(func(ctx context.Context) error { return s.vt.v.Create(ctx, p) })
	it, itObs, n2 := s.itemTerm(ps.Ix)
	s.add(stepRec{Kind: "create", Input: ps, Obs: map[string]any{"class": class, "search_item": itObs}, Note: strings.TrimSpace(note + " " + n2),
		term: core.App("TOp", core.App("OCreate", ps.rowTerm()), core.B(class == 0), it)})
	if class == 0 {
		if _, dup := s.live[ps.Ix]; !dup && ps.Ix != 0 {
			if !s.vt.cosmos && ps.Submit < 0 {
				ps.Submit = 0
			}
			s.live[ps.Ix] = ps
		}
	}
}

func (s *scenario) update(ix int, status, submit, start, end int64) {
	if s.skip() {
		return
	}
	ps, ok := s.live[ix]
	if !ok {
		ps = planSpec{Ix: ix, Start: zeroSubmit, End: zeroSubmit}
	}
	up := ps
	up.Status, up.Submit, up.Start, up.End = status, submit, start, end
	p := build(s.r, s.uu, up, false)
	class, note := guarded(func(ctx context.Context) error { return s.vt.v.UpdatePlan(ctx, p) })
	it, itObs, n2 := s.itemTerm(ix)
	s.add(stepRec{Kind: "update", Input: map[string]any{"ix": ix, "status": status, "submit": submit, "start": start, "end": end},
		Obs: map[string]any{"class": class, "search_item": itObs}, Note: strings.TrimSpace(note + " " + n2),
		term: core.App("TOp", core.App("OUpdate", core.N(uint64(ix)), core.N(statusN(status)), core.Z(submit), bigZ(nanosOf(stateTime(start))), bigZ(nanosOf(stateTime(end)))), core.B(class == 0), it)})
	if ok && class == 0 {
		ps.Status, ps.Start, ps.End = status, start, end
		if s.vt.cosmos {
			ps.Submit = submit
		}
		s.live[ix] = ps
	}
}

func (s *scenario) delete(ix int) {
	if s.skip() {
		return
	}
	u := s.uu[ix]
	class, note := guarded(func(ctx context.Context) error { return s.vt.v.Delete(ctx, u) })
	it, itObs, n2 := s.itemTerm(ix)
	s.add(stepRec{Kind: "delete", Input: map[string]any{"ix": ix}, Obs: map[string]any{"class": class, "search_item": itObs}, Note: strings.TrimSpace(note + " " + n2),
		term: core.App("TOp", core.App("ODelete", core.N(uint64(ix))), core.B(class == 0), it)})
	if class == 0 {
		delete(s.live, ix)
	}
}

func (s *scenario) exists(ix int) {
	if s.skip() {
		return
	}
	u := s.uu[ix]
	var got bool
	class, note := guarded(func(ctx context.Context) error {
		var err error
		got, err = s.vt.v.Exists(ctx, u)
		return err
	})
	obs := 2
	if class == 0 {
		obs = 0
		if got {
			obs = 1
		}
	}
	_, isLive := s.live[ix]
	s.hist[fmt.Sprintf("exists:live=%v", isLive)]++
	s.add(stepRec{Kind: "exists", Input: map[string]any{"ix": ix}, Obs: obs, Note: note,
		term: core.App("TExists", core.N(uint64(ix)), core.Nat(obs))})
}

func (s *scenario) filters(f filterSpec) storage.Filters {
	var sf storage.Filters
	for _, i := range f.IDs {
		sf.ByIDs = append(sf.ByIDs, s.uu[i])
	}
	for _, i := range f.Groups {
		sf.ByGroupIDs = append(sf.ByGroupIDs, s.uu[i])
	}
	for _, st := range f.Statuses {
		sf.ByStatus = append(sf.ByStatus, workflow.Status(st))
	}
	return sf
}

func (s *scenario) search(f filterSpec) {
	if s.skip() {
		return
	}
	sf := s.filters(f)
	s.hist["filter:"+f.kind()]++
	if n := len(f.IDs) + len(f.Groups) + len(f.Statuses); n > 40 {
		s.hist[fmt.Sprintf("long-filter:%d-ids:%s", len(f.IDs), f.kind())]++
	} else {
		s.hist[fmt.Sprintf("filter-values:%d", n)]++
	}
	if s.vt.cosmos {
		// the text and parameters the real Cosmos service would receive
		text, params := cosmosdb.VerifSearchQuery(sf)
		q, b, perr := parseCosmos(s.a, text, params)
		s.add(stepRec{Kind: "query-text", Input: f, Obs: map[string]any{"text": text, "params": fmt.Sprint(params)}, Note: perr,
			term: core.App("TQuery", f.term(), q, b), filter: &f})
		// through the fake only a pure id filter (or an invalid one) means anything
		if !(len(f.Groups) == 0 && len(f.Statuses) == 0) {
			return
		}
	}
	o := observeStream(s.a, s.h, s.backend+":search", func(ctx context.Context) (chan storage.Stream[storage.ListResult], error) {
		return s.vt.v.Search(ctx, sf)
	})
	s.hist[fmt.Sprintf("search-results:%d", len(o.Items))]++
	s.add(stepRec{Kind: "search", Input: f, Obs: o, Note: o.Note,
		term: core.App("TSearch", core.B(!s.vt.cosmos), f.term(), o.term()), filter: &f})
}

func (s *scenario) list(limit int) {
	if s.skip() {
		return
	}
	rel := "n"
	switch n := len(s.live); {
	case limit < 0:
		rel = "-1"
	case limit == 0:
		rel = "0"
	case limit == 1:
		rel = "1"
	case limit == n-1:
		rel = "n-1"
	case limit == n+1:
		rel = "n+1"
	case limit < n:
		rel = "<n"
	case limit > n:
		rel = ">n"
	}
	if s.vt.cosmos {
		// the text and parameters the real Cosmos service would receive from List
		var text string
		var params []azcosmos.QueryParameter
		class, note := guarded(func(ctx context.Context) error {
			var err error
			text, params, err = cosmosdb.VerifListQuery(ctx, swarmName, limit)
			return err
		})
		q, b, perr := parseCosmos(s.a, text, params)
		if class != 0 {
			perr = strings.TrimSpace(perr + " VerifListQuery: " + note)
		}
		s.hist["list-text-limit:"+rel]++
		s.add(stepRec{Kind: "list-text", Input: map[string]any{"limit": limit}, Obs: map[string]any{"text": text, "params": fmt.Sprint(params)}, Note: perr,
			term: core.App("TListQuery", core.Z(int64(limit)), q, b), limit: &limit})
	}
	if s.vt.cosmos && limit > 0 {
		// the fake's limit pager asserts p.Value.(int64) on an int and panics: not the code under test
		s.hist["list:skipped-fake-limit"]++
		return
	}
	o := observeStream(s.a, s.h, s.backend+":list", func(ctx context.Context) (chan storage.Stream[storage.ListResult], error) {
		return s.vt.v.List(ctx, limit)
	})
	s.hist["limit:"+rel]++
	s.add(stepRec{Kind: "list", Input: map[string]any{"limit": limit}, Obs: o, Note: o.Note,
		term: core.App("TList", core.B(!s.vt.cosmos), core.Z(int64(limit)), o.term()), limit: &limit})
}

// faults: cosmosdb only. Every point read is answered with an HTTP error status (or a non-HTTP error) and
// Exists is asked about a stored and a never-created id; then every query fails and Search / List are run.
// Nothing is mutated while a fault is set.
func (s *scenario) faults() {
	if !s.vt.cosmos || s.skip() {
		return
	}
	stored := 0
	for ix := 1; ix <= s.nPlans; ix++ {
		if _, ok := s.live[ix]; ok {
			stored = ix
			break
		}
	}
	ids := []int{s.unknown[0]}
	if stored != 0 {
		ids = append(ids, stored)
	}
	codes := []int{404, 409, 410, 412, 429, 500, 503, 0}
	for _, code := range codes {
		var err error = errors.New("verif: injected transport error")
		reply := "RFailed"
		if code != 0 {
			err = &azcore.ResponseError{StatusCode: code, ErrorCode: fmt.Sprintf("injected-%d", code)}
			reply = core.App("RStatus", core.Nat(code))
		}
		s.vt.ctl.SetReadItemErr(err)
		for _, ix := range ids {
			u := s.uu[ix]
			var got bool
			class, note := guarded(func(ctx context.Context) error {
				var e error
				got, e = s.vt.v.Exists(ctx, u)
				return e
			})
			obs := 2
			if class == 0 {
				obs = 0
				if got {
					obs = 1
				}
			}
			s.hist[fmt.Sprintf("exists-fault:%d:stored=%v", code, ix == stored)]++
			s.add(stepRec{Kind: "exists-fault", Input: map[string]any{"ix": ix, "read_answered": code, "stored": ix == stored}, Obs: obs, Note: note,
				term: core.App("TExistsFault", reply, core.N(uint64(ix)), core.Nat(obs))})
		}
	}
	s.vt.ctl.SetReadItemErr(nil)

	s.vt.ctl.SetQueryItemsErr(true)
	f := filterSpec{IDs: ids}
	sf := s.filters(f)
	o := observeStream(s.a, s.h, s.backend+":search-fault", func(ctx context.Context) (chan storage.Stream[storage.ListResult], error) {
		return s.vt.v.Search(ctx, sf)
	})
	s.hist["stream-fault:search"]++
	s.add(stepRec{Kind: "search-fault", Input: f, Obs: o, Note: o.Note, term: core.App("TStreamFault", o.term())})
	o = observeStream(s.a, s.h, s.backend+":list-fault", func(ctx context.Context) (chan storage.Stream[storage.ListResult], error) {
		return s.vt.v.List(ctx, 0)
	})
	s.hist["stream-fault:list"]++
	s.add(stepRec{Kind: "list-fault", Input: map[string]any{"limit": 0}, Obs: o, Note: o.Note, term: core.App("TStreamFault", o.term())})
	s.vt.ctl.SetQueryItemsErr(false)
}

// ctxFamily: Search and List under contexts that are done before or during the call. Expectation (monitor in
// Coq): an error, or a stream closed within the bound whose items are a newest-first prefix of the answer.
// Afterwards the same store must still answer with a live context (a dropped streaming job keeps sqlite's
// only connection: every later call then hangs, which observeStream / guarded report and s.wedged records).
func (s *scenario) ctxFamily() {
	if s.skip() {
		return
	}
	r := s.r
	n := 12
	if s.tier == "thorough" {
		n = 24
	}
	for i := 0; i < n && !s.wedged; i++ {
		mode := i % 3
		var mk func() (context.Context, context.CancelFunc)
		label := ""
		switch mode {
		case 0:
			label = "cancelled-before"
			mk = func() (context.Context, context.CancelFunc) {
				c, cancel := context.WithCancel(context.Background())
				cancel()
				return c, cancel
			}
		case 1:
			d := time.Duration(r.Intn(200)) * time.Microsecond
			label = "cancelled-during"
			mk = func() (context.Context, context.CancelFunc) {
				c, cancel := context.WithCancel(context.Background())
				go func() { time.Sleep(d); cancel() }()
				return c, cancel
			}
		default:
			label = "deadline-expired"
			mk = func() (context.Context, context.CancelFunc) {
				return context.WithDeadline(context.Background(), time.Now().Add(-time.Second))
			}
		}
		if (i/3)%2 == 0 {
			limit := []int{0, -1, 1, len(s.live), len(s.live) + 1}[r.Intn(5)]
			if s.vt.cosmos && limit > 0 {
				limit = 0 // the fake's limit pager panics on an int @limit
			}
			o := observeStreamCtx(s.a, s.h, s.backend+":list-ctx", mk, func(ctx context.Context) (chan storage.Stream[storage.ListResult], error) {
				return s.vt.v.List(ctx, limit)
			})
			s.hist["ctx:list:"+label+":"+ctxOutcome(o)]++
			s.add(stepRec{Kind: "list-ctx", Input: map[string]any{"limit": limit, "context": label}, Obs: o, Note: o.Note, volatile: true,
				term: core.App("TListCtx", core.B(!s.vt.cosmos), core.Z(int64(limit)), o.term())})
		} else {
			kind := 1 + r.Intn(7)
			if s.vt.cosmos {
				kind = 1 // through the fake only id filters mean anything
			}
			f := s.randomFilter(kind, r.Chance(0.5))
			if r.Chance(0.3) && !s.vt.cosmos {
				f = filterSpec{Statuses: []int64{100}}
			}
			sf := s.filters(f)
			o := observeStreamCtx(s.a, s.h, s.backend+":search-ctx", mk, func(ctx context.Context) (chan storage.Stream[storage.ListResult], error) {
				return s.vt.v.Search(ctx, sf)
			})
			s.hist["ctx:search:"+label+":"+ctxOutcome(o)]++
			s.add(stepRec{Kind: "search-ctx", Input: map[string]any{"filter": f, "context": label}, Obs: o, Note: o.Note, volatile: true,
				term: core.App("TSearchCtx", core.B(!s.vt.cosmos), f.term(), o.term())})
		}
	}
	// the store afterwards, live context: complete answers again
	stored := 0
	for ix := 1; ix <= s.nPlans; ix++ {
		if _, ok := s.live[ix]; ok {
			stored = ix
			break
		}
	}
	s.exists(stored)
	if stored != 0 && !s.wedged {
		u := s.uu[stored]
		class, note := guarded(func(ctx context.Context) error { _, err := s.vt.v.Read(ctx, u); return err })
		s.hist[fmt.Sprintf("read-after-ctx:class=%d", class)]++
		if class == 2 {
			// Read is C13's subject; here only "does the store still answer": a hang is recorded through Exists below
			s.add(stepRec{Kind: "exists", Input: map[string]any{"ix": stored, "via": "Read after the context family"}, Obs: 2, Note: note,
				term: core.App("TExists", core.N(uint64(stored)), core.Nat(2))})
		}
	}
	s.list(0)
	if s.vt.cosmos {
		s.search(filterSpec{IDs: []int{stored, s.unknown[0]}})
	} else {
		s.search(filterSpec{Statuses: statusPool})
	}
}

func ctxOutcome(o streamObs) string {
	switch {
	case o.Class == 1:
		return "error"
	case o.Class == 2:
		return "panic-or-hang"
	case !o.Closed:
		return "never-closed"
	case o.Err:
		return fmt.Sprintf("closed-after-error-%d-items", min(len(o.Items), 3))
	}
	return "closed-complete-or-prefix"
}

// pick returns k values drawn from pool (with repetition allowed when dup).
func pick(r *core.Rand, pool []int, k int) []int {
	if len(pool) == 0 {
		return nil
	}
	out := make([]int, 0, k)
	for len(out) < k {
		out = append(out, pool[r.Intn(len(pool))])
	}
	return out
}

var statusPool = []int64{0, 100, 200, 300, 400}

const (
	fillerBase  = 1000
	fillerCount = 1200
)

// longFilter builds a ByIDs list of total entries: never-created ids, with the live plans' ids planted at
// positions around the multiples of 500 (and at the ends), oldest submission first, so that any
// implementation that answers slice by slice returns them in the wrong order; sometimes one live id twice,
// far apart. kind adds group / status filters as in randomFilter.
func (s *scenario) longFilter(total int, kind int) filterSpec {
	r := s.r
	var live []planSpec
	for ix := 1; ix <= s.nPlans; ix++ {
		if ps, ok := s.live[ix]; ok {
			live = append(live, ps)
		}
	}
	sort.SliceStable(live, func(i, j int) bool { return live[i].Submit < live[j].Submit })
	// planting positions, ascending: slice boundaries first, then spread
	cand := []int{0, 499, 500, 501, 999, 1000, 1001, total - 1, 250, 750, total - 2, 1, 498, 502, 998, 1002, 100, 600}
	var pos []int
	seen := map[int]bool{}
	for _, c := range cand {
		if c >= 0 && c < total && !seen[c] && len(pos) < len(live) {
			seen[c] = true
			pos = append(pos, c)
		}
	}
	sort.Ints(pos)
	ids := make([]int, total)
	fill := fillerBase + r.Intn(50)
	pi := 0
	for i := 0; i < total; i++ {
		if pi < len(pos) && pos[pi] == i {
			ids[i] = live[pi].Ix
			pi++
			continue
		}
		ids[i] = fill
		fill++
	}
	if len(live) > 0 && r.Chance(0.3) {
		// the oldest plan's id once more, in the last slice
		p := total - 3
		if !seen[p] {
			ids[p] = live[0].Ix
		}
	}
	f := s.randomFilter(kind&^1, true)
	f.IDs = ids
	return f
}

func (s *scenario) randomFilter(kind int, multi bool) filterSpec {
	r := s.r
	var f filterSpec
	idPool := []int{}
	for i := 1; i <= s.nPlans; i++ {
		idPool = append(idPool, i)
	}
	k := func() int {
		if multi {
			return 2 + r.Intn(3)
		}
		return 1
	}
	if kind&1 != 0 {
		pool := idPool
		if len(pool) == 0 || r.Chance(0.35) {
			pool = append(append([]int{}, pool...), s.unknown...)
		}
		f.IDs = pick(r, pool, k())
		if multi && r.Chance(0.5) {
			f.IDs = append(f.IDs, s.unknown[r.Intn(len(s.unknown))])
		}
	}
	// aim: half of the time draw group / status values from what live plans actually carry
	var liveGroups []int
	var liveStatuses []int64
	for ix := 1; ix <= s.nPlans; ix++ {
		if ps, ok := s.live[ix]; ok {
			liveGroups = append(liveGroups, ps.Group)
			liveStatuses = append(liveStatuses, ps.Status)
		}
	}
	if kind&2 != 0 {
		pool := append([]int{0}, s.groups...)
		if len(liveGroups) > 0 && r.Chance(0.5) {
			pool = liveGroups
		}
		f.Groups = pick(r, pool, k())
		if r.Chance(0.15) {
			f.Groups = append(f.Groups, s.unknown[0]) // a group no plan has
		}
	}
	if kind&4 != 0 {
		pool := statusPool
		if len(liveStatuses) > 0 && r.Chance(0.5) {
			pool = liveStatuses
		} else if r.Chance(0.15) {
			pool = append(append([]int64{}, pool...), 150)
		}
		n := k()
		for i := 0; i < n; i++ {
			f.Statuses = append(f.Statuses, pool[r.Intn(len(pool))])
		}
	}
	return f
}

func (s *scenario) battery(full bool) {
	r := s.r
	// Exists for every id of the pool: live, deleted, never created, nil
	if full {
		for ix := 0; ix <= s.nPlans; ix++ {
			s.exists(ix)
		}
		for _, ix := range s.unknown {
			s.exists(ix)
		}
	} else {
		s.exists(r.Intn(s.nPlans + 1))
		s.exists(s.unknown[0])
	}
	// all 7 non-empty filter-kind combinations, single- and multi-valued
	for kind := 1; kind <= 7; kind++ {
		if full || r.Chance(0.3) {
			s.search(s.randomFilter(kind, false))
			s.search(s.randomFilter(kind, true))
		}
	}
	if full {
		// what crash recovery asks
		s.search(filterSpec{Statuses: []int64{100}})
		// all statuses at once, every id at once
		s.search(filterSpec{Statuses: statusPool})
		all := []int{}
		for i := 1; i <= s.nPlans; i++ {
			all = append(all, i)
		}
		if len(all) > 0 {
			s.search(filterSpec{IDs: all})
		}
		// no filter at all: Filters.Validate
		s.search(filterSpec{})
		// long id lists (more than 500 / 1000 entries), alone and with the other filters
		totals := []int{501, 600, 1100}
		kinds := []int{1, 1, 3, 5, 7}
		// (quick tier: every other history, independent of back end and store size; the O(n^2) placeholder
		// lookup of the model makes these the most expensive terms to evaluate)
		g := s.index / 3
		if s.tier == "thorough" || (g+g/13)%2 == 0 {
			s.search(s.longFilter(totals[(g+g/13)/2%3], kinds[(g/2)%5]))
		}
		if s.tier == "thorough" {
			s.search(s.longFilter(totals[(g+1)%3], kinds[(g+2)%5]))
		}
	}
	n := len(s.live)
	limits := []int{-1, 0, 1, n - 1, n, n + 1}
	if !full {
		limits = []int{limits[r.Intn(len(limits))]}
	}
	seen := map[int]bool{}
	for _, l := range limits {
		if l < -1 || seen[l] {
			continue
		}
		seen[l] = true
		s.list(l)
	}
}

func runScenario(seed uint64, index int, tier string, scratch string) core.Case {
	root := core.NewRand(seed)
	r := root.Fork(uint64(index))
	backends := []string{"sqlite-mem", "sqlite-file", "cosmos"}
	backend := backends[index%3]
	maxPlans := 12
	if tier == "thorough" && index%7 == 6 {
		maxPlans = 30
	}
	nPlans := (index / 3) % 13
	if maxPlans > 12 {
		nPlans = 13 + r.Intn(maxPlans-12)
	}
	set := hplug.NewSet()
	id := fmt.Sprintf("hist-%d", index)
	// cosmosdb paging: page sizes 0 (one page), 1, 2, 3; empty pages in half of the paged histories
	g := index / 3
	pageSize := (g + g/13) % 4
	emptyPages := pageSize > 0 && (g/4+g/13)%2 == 0
	vt, err := openVault(backend, set, scratch, pageSize, emptyPages)
	if err != nil {
		return core.Case{ID: id, Kind: backend, Note: "harness: cannot open vault: " + err.Error()}
	}
	defer func() {
		// Close of a wedged store waits for its connection for ever: bounded, like everything else
		done := make(chan struct{})
		go func() { defer close(done); vt.cleanup() }()
		select {
		case <-done:
		case <-time.After(3 * time.Second):
		}
	}()

	s := &scenario{r: r, backend: backend, vt: vt, a: &abs{ids: map[uuid.UUID]int{}}, h: processHangs,
		live: map[int]planSpec{}, nPlans: nPlans, index: index, tier: tier, hist: map[string]int{}}
	// uuid pool: 0 = Nil, 1..n plan ids, then 2 ids nobody creates, then 3 group ids
	s.uu = []uuid.UUID{uuid.Nil}
	total := nPlans + 2 + 3
	for i := 1; i <= total; i++ {
		u := plangen.V7(r)
		s.uu = append(s.uu, u)
		s.a.ids[u] = i
	}
	s.unknown = []int{nPlans + 1, nPlans + 2}
	s.groups = []int{nPlans + 3, nPlans + 4, nPlans + 5}
	// never-created ids for long ByIDs lists: indices fillerBase .. fillerBase+fillerCount-1
	for len(s.uu) < fillerBase {
		s.uu = append(s.uu, uuid.Nil)
	}
	for k := 0; k < fillerCount; k++ {
		u := plangen.V7(r)
		s.uu = append(s.uu, u)
		s.a.ids[u] = fillerBase + k
	}

	// submit times: a base, second offsets; a small pool gives ties, a wide one distinct times
	base := int64(1704067200) // 2024-01-01T00:00:00Z
	tiePool := 1 + r.Intn(3)
	if r.Chance(0.5) {
		tiePool = 2*nPlans + 3
	}
	submit := func() int64 {
		switch x := r.Intn(20); {
		case x == 0:
			return 0 // the Unix epoch
		case x == 1:
			return -5 // before the epoch (sqlite stores the epoch)
		case x == 2:
			return zeroSubmit // the zero time.Time
		}
		return base + int64(r.Intn(tiePool))*3
	}
	mkSpec := func(ix int) planSpec {
		g := 0
		if !r.Chance(0.25) {
			g = s.groups[r.Intn(len(s.groups))]
		}
		ps := planSpec{Ix: ix, Group: g, Name: r.Intn(len(names)), Descr: r.Intn(len(names)), Submit: submit(),
			Status: statusPool[r.Weighted([]int{3, 3, 2, 2, 1})], Start: zeroSubmit, End: zeroSubmit}
		// a created plan is usually unstarted (zero Start / End); sometimes it carries times already
		if ps.Status != 0 || r.Chance(0.2) {
			ps.Start, ps.End = stateTimes(r, base, ps.Status)
		}
		return ps
	}
	anyStatus := func() int64 {
		if r.Chance(0.05) {
			return 150
		}
		return statusPool[r.Intn(len(statusPool))]
	}

	// probes before anything exists
	s.exists(1 % (nPlans + 1))
	mid := nPlans / 2
	for ix := 1; ix <= nPlans; ix++ {
		if r.Chance(0.2) {
			s.exists(ix) // before creation
		}
		s.create(mkSpec(ix))
		if r.Chance(0.25) {
			s.exists(ix)
		}
		if r.Chance(0.1) {
			s.create(mkSpec(ix)) // duplicate id: must be rejected and change nothing
		}
		// move earlier plans through statuses
		for k := r.Intn(3); k > 0; k-- {
			t := 1 + r.Intn(ix)
			sub := submit()
			if ps, ok := s.live[t]; ok && r.Chance(0.7) {
				sub = ps.Submit // the engine passes the stored submit time back
			}
			st := anyStatus()
			a, b := stateTimes(r, base, st)
			s.update(t, st, sub, a, b)
		}
		if r.Chance(0.12) {
			t := 1 + r.Intn(ix)
			s.delete(t)
			s.exists(t)
			if r.Chance(0.4) {
				s.create(mkSpec(t)) // the id comes back with new content
			}
		}
		if r.Chance(0.05) {
			s.delete(s.unknown[r.Intn(2)]) // never created
		}
		if r.Chance(0.05) && !vt.cosmos {
			// cosmosdb retries a patch of an unknown item with back-off; sqlite updates zero rows
			s.update(s.unknown[r.Intn(2)], anyStatus(), submit(), base+5, base+9)
		}
		if ix == mid && nPlans >= 4 {
			s.battery(false)
		}
	}
	if nPlans == 0 {
		s.create(planSpec{Ix: 0, Status: 100, Submit: base, Start: base + 2, End: zeroSubmit}) // uuid.Nil is rejected
	}
	s.battery(true)
	s.faults()
	s.ctxFamily()

	terms := make([]string, len(s.steps))
	var hparts []string
	for i, st := range s.steps {
		terms[i] = st.term
		if st.volatile {
			hparts = append(hparts, st.Kind)
			continue
		}
		b, _ := json.Marshal(st.Obs)
		hparts = append(hparts, st.term, string(b))
	}
	be := "Sqlite"
	sw := 0
	if vt.cosmos {
		be, sw = "Cosmos", swarmIx
	}
	liveN := len(s.live)
	st := map[string]int{}
	for _, ps := range s.live {
		st[fmt.Sprint(ps.Status)]++
	}
	sub := map[int64]int{}
	ties := 0
	for _, ps := range s.live {
		sub[ps.Submit]++
	}
	for _, c := range sub {
		if c > 1 {
			ties += c
		}
	}
	return core.Case{
		ID: id, Kind: backend,
		Coq:        core.App("Build_case", be, core.N(uint64(sw)), core.List(terms)),
		Nontrivial: liveN >= 2 && len(s.steps) > 10,
		Hash:       core.Hash(hparts...),
		Dist:       map[string]any{"paging": pagingLabel(vt.cosmos, pageSize, emptyPages), "backend": backend, "plans": nPlans, "live": liveN, "steps": len(s.steps), "hist": s.hist, "statuses": st, "tied_plans": ties},
		Input:      map[string]any{"seed": seed, "index": index, "backend": backend, "plans": nPlans, "uuids": uuidStrings(s.uu)},
		Observed:   s.steps,
	}
}

// stateTimes draws State.Start / State.End: distinct, non-zero, Start before End for finished statuses; a
// Running plan has no End; rarely an instant before the epoch or the epoch itself (sqlite: the zero time).
func stateTimes(r *core.Rand, base int64, status int64) (int64, int64) {
	start := base + 100 + int64(r.Intn(400))
	end := start + 1 + int64(r.Intn(300))
	switch x := r.Intn(25); {
	case x == 0:
		start = -7
	case x == 1:
		start = 0
	case x == 2:
		end = zeroSubmit
	}
	if status == 100 && r.Chance(0.8) {
		end = zeroSubmit
	}
	if status == 0 && r.Chance(0.5) {
		start, end = zeroSubmit, zeroSubmit
	}
	return start, end
}

func pagingLabel(cosmos bool, pageSize int, emptyPages bool) string {
	if !cosmos {
		return "n/a (sqlite)"
	}
	return fmt.Sprintf("pageSize=%d emptyPages=%v", pageSize, emptyPages)
}

func uuidStrings(uu []uuid.UUID) []string {
	out := make([]string, len(uu))
	for i, u := range uu {
		out[i] = u.String()
	}
	return out
}

// ---------------------------------------------------------------------------------- processes

func worker(from, to int, tier, out, scratch string) {
	f, err := os.Create(out)
	if err != nil {
		fmt.Fprintln(os.Stderr, err)
		os.Exit(2)
	}
	defer f.Close()
	for i := from; i < to; i++ {
		// nothing may hang the harness: a history that does not finish is a crash observation of the parent
		wd := time.AfterFunc(scenarioDeadline, func() {
			fmt.Fprintf(os.Stderr, "history %d did not finish within %s (hang in the code under test or its clean-up)\n", i, scenarioDeadline)
			os.Exit(3)
		})
		c := runScenario(core.Seed(), i, tier, scratch)
		wd.Stop()
		b, err := json.Marshal(c)
		if err != nil {
			panic(err)
		}
		// one write per finished history: what is in the file when the process dies is complete lines
		f.Write(append(b, '\n'))
	}
}

// witnessS11 is the deterministic witness of known finding S11, run in a process of its own with an
// in-memory sqlite vault of its own (it wedges the store): 4 plans, List with a cancellable context, exactly
// one element taken, context cancelled, no more reads; then Exists with a live context, bounded at 2 s.
// finding_present = that Exists does not return.
func witnessS11() map[string]any {
	out := map[string]any{"witness": "S11"}
	ctx := context.Background()
	set := hplug.NewSet()
	v, err := sqlite.New(ctx, "", set.Reg, sqlite.WithInMemory())
	if err != nil {
		out["what"] = "cannot open the vault: " + err.Error()
		return out
	}
	r := core.NewRand(7)
	uu := []uuid.UUID{uuid.Nil}
	for i := 1; i <= 5; i++ {
		uu = append(uu, plangen.V7(r))
	}
	base := int64(1704067200)
	for i := 1; i <= 4; i++ {
		p := build(r, uu, planSpec{Ix: i, Group: 5, Name: 1, Descr: 2, Submit: base + int64(10*i), Status: 100, Start: base + 100, End: zeroSubmit}, false)
		if err := v.Create(ctx, p); err != nil {
			out["what"] = "cannot create plan: " + err.Error()
			return out
		}
	}
	lctx, cancel := context.WithCancel(ctx)
	ch, err := v.List(lctx, 0)
	if err != nil {
		cancel()
		out["what"] = "List returned an error: " + err.Error()
		return out
	}
	got := 0
	select {
	case s, ok := <-ch:
		if ok && s.Err == nil {
			got = 1
		}
	case <-time.After(2 * time.Second):
	}
	time.Sleep(100 * time.Millisecond) // let the producer put the second row into the slot
	cancel()
	// the consumer stops reading here
	time.Sleep(200 * time.Millisecond)
	done := make(chan string, 1)
	go func() {
		ectx, ecancel := context.WithTimeout(context.Background(), 30*time.Second)
		defer ecancel()
		ok, err := v.Exists(ectx, uu[1])
		done <- fmt.Sprintf("Exists returned (%v, %v)", ok, err)
	}()
	select {
	case d := <-done:
		out["finding_present"] = false
		out["what"] = fmt.Sprintf("4 plans, List(ctx, 0), %d element taken, ctx cancelled, reading stopped; afterwards %s within 2 s", got, d)
	case <-time.After(2 * time.Second):
		out["finding_present"] = true
		out["what"] = fmt.Sprintf("4 plans, List(ctx, 0), %d element taken, ctx cancelled, reading stopped; a following Exists with a live context did not return within 2 s (the producer is blocked in its unconditional error send, the stream is not closed, the only connection is not returned)", got)
	}
	return out
}

func main() {
	n := flag.Int("n", 90, "number of histories")
	out := flag.String("out", "-", "output file (JSONL)")
	isWorker := flag.Bool("worker", false, "internal: run histories [from,to) in this process")
	from := flag.Int("from", 0, "")
	to := flag.Int("to", 0, "")
	tier := flag.String("tier", os.Getenv("VERIF_TIER"), "")
	procs := flag.Int("procs", 6, "worker processes")
	isWitness := flag.Bool("witness-s11", false, "internal: run the S11 witness in this process and print its observation")
	scratch := flag.String("scratch", "", "directory for file-backed stores")
	flag.Parse()
	if *isWitness {
		b, _ := json.Marshal(witnessS11())
		os.Stdout.Write(append(b, '\n'))
		os.Exit(0) // leaves the blocked producer behind
	}
	if *scratch == "" {
		*scratch = filepath.Dir(*out)
		if *out == "-" {
			*scratch = os.TempDir()
		}
	}
	if *isWorker {
		worker(*from, *to, *tier, *out, *scratch)
		return
	}

	// parent: split the index range over worker processes; a worker that dies is restarted after the
	// history it died in, which is recorded as a crash observation.
	type span struct{ from, to int }
	per := (*n + *procs - 1) / *procs
	results := make([][]string, *procs)
	done := make(chan int, *procs)
	for p := 0; p < *procs; p++ {
		go func(p int) {
			defer func() { done <- p }()
			sp := span{p * per, min((p+1)*per, *n)}
			for sp.from < sp.to {
				tmp := filepath.Join(*scratch, fmt.Sprintf("c15-worker-%d-%d.jsonl", p, sp.from))
				cmd := exec.Command(os.Args[0], "-worker", "-from", fmt.Sprint(sp.from), "-to", fmt.Sprint(sp.to), "-tier", *tier, "-out", tmp, "-scratch", *scratch)
				cmd.Env = os.Environ()
				var stderr strings.Builder
				cmd.Stderr = &stderr
				err := cmd.Run()
				lines := readLines(tmp)
				os.Remove(tmp)
				results[p] = append(results[p], lines...)
				sp.from += len(lines)
				if err != nil && sp.from < sp.to {
					c := core.Case{ID: fmt.Sprintf("hist-%d", sp.from), Kind: "crash",
						Note:  "worker process died in this history: " + err.Error() + " | " + firstLines(tail(stderr.String(), 1500), 12),
						Input: map[string]any{"seed": core.Seed(), "index": sp.from}}
					b, _ := json.Marshal(c)
					results[p] = append(results[p], string(b))
					sp.from++
				}
			}
		}(p)
	}
	for p := 0; p < *procs; p++ {
		<-done
	}
	f := os.Stdout
	if *out != "-" && *out != "" {
		var err error
		f, err = os.Create(*out)
		if err != nil {
			fmt.Fprintln(os.Stderr, err)
			os.Exit(2)
		}
		defer f.Close()
	}
	bw := bufio.NewWriterSize(f, 1<<20)
	// the S11 witness, in a child of its own
	{
		wctx, wcancel := context.WithTimeout(context.Background(), 30*time.Second)
		cmd := exec.CommandContext(wctx, os.Args[0], "-witness-s11")
		cmd.Env = os.Environ()
		ob, err := cmd.Output()
		wcancel()
		obs := map[string]any{}
		kind := "witness"
		if err != nil || json.Unmarshal(ob, &obs) != nil || obs["finding_present"] == nil {
			kind = "witness-absent"
			if obs["what"] == nil {
				obs = map[string]any{"witness": "S11", "what": fmt.Sprintf("the witness process gave no observation: %v", err)}
			}
		}
		b, _ := json.Marshal(core.Case{ID: "witness-S11", Kind: kind, Observed: obs,
			Input: map[string]any{"steps": "sqlite in-memory vault; Create x4; List(ctx,0); receive 1; cancel ctx; stop reading; Exists(live ctx) bounded 2 s"}})
		bw.Write(append(b, '\n'))
	}
	for _, rs := range results {
		for _, l := range rs {
			bw.WriteString(l)
			bw.WriteByte('\n')
		}
	}
	bw.Flush()
}

func tail(s string, n int) string {
	if len(s) > n {
		return s[len(s)-n:]
	}
	return s
}

func readLines(path string) []string {
	f, err := os.Open(path)
	if err != nil {
		return nil
	}
	defer f.Close()
	var out []string
	sc := bufio.NewScanner(f)
	sc.Buffer(make([]byte, 1<<20), 1<<28)
	for sc.Scan() {
		l := strings.TrimSpace(sc.Text())
		if l != "" && strings.HasSuffix(l, "}") {
			out = append(out, l)
		}
	}
	return out
}
