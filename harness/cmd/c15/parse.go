package main

// A small parser for the query text cosmosdb's buildSearchQuery emits, producing a term of
// Coercion.Query.Query.query and its binds. It is part of the harness's abstraction (trusted): it
// knows the grammar of the Cosmos SQL subset, with AND binding tighter than OR, and nothing about
// what the code under test is supposed to emit.

import (
	"fmt"
	"strconv"
	"strings"
	"unicode"

	"verifharness/core"

	"github.com/Azure/azure-sdk-for-go/sdk/data/azcosmos"
	"github.com/google/uuid"
)

type tokens struct {
	t []string
	i int
}

func lex(s string) []string {
	var out []string
	i := 0
	for i < len(s) {
		c := rune(s[i])
		switch {
		case unicode.IsSpace(c):
			i++
		case c == '(' || c == ')' || c == ',' || c == '=' || c == ';':
			out = append(out, string(c))
			i++
		default:
			j := i
			for j < len(s) {
				d := rune(s[j])
				if unicode.IsSpace(d) || d == '(' || d == ')' || d == ',' || d == '=' || d == ';' {
					break
				}
				j++
			}
			out = append(out, s[i:j])
			i = j
		}
	}
	return out
}

func (t *tokens) peek() string {
	if t.i < len(t.t) {
		return t.t[t.i]
	}
	return ""
}
func (t *tokens) next() string { s := t.peek(); t.i++; return s }
func (t *tokens) accept(s string) bool {
	if strings.EqualFold(t.peek(), s) {
		t.i++
		return true
	}
	return false
}
func (t *tokens) expect(s string) error {
	if !t.accept(s) {
		return fmt.Errorf("expected %q at token %d, found %q", s, t.i, t.peek())
	}
	return nil
}

func colTerm(s string) (string, error) {
	switch s {
	case "c.id":
		return "CId", nil
	case "c.groupID":
		return "CGroup", nil
	case "c.stateStatus":
		return "CStatus", nil
	case "c.swarm":
		return "CSwarm", nil
	}
	return "", fmt.Errorf("unknown column %q", s)
}

func paramTerm(s string) (string, error) {
	switch {
	case s == "@swarm":
		return "PSwarm", nil
	case s == "@ids":
		return "PIds", nil
	case s == "@group_ids":
		return "PGroups", nil
	case s == "@limit":
		return "PLimit", nil
	case strings.HasPrefix(s, "@status"):
		n, err := strconv.Atoi(s[len("@status"):])
		if err != nil || n < 0 || n > 500 {
			return "", fmt.Errorf("bad parameter %q", s)
		}
		return core.App("PStatus", core.Nat(n)), nil
	}
	return "", fmt.Errorf("unknown parameter %q", s)
}

// or := and { OR and } ; and := atom { AND atom } ; atom := ( or ) | ARRAY_CONTAINS ( @p , col ) | col = @p
func (t *tokens) or() (string, error) {
	l, err := t.and()
	if err != nil {
		return "", err
	}
	for t.accept("OR") {
		r, err := t.and()
		if err != nil {
			return "", err
		}
		l = core.App("COr", l, r)
	}
	return l, nil
}

func (t *tokens) and() (string, error) {
	l, err := t.atom()
	if err != nil {
		return "", err
	}
	for t.accept("AND") {
		r, err := t.atom()
		if err != nil {
			return "", err
		}
		l = core.App("CAnd", l, r)
	}
	return l, nil
}

func (t *tokens) atom() (string, error) {
	if t.accept("(") {
		e, err := t.or()
		if err != nil {
			return "", err
		}
		return e, t.expect(")")
	}
	if t.accept("ARRAY_CONTAINS") {
		if err := t.expect("("); err != nil {
			return "", err
		}
		p, err := paramTerm(t.next())
		if err != nil {
			return "", err
		}
		if err := t.expect(","); err != nil {
			return "", err
		}
		c, err := colTerm(t.next())
		if err != nil {
			return "", err
		}
		return core.App("CContains", p, c), t.expect(")")
	}
	c, err := colTerm(t.next())
	if err != nil {
		return "", err
	}
	if err := t.expect("="); err != nil {
		return "", err
	}
	p, err := paramTerm(t.next())
	if err != nil {
		return "", err
	}
	return core.App("CEq", c, p), nil
}

var wantCols = []string{"c.id", "c.groupID", "c.name", "c.descr", "c.submitTime", "c.stateStatus", "c.stateStart", "c.stateEnd"}

// parseCosmos returns the query term, the binds term, and a note when the text is not in the grammar
// (then the query term says "syntax error": q_where = None).
func parseCosmos(a *abs, text string, params []azcosmos.QueryParameter) (string, string, string) {
	binds := bindsTerm(a, params)
	bad := func(err error) (string, string, string) {
		return core.App("Build_query", "None", "ONone", "None"), binds, "parse: " + err.Error()
	}
	t := &tokens{t: lex(text)}
	if err := t.expect("SELECT"); err != nil {
		return bad(err)
	}
	got := map[string]bool{}
	for {
		got[t.next()] = true
		if !t.accept(",") {
			break
		}
	}
	for _, c := range wantCols {
		if !got[c] {
			return bad(fmt.Errorf("column %s is not selected", c))
		}
	}
	if err := t.expect("FROM"); err != nil {
		return bad(err)
	}
	if err := t.expect("c"); err != nil {
		return bad(err)
	}
	where := core.Some("CTrue")
	if t.accept("WHERE") {
		e, err := t.or()
		if err != nil {
			return bad(err)
		}
		where = core.Some(e)
	}
	order := "ONone"
	if t.accept("ORDER") {
		if err := t.expect("BY"); err != nil {
			return bad(err)
		}
		if err := t.expect("c.submitTime"); err != nil {
			return bad(err)
		}
		switch {
		case t.accept("DESC"):
			order = "OSubmitDesc"
		case t.accept("ASC"):
			order = "OSubmitAsc"
		default:
			order = "OSubmitAsc" // SQL default
		}
	}
	limit := "None"
	if t.accept("OFFSET") {
		if err := t.expect("0"); err != nil {
			return bad(err)
		}
		if err := t.expect("LIMIT"); err != nil {
			return bad(err)
		}
		p, err := paramTerm(t.next())
		if err != nil {
			return bad(err)
		}
		limit = core.Some(p)
	}
	t.accept(";")
	if t.i < len(t.t) {
		return bad(fmt.Errorf("trailing tokens from %q", t.peek()))
	}
	return core.App("Build_query", where, order, limit), binds, ""
}

func bindsTerm(a *abs, params []azcosmos.QueryParameter) string {
	var named []string
	for _, p := range params {
		name, err := paramTerm(p.Name)
		if err != nil {
			name = "(PPos 999)"
		}
		val := "(PV 9999%N)"
		switch v := p.Value.(type) {
		case string:
			switch v {
			case "":
				val = core.App("PV", core.N(0))
			case swarmName:
				val = core.App("PV", core.N(swarmIx))
			default:
				val = core.App("PV", core.N(99))
			}
		case int64:
			val = core.App("PV", core.N(statusN(v)))
		case int:
			val = core.App("PV", core.N(statusN(int64(v))))
		case []uuid.UUID:
			xs := make([]int, len(v))
			for i, u := range v {
				xs[i] = a.id(u)
			}
			val = core.App("PVs", nlist(xs))
		}
		named = append(named, core.Pair(name, val))
	}
	return core.App("Build_binds", "[]", core.List(named))
}
