// smgraph regenerates, from the CURRENT Go source of the repository, a Coq description of the
// engine's state chains (DESIGN.md section 3, "a second, structural tie for the state chain").
//
// It uses go/parser + go/ast + go/printer only (no type checker, no import of the repository), parses
// every non-test file of internal/execute, internal/execute/sm and internal/execute/sm/actions and, for
// every function with the statemachine signature
//
//	func (recv T) M(req statemachine.Request[D]) statemachine.Request[D]
//
// performs a small flow analysis of the value of req.Next (and of "was req.Err assigned") at each
// `return`.  statemachine.Run sets req.Next = nil before it calls a state (execState), runs the state,
// stops if req.Err != nil, otherwise continues with req.Next until it is nil; so the value of req.Next
// at a return statement IS the outgoing edge of the state, a return with no assignment is the edge to
// Nil, and an edge on a path that assigned req.Err may not be followed.
//
// Everything the analysis does not understand fails closed: it becomes an edge to the node Unknown
// (right-hand sides that are not `nil` / `<machine value>.<state method>`, a return of anything but the
// request parameter, named results, whole-value reassignment of the request that is not followed by a
// new assignment of Next, the address of the request being taken, labels/goto/fallthrough, shadowing of
// the request) or an edge flagged `closure` (assignments inside function literals, deferred or not).
// No obligation on the Coq side accepts Unknown or closure edges.
//
// Output: -v FILE (SmGraphGen.v) and -json FILE (the same graph with source positions and guard texts,
// for readable diffs).  Neither output contains paths, line numbers (only the JSON does) or time stamps,
// so the .v file is identical for identical state chains.
package main

import (
	"bytes"
	"encoding/json"
	"flag"
	"fmt"
	"go/ast"
	"go/parser"
	"go/printer"
	"go/token"
	"os"
	"path/filepath"
	"sort"
	"strconv"
	"strings"
)

const smImport = "github.com/gostdlib/base/statemachine"

var pkgDirs = []string{"internal/execute/sm", "internal/execute/sm/actions", "internal/execute"}

// ---------------------------------------------------------------- output model

type Node struct {
	Kind string `json:"kind"` // St | Nil | Unknown | Foreign
	Mach string `json:"machine,omitempty"`
	Name string `json:"name,omitempty"`
	Why  string `json:"why,omitempty"` // for Unknown: what was not understood (not part of the .v file)
}

func (n Node) key() string { return n.Kind + "/" + n.Mach + "/" + n.Name }

func (n Node) String() string {
	switch n.Kind {
	case "St":
		return n.Name
	case "Foreign":
		return n.Mach + "." + n.Name
	case "Nil":
		return "nil"
	}
	return "Unknown"
}

type Edge struct {
	Machine string   `json:"machine"`
	Src     string   `json:"src"`
	Dst     Node     `json:"dst"`
	Err     bool     `json:"err_assigned"`
	Closure bool     `json:"closure"`
	Guards  []string `json:"guards"`
	Assign  string   `json:"assign_at"`
	Ret     string   `json:"return_at"`
}

type Entry struct {
	Func    string `json:"func"`
	Machine string `json:"machine"`
	Dst     Node   `json:"dst"`
	At      string `json:"at"`
}

type Method struct {
	Machine string `json:"machine"`
	Name    string `json:"name"`
	At      string `json:"at"`
}

type Output struct {
	Repo    string   `json:"repo"`
	Methods []Method `json:"methods"`
	Edges   []Edge   `json:"edges"`
	Entries []Entry  `json:"entries"`
}

// ---------------------------------------------------------------- parsed program

type tref struct{ pkg, name string } // a named type of one of the parsed packages

type fileInfo struct {
	pkg     string            // directory key
	file    *ast.File
	imports map[string]string // local name -> import path
}

type program struct {
	fset    *token.FileSet
	repo    string
	files   []*fileInfo
	structs map[tref]map[string]ast.Expr // struct type -> field name -> type expression
	structF map[tref]*fileInfo
	states  map[tref]map[string]*ast.FuncDecl // machine -> state methods
	display map[tref]string
	order   []tref // machines in order of first appearance
}

func (p *program) pos(x token.Pos) string {
	q := p.fset.Position(x)
	rel, err := filepath.Rel(p.repo, q.Filename)
	if err != nil {
		rel = q.Filename
	}
	return rel + ":" + strconv.Itoa(q.Line)
}

func (p *program) text(n ast.Node) string {
	var b bytes.Buffer
	cfg := printer.Config{Mode: printer.RawFormat, Tabwidth: 1}
	if err := cfg.Fprint(&b, p.fset, n); err != nil {
		return "<unprintable>"
	}
	s := strings.Join(strings.Fields(b.String()), " ")
	if len(s) > 200 {
		s = s[:200] + "..."
	}
	return s
}

func importName(path string) string {
	if i := strings.LastIndex(path, "/"); i >= 0 {
		return path[i+1:]
	}
	return path
}

// isSMRequest reports whether e is statemachine.Request[...].
func (fi *fileInfo) isSMRequest(e ast.Expr) bool {
	var x ast.Expr
	switch t := e.(type) {
	case *ast.IndexExpr:
		x = t.X
	case *ast.IndexListExpr:
		x = t.X
	default:
		return false
	}
	sel, ok := x.(*ast.SelectorExpr)
	if !ok || sel.Sel.Name != "Request" {
		return false
	}
	id, ok := sel.X.(*ast.Ident)
	return ok && fi.imports[id.Name] == smImport
}

// isSMRun reports whether call is statemachine.Run(...) / statemachine.Run[T](...).
func (fi *fileInfo) isSMRun(call *ast.CallExpr) bool {
	f := call.Fun
	switch t := f.(type) {
	case *ast.IndexExpr:
		f = t.X
	case *ast.IndexListExpr:
		f = t.X
	}
	sel, ok := f.(*ast.SelectorExpr)
	if !ok || sel.Sel.Name != "Run" {
		return false
	}
	id, ok := sel.X.(*ast.Ident)
	return ok && fi.imports[id.Name] == smImport
}

// namedType resolves a type expression to a named type of the parsed packages (pointers stripped).
func (p *program) namedType(fi *fileInfo, e ast.Expr) (tref, bool) {
	switch t := e.(type) {
	case *ast.StarExpr:
		return p.namedType(fi, t.X)
	case *ast.ParenExpr:
		return p.namedType(fi, t.X)
	case *ast.Ident:
		return tref{fi.pkg, t.Name}, true
	case *ast.SelectorExpr:
		id, ok := t.X.(*ast.Ident)
		if !ok {
			return tref{}, false
		}
		path, ok := fi.imports[id.Name]
		if !ok {
			return tref{}, false
		}
		for _, d := range pkgDirs {
			if strings.HasSuffix(path, "/"+d) {
				return tref{d, t.Sel.Name}, true
			}
		}
	}
	return tref{}, false
}

func load(repo string) (*program, error) {
	p := &program{fset: token.NewFileSet(), repo: repo,
		structs: map[tref]map[string]ast.Expr{}, structF: map[tref]*fileInfo{},
		states: map[tref]map[string]*ast.FuncDecl{}, display: map[tref]string{}}
	for _, d := range pkgDirs {
		dir := filepath.Join(repo, d)
		ents, err := os.ReadDir(dir)
		if err != nil {
			return nil, err
		}
		var names []string
		for _, e := range ents {
			n := e.Name()
			if e.IsDir() || !strings.HasSuffix(n, ".go") || strings.HasSuffix(n, "_test.go") {
				continue
			}
			names = append(names, n)
		}
		sort.Strings(names)
		for _, n := range names {
			f, err := parser.ParseFile(p.fset, filepath.Join(dir, n), nil, parser.SkipObjectResolution)
			if err != nil {
				return nil, err
			}
			fi := &fileInfo{pkg: d, file: f, imports: map[string]string{}}
			for _, im := range f.Imports {
				path, _ := strconv.Unquote(im.Path.Value)
				name := importName(path)
				if im.Name != nil {
					name = im.Name.Name
				}
				fi.imports[name] = path
			}
			p.files = append(p.files, fi)
		}
	}
	// struct types
	for _, fi := range p.files {
		for _, d := range fi.file.Decls {
			gd, ok := d.(*ast.GenDecl)
			if !ok || gd.Tok != token.TYPE {
				continue
			}
			for _, s := range gd.Specs {
				ts := s.(*ast.TypeSpec)
				st, ok := ts.Type.(*ast.StructType)
				if !ok {
					continue
				}
				m := map[string]ast.Expr{}
				for _, f := range st.Fields.List {
					for _, n := range f.Names {
						m[n.Name] = f.Type
					}
				}
				p.structs[tref{fi.pkg, ts.Name.Name}] = m
				p.structF[tref{fi.pkg, ts.Name.Name}] = fi
			}
		}
	}
	// state methods
	for _, fi := range p.files {
		for _, d := range fi.file.Decls {
			fd, ok := d.(*ast.FuncDecl)
			if !ok || !p.isStateFunc(fi, fd) {
				continue
			}
			m := tref{fi.pkg, "(func)"}
			if fd.Recv != nil && len(fd.Recv.List) == 1 {
				if t, ok := p.namedType(fi, fd.Recv.List[0].Type); ok {
					m = t
				} else {
					m = tref{fi.pkg, "(unknown receiver)"}
				}
			}
			if p.states[m] == nil {
				p.states[m] = map[string]*ast.FuncDecl{}
				p.order = append(p.order, m)
			}
			p.states[m][fd.Name.Name] = fd
		}
	}
	// display names: the bare type name unless two packages use the same one
	count := map[string]int{}
	for _, m := range p.order {
		count[m.name]++
	}
	for _, m := range p.order {
		if count[m.name] > 1 {
			p.display[m] = importName(m.pkg) + "." + m.name
		} else {
			p.display[m] = m.name
		}
	}
	return p, nil
}

func (p *program) isStateFunc(fi *fileInfo, fd *ast.FuncDecl) bool {
	t := fd.Type
	if t.Params == nil || t.Results == nil || len(t.Params.List) != 1 || len(t.Results.List) != 1 {
		return false
	}
	if len(t.Params.List[0].Names) > 1 || len(t.Results.List[0].Names) > 1 {
		return false
	}
	return fi.isSMRequest(t.Params.List[0].Type) && fi.isSMRequest(t.Results.List[0].Type)
}

// ---------------------------------------------------------------- expression resolution inside a function

type funcCtx struct {
	p    *program
	fi   *fileInfo
	fd   *ast.FuncDecl
	recv string // receiver variable name ("" if none)
	rt   tref   // receiver type
	hasR bool
}

func (p *program) newFuncCtx(fi *fileInfo, fd *ast.FuncDecl) *funcCtx {
	c := &funcCtx{p: p, fi: fi, fd: fd}
	if fd.Recv != nil && len(fd.Recv.List) == 1 {
		if t, ok := p.namedType(fi, fd.Recv.List[0].Type); ok {
			c.rt, c.hasR = t, true
			if len(fd.Recv.List[0].Names) == 1 {
				c.recv = fd.Recv.List[0].Names[0].Name
			}
		}
	}
	return c
}

func (c *funcCtx) funcName() string {
	if c.hasR {
		return c.rt.name + "." + c.fd.Name.Name
	}
	return c.fd.Name.Name
}

// assignedValues collects every expression assigned to the local variable `name` anywhere in the
// function (x := e, x = e, var x = e). ok=false if some assignment cannot be attributed (tuple call...).
func (c *funcCtx) assignedValues(name string) (vals []ast.Expr, typed []ast.Expr, ok bool) {
	ok = true
	ast.Inspect(c.fd, func(n ast.Node) bool {
		switch s := n.(type) {
		case *ast.AssignStmt:
			for i, l := range s.Lhs {
				id, isId := l.(*ast.Ident)
				if !isId || id.Name != name {
					continue
				}
				if len(s.Rhs) == len(s.Lhs) {
					vals = append(vals, s.Rhs[i])
				} else {
					ok = false
				}
			}
		case *ast.ValueSpec:
			for i, id := range s.Names {
				if id.Name != name {
					continue
				}
				if s.Type != nil {
					typed = append(typed, s.Type)
				}
				if len(s.Values) == len(s.Names) {
					vals = append(vals, s.Values[i])
				} else if len(s.Values) != 0 {
					ok = false
				}
			}
		case *ast.RangeStmt:
			for _, l := range []ast.Expr{s.Key, s.Value} {
				if id, isId := l.(*ast.Ident); isId && id.Name == name {
					ok = false
				}
			}
		}
		return true
	})
	if c.fd.Type.Params != nil {
		for _, f := range c.fd.Type.Params.List {
			for _, id := range f.Names {
				if id.Name == name {
					typed = append(typed, f.Type)
				}
			}
		}
	}
	return
}

// typeOf resolves, syntactically, the named type of an expression denoting a machine value.
func (c *funcCtx) typeOf(e ast.Expr, depth int) (tref, bool) {
	if depth > 6 {
		return tref{}, false
	}
	switch t := e.(type) {
	case *ast.ParenExpr:
		return c.typeOf(t.X, depth+1)
	case *ast.UnaryExpr:
		if t.Op == token.AND {
			return c.typeOf(t.X, depth+1)
		}
	case *ast.StarExpr:
		return c.typeOf(t.X, depth+1)
	case *ast.CompositeLit:
		if t.Type != nil {
			return c.p.namedType(c.fi, t.Type)
		}
	case *ast.Ident:
		if c.recv != "" && t.Name == c.recv {
			return c.rt, true
		}
		vals, typed, ok := c.assignedValues(t.Name)
		if !ok {
			return tref{}, false
		}
		var res *tref
		for _, ty := range typed {
			r, ok := c.p.namedType(c.fi, ty)
			if !ok || (res != nil && *res != r) {
				return tref{}, false
			}
			res = &r
		}
		for _, v := range vals {
			r, ok := c.typeOf(v, depth+1)
			if !ok || (res != nil && *res != r) {
				return tref{}, false
			}
			res = &r
		}
		if res == nil {
			return tref{}, false
		}
		return *res, true
	case *ast.SelectorExpr:
		xt, ok := c.typeOf(t.X, depth+1)
		if !ok {
			return tref{}, false
		}
		fields, ok := c.p.structs[xt]
		if !ok {
			return tref{}, false
		}
		ft, ok := fields[t.Sel.Name]
		if !ok {
			return tref{}, false
		}
		return c.p.namedType(c.p.structF[xt], ft)
	}
	return tref{}, false
}

type target struct {
	mach tref
	ok   bool // mach known
	node Node
}

// resolve maps the right-hand side of a Next assignment to the possible targets.
func (c *funcCtx) resolve(e ast.Expr, depth int) []target {
	unknown := func(why string) []target {
		return []target{{node: Node{Kind: "Unknown", Why: why + ": " + c.p.text(e)}}}
	}
	if depth > 4 {
		return unknown("too deep")
	}
	switch t := e.(type) {
	case *ast.ParenExpr:
		return c.resolve(t.X, depth+1)
	case *ast.Ident:
		if t.Name == "nil" {
			return []target{{node: Node{Kind: "Nil"}}}
		}
		vals, _, ok := c.assignedValues(t.Name)
		if !ok || len(vals) == 0 {
			return unknown("not a state method value")
		}
		var out []target
		for _, v := range vals {
			out = append(out, c.resolve(v, depth+1)...)
		}
		return out
	case *ast.SelectorExpr:
		mt, ok := c.typeOf(t.X, 0)
		if !ok {
			return unknown("receiver type not resolved")
		}
		ms, ok := c.p.states[mt]
		if !ok || ms[t.Sel.Name] == nil {
			return unknown("not a state method of " + mt.name)
		}
		return []target{{mach: mt, ok: true, node: Node{Kind: "St", Mach: c.p.display[mt], Name: t.Sel.Name}}}
	}
	return unknown("unsupported expression")
}

// ---------------------------------------------------------------- flow analysis of one state method

type guard struct {
	text string
}

type val struct {
	dst    Node
	ag     []*guard // guard chain at the assignment
	assign token.Pos
}

type state struct {
	vals []val
	err  bool
}

func (s *state) clone() *state {
	if s == nil {
		return nil
	}
	return &state{vals: append([]val(nil), s.vals...), err: s.err}
}

func valKey(v val) string {
	k := v.dst.key() + "@" + strconv.Itoa(int(v.assign))
	for _, g := range v.ag {
		k += fmt.Sprintf("/%p", g)
	}
	return k
}

func merge(a, b *state) *state {
	if a == nil {
		return b.clone()
	}
	if b == nil {
		return a.clone()
	}
	out := a.clone()
	seen := map[string]bool{}
	for _, v := range out.vals {
		seen[valKey(v)] = true
	}
	for _, v := range b.vals {
		if !seen[valKey(v)] {
			seen[valKey(v)] = true
			out.vals = append(out.vals, v)
		}
	}
	out.err = a.err || b.err
	return out
}

func sameState(a, b *state) bool {
	if a == nil || b == nil {
		return a == b
	}
	if a.err != b.err || len(a.vals) != len(b.vals) {
		return false
	}
	m := map[string]bool{}
	for _, v := range a.vals {
		m[valKey(v)] = true
	}
	for _, v := range b.vals {
		if !m[valKey(v)] {
			return false
		}
	}
	return true
}

type frame struct {
	loop bool
	brk  *state
	cont *state
}

type analyzer struct {
	c       *funcCtx
	req     string
	mach    tref
	src     string
	frames  []*frame
	guards  map[string]*guard // one guard object per (position, polarity, text)
	edges   map[string]*Edge
	order   []string
	entries *[]Entry
}

func (a *analyzer) g(pos token.Pos, text string) *guard {
	k := strconv.Itoa(int(pos)) + "|" + text
	if x, ok := a.guards[k]; ok {
		return x
	}
	x := &guard{text: text}
	a.guards[k] = x
	return x
}

func (a *analyzer) nodeFor(t target) Node {
	if t.node.Kind == "St" && (!t.ok || t.mach != a.mach) {
		return Node{Kind: "Foreign", Mach: t.node.Mach, Name: t.node.Name}
	}
	if t.node.Kind == "St" {
		return Node{Kind: "St", Name: t.node.Name}
	}
	return t.node
}

func (a *analyzer) emit(v val, err, closure bool, rg []*guard, ret token.Pos) {
	// guards of the edge: chain at the assignment, then the part of the chain at the return that is not shared
	n := 0
	for n < len(v.ag) && n < len(rg) && v.ag[n] == rg[n] {
		n++
	}
	var gs []string
	for _, x := range v.ag {
		gs = append(gs, x.text)
	}
	for _, x := range rg[n:] {
		gs = append(gs, x.text)
	}
	if gs == nil {
		gs = []string{}
	}
	e := &Edge{Machine: a.c.p.display[a.mach], Src: a.src, Dst: v.dst, Err: err, Closure: closure, Guards: gs,
		Ret: a.c.p.pos(ret)}
	if v.assign.IsValid() {
		e.Assign = a.c.p.pos(v.assign)
	} else {
		e.Assign = "(entry: statemachine.Run clears Next before calling the state)"
	}
	k := fmt.Sprintf("%010d|%010d|%s|%v|%v|%s", ret, v.assign, v.dst.key(), err, closure, strings.Join(gs, "&&"))
	if _, ok := a.edges[k]; !ok {
		a.edges[k] = e
		a.order = append(a.order, k)
	}
}

func (a *analyzer) poison(why string, at token.Pos) {
	a.emit(val{dst: Node{Kind: "Unknown", Why: why}, ag: []*guard{a.g(at, "unsupported: "+why)}, assign: at}, true, false, nil, at)
}

func (a *analyzer) isReq(e ast.Expr) bool {
	id, ok := e.(*ast.Ident)
	return ok && id.Name == a.req
}

func (a *analyzer) isReqField(e ast.Expr, field string) bool {
	s, ok := e.(*ast.SelectorExpr)
	return ok && s.Sel.Name == field && a.isReq(s.X)
}

func isNilIdent(e ast.Expr) bool {
	id, ok := e.(*ast.Ident)
	return ok && id.Name == "nil"
}

// runCalls records sub-machine launches statemachine.Run(_, req) found in the expressions of a statement
// (function literals are not entered).
func (a *analyzer) runCalls(n ast.Node, st *state) {
	ast.Inspect(n, func(x ast.Node) bool {
		switch c := x.(type) {
		case *ast.FuncLit:
			return false
		case *ast.CallExpr:
			if a.c.fi.isSMRun(c) && len(c.Args) >= 2 && a.isReq(c.Args[1]) {
				for _, v := range st.vals {
					a.addEntry(v.dst, c.Pos())
				}
			}
		}
		return true
	})
}

func (a *analyzer) addEntry(n Node, at token.Pos) {
	m := n.Mach
	if n.Kind == "St" {
		m = a.c.p.display[a.mach]
	}
	if n.Kind == "Nil" || n.Kind == "Unknown" {
		m = "?"
	}
	d := n
	if d.Kind == "Foreign" {
		d = Node{Kind: "St", Name: n.Name}
	}
	*a.entries = append(*a.entries, Entry{Func: a.c.funcName(), Machine: m, Dst: d, At: a.c.p.pos(at)})
}

func isPanic(s ast.Stmt) bool {
	es, ok := s.(*ast.ExprStmt)
	if !ok {
		return false
	}
	call, ok := es.X.(*ast.CallExpr)
	if !ok {
		return false
	}
	id, ok := call.Fun.(*ast.Ident)
	return ok && id.Name == "panic"
}

// block analyses a statement list; returns the fall-through state (nil = does not fall through).
func (a *analyzer) block(list []ast.Stmt, st *state, chain []*guard) *state {
	chain = append([]*guard(nil), chain...)
	for _, s := range list {
		if st == nil {
			return nil // unreachable code
		}
		var extra []*guard
		st, extra = a.stmt(s, st, chain)
		chain = append(chain, extra...)
	}
	return st
}

func with(chain []*guard, g *guard) []*guard {
	out := append([]*guard(nil), chain...)
	return append(out, g)
}

// stmt analyses one statement. The second result are guards that hold for the REST of the enclosing
// block (e.g. !(c) after `if c { ...; return }`).
func (a *analyzer) stmt(s ast.Stmt, st *state, chain []*guard) (*state, []*guard) {
	switch t := s.(type) {
	case nil:
		return st, nil
	case *ast.EmptyStmt, *ast.IncDecStmt, *ast.SendStmt, *ast.GoStmt, *ast.DeferStmt:
		return st, nil
	case *ast.DeclStmt:
		if gd, ok := t.Decl.(*ast.GenDecl); ok {
			for _, sp := range gd.Specs {
				if vs, ok := sp.(*ast.ValueSpec); ok {
					for _, id := range vs.Names {
						if id.Name == a.req {
							a.poison("request parameter shadowed by a declaration", id.Pos())
						}
					}
				}
			}
		}
		return st, nil
	case *ast.ExprStmt:
		a.runCalls(t, st)
		if isPanic(t) {
			return nil, nil
		}
		return st, nil
	case *ast.AssignStmt:
		a.runCalls(t, st)
		st = st.clone()
		for i, l := range t.Lhs {
			var rhs ast.Expr
			if len(t.Rhs) == len(t.Lhs) {
				rhs = t.Rhs[i]
			}
			switch {
			case a.isReqField(l, "Next"):
				if rhs == nil || t.Tok != token.ASSIGN {
					st.vals = []val{{dst: Node{Kind: "Unknown", Why: "Next assigned from a tuple or with an operator: " + a.c.p.text(t)}, ag: chain, assign: t.Pos()}}
					continue
				}
				st.vals = nil
				for _, tg := range a.c.resolve(rhs, 0) {
					st.vals = append(st.vals, val{dst: a.nodeFor(tg), ag: chain, assign: t.Pos()})
				}
			case a.isReqField(l, "Err"):
				st.err = !(rhs != nil && isNilIdent(rhs))
			case a.isReq(l):
				if t.Tok == token.DEFINE {
					a.poison("request parameter shadowed by :=", t.Pos())
				}
				st.vals = []val{{dst: Node{Kind: "Unknown", Why: "request reassigned as a whole: " + a.c.p.text(t)}, ag: chain, assign: t.Pos()}}
				st.err = true
			}
		}
		return st, nil
	case *ast.ReturnStmt:
		if len(t.Results) == 1 && a.isReq(t.Results[0]) {
			for _, v := range st.vals {
				a.emit(v, st.err, false, chain, t.Pos())
			}
		} else {
			why := "return of something other than the request parameter: " + a.c.p.text(t)
			a.emit(val{dst: Node{Kind: "Unknown", Why: why}, ag: chain, assign: t.Pos()}, true, false, chain, t.Pos())
		}
		return nil, nil
	case *ast.BlockStmt:
		return a.block(t.List, st, chain), nil
	case *ast.LabeledStmt:
		a.poison("labeled statement", t.Pos())
		return a.stmt(t.Stmt, st, chain)
	case *ast.BranchStmt:
		if t.Label != nil || t.Tok == token.GOTO || t.Tok == token.FALLTHROUGH {
			a.poison(t.Tok.String()+" with label / goto / fallthrough", t.Pos())
			return st, nil
		}
		for i := len(a.frames) - 1; i >= 0; i-- {
			f := a.frames[i]
			if t.Tok == token.BREAK {
				f.brk = merge(f.brk, st)
				return nil, nil
			}
			if f.loop {
				f.cont = merge(f.cont, st)
				return nil, nil
			}
		}
		a.poison("break/continue outside a loop", t.Pos())
		return nil, nil
	case *ast.IfStmt:
		if t.Init != nil {
			st, _ = a.stmt(t.Init, st, chain)
			if st == nil {
				return nil, nil
			}
		}
		a.runCalls(t.Cond, st)
		cond := a.c.p.text(t.Cond)
		gT := a.g(t.Cond.Pos(), cond)
		gF := a.g(t.Cond.Pos(), "!("+cond+")")
		thenS := a.block(t.Body.List, st.clone(), with(chain, gT))
		var elseS *state
		switch e := t.Else.(type) {
		case nil:
			elseS = st.clone()
		case *ast.BlockStmt:
			elseS = a.block(e.List, st.clone(), with(chain, gF))
		default:
			elseS, _ = a.stmt(e, st.clone(), with(chain, gF))
		}
		var extra []*guard
		if thenS == nil && elseS != nil {
			extra = []*guard{gF}
		} else if elseS == nil && thenS != nil {
			extra = []*guard{gT}
		}
		return merge(thenS, elseS), extra
	case *ast.ForStmt:
		if t.Init != nil {
			st, _ = a.stmt(t.Init, st, chain)
		}
		text := "for"
		if t.Cond != nil {
			text = "for " + a.c.p.text(t.Cond)
		}
		return a.loop(t.Body, t.Post, st, with(chain, a.g(t.Pos(), text)), t.Cond == nil), nil
	case *ast.RangeStmt:
		return a.loop(t.Body, nil, st, with(chain, a.g(t.Pos(), "range "+a.c.p.text(t.X))), false), nil
	case *ast.SwitchStmt:
		if t.Init != nil {
			st, _ = a.stmt(t.Init, st, chain)
		}
		tag := ""
		if t.Tag != nil {
			tag = a.c.p.text(t.Tag)
		}
		return a.clauses(t.Body, st, chain, func(cc *ast.CaseClause) string {
			var xs []string
			for _, e := range cc.List {
				xs = append(xs, a.c.p.text(e))
			}
			switch {
			case cc.List == nil && tag == "":
				return "switch: default"
			case cc.List == nil:
				return "switch " + tag + ": default"
			case tag == "":
				return strings.Join(xs, " || ")
			case len(xs) == 1:
				return tag + " == " + xs[0]
			}
			return tag + " in (" + strings.Join(xs, ", ") + ")"
		}), nil
	case *ast.TypeSwitchStmt:
		if t.Init != nil {
			st, _ = a.stmt(t.Init, st, chain)
		}
		tag := a.c.p.text(t.Assign)
		return a.clauses(t.Body, st, chain, func(cc *ast.CaseClause) string {
			var xs []string
			for _, e := range cc.List {
				xs = append(xs, a.c.p.text(e))
			}
			if cc.List == nil {
				return "type switch " + tag + ": default"
			}
			return "type switch " + tag + ": case " + strings.Join(xs, ", ")
		}), nil
	case *ast.SelectStmt:
		fr := &frame{}
		a.frames = append(a.frames, fr)
		var out *state
		for _, c := range t.Body.List {
			cc := c.(*ast.CommClause)
			text := "select: default"
			if cc.Comm != nil {
				text = "select: case " + a.c.p.text(cc.Comm)
			}
			in := st.clone()
			ch := with(chain, a.g(cc.Pos(), text))
			if cc.Comm != nil {
				in, _ = a.stmt(cc.Comm, in, ch)
			}
			out = merge(out, a.block(cc.Body, in, ch))
		}
		a.frames = a.frames[:len(a.frames)-1]
		return merge(out, fr.brk), nil
	}
	a.poison("unsupported statement "+fmt.Sprintf("%T", s), s.Pos())
	return st, nil
}

// clauses handles the clause list of a switch / type switch.
func (a *analyzer) clauses(body *ast.BlockStmt, st *state, chain []*guard, text func(*ast.CaseClause) string) *state {
	if st == nil {
		return nil
	}
	fr := &frame{}
	a.frames = append(a.frames, fr)
	var out *state
	hasDefault := false
	for _, c := range body.List {
		cc := c.(*ast.CaseClause)
		if cc.List == nil {
			hasDefault = true
		}
		out = merge(out, a.block(cc.Body, st.clone(), with(chain, a.g(cc.Pos(), text(cc)))))
	}
	a.frames = a.frames[:len(a.frames)-1]
	if !hasDefault {
		out = merge(out, st)
	}
	return merge(out, fr.brk)
}

// loop iterates the body to a fixed point (the abstract states are finite sets, growing monotonically).
func (a *analyzer) loop(body *ast.BlockStmt, post ast.Stmt, in *state, chain []*guard, infinite bool) *state {
	if in == nil {
		return nil
	}
	head := in.clone()
	var brk *state
	for iter := 0; iter < 50; iter++ {
		fr := &frame{loop: true}
		a.frames = append(a.frames, fr)
		fall := a.block(body.List, head.clone(), chain)
		a.frames = a.frames[:len(a.frames)-1]
		back := merge(fall, fr.cont)
		if back != nil && post != nil {
			back, _ = a.stmt(post, back, chain)
		}
		brk = merge(brk, fr.brk)
		next := merge(head, back)
		if sameState(next, head) {
			break
		}
		head = next
	}
	if infinite {
		return brk // `for { }` is left only by break
	}
	return merge(head, brk)
}

// closures reports assignments to the request made inside function literals, and &req anywhere.
func (a *analyzer) closures(body *ast.BlockStmt) {
	var inLit func(n ast.Node)
	inLit = func(n ast.Node) {
		ast.Inspect(n, func(x ast.Node) bool {
			as, ok := x.(*ast.AssignStmt)
			if !ok {
				return true
			}
			for i, l := range as.Lhs {
				cg := []*guard{a.g(as.Pos(), "inside a function literal")}
				switch {
				case a.isReqField(l, "Next"):
					if len(as.Rhs) == len(as.Lhs) {
						for _, tg := range a.c.resolve(as.Rhs[i], 0) {
							a.emit(val{dst: a.nodeFor(tg), ag: cg, assign: as.Pos()}, false, true, nil, as.Pos())
						}
					} else {
						a.emit(val{dst: Node{Kind: "Unknown", Why: "tuple assignment to Next in a function literal"}, ag: cg, assign: as.Pos()}, false, true, nil, as.Pos())
					}
				case a.isReq(l) && as.Tok == token.ASSIGN:
					a.emit(val{dst: Node{Kind: "Unknown", Why: "request reassigned inside a function literal"}, ag: cg, assign: as.Pos()}, true, true, nil, as.Pos())
				case a.isReqField(l, "Err"):
					a.emit(val{dst: Node{Kind: "Unknown", Why: "req.Err assigned inside a function literal"}, ag: cg, assign: as.Pos()}, true, true, nil, as.Pos())
				}
			}
			return true
		})
	}
	ast.Inspect(body, func(x ast.Node) bool {
		switch t := x.(type) {
		case *ast.FuncLit:
			inLit(t.Body)
			return false
		case *ast.UnaryExpr:
			if t.Op == token.AND && a.isReq(t.X) {
				a.poison("address of the request taken", t.Pos())
			}
		}
		return true
	})
}

func (p *program) analyzeMethod(fi *fileInfo, m tref, fd *ast.FuncDecl, entries *[]Entry) []Edge {
	a := &analyzer{c: p.newFuncCtx(fi, fd), mach: m, src: fd.Name.Name, guards: map[string]*guard{},
		edges: map[string]*Edge{}, entries: entries}
	par := fd.Type.Params.List[0]
	if len(par.Names) == 1 {
		a.req = par.Names[0].Name
	}
	switch {
	case fd.Body == nil:
		a.poison("state method without a body", fd.Pos())
	case a.req == "" || a.req == "_":
		a.poison("unnamed request parameter", fd.Pos())
	case len(fd.Type.Results.List[0].Names) != 0:
		a.poison("named result", fd.Pos())
	default:
		a.closures(fd.Body)
		// statemachine.execState clears Next before the state runs; Run never calls a state with Err != nil
		init := &state{vals: []val{{dst: Node{Kind: "Nil"}}}}
		if out := a.block(fd.Body.List, init, nil); out != nil {
			a.poison("control reaches the end of the body without a return", fd.Body.Rbrace)
		}
	}
	keys := append([]string(nil), a.order...)
	sort.Strings(keys)
	var out []Edge
	for _, k := range keys {
		out = append(out, *a.edges[k])
	}
	return out
}

// literalEntries finds statemachine.Request[...]{..., Next: X} literals and `<v>.Next = X` assignments in
// functions that are not state methods: the places where a machine is entered.
func (p *program) literalEntries(fi *fileInfo, fd *ast.FuncDecl, isState bool, entries *[]Entry) {
	if fd.Body == nil {
		return
	}
	c := p.newFuncCtx(fi, fd)
	add := func(e ast.Expr, at token.Pos) {
		for _, tg := range c.resolve(e, 0) {
			m := "?"
			if tg.ok {
				m = p.display[tg.mach]
			}
			n := tg.node
			if n.Kind == "St" {
				n = Node{Kind: "St", Name: n.Name}
			}
			*entries = append(*entries, Entry{Func: c.funcName(), Machine: m, Dst: n, At: p.pos(at)})
		}
	}
	ast.Inspect(fd.Body, func(x ast.Node) bool {
		switch t := x.(type) {
		case *ast.CompositeLit:
			if t.Type != nil && fi.isSMRequest(t.Type) {
				for _, el := range t.Elts {
					kv, ok := el.(*ast.KeyValueExpr)
					if !ok {
						// positional literal: cannot tell which element is Next
						*entries = append(*entries, Entry{Func: c.funcName(), Machine: "?", Dst: Node{Kind: "Unknown", Why: "positional Request literal"}, At: p.pos(t.Pos())})
						break
					}
					if id, ok := kv.Key.(*ast.Ident); ok && id.Name == "Next" {
						add(kv.Value, kv.Pos())
					}
				}
			}
		case *ast.AssignStmt:
			if isState {
				return true
			}
			for i, l := range t.Lhs {
				if s, ok := l.(*ast.SelectorExpr); ok && s.Sel.Name == "Next" && len(t.Rhs) == len(t.Lhs) {
					add(t.Rhs[i], t.Pos())
				}
			}
		}
		return true
	})
}

// ---------------------------------------------------------------- rendering

func coqString(s string) string {
	var b strings.Builder
	b.WriteByte('"')
	for _, r := range s {
		switch {
		case r == '"':
			b.WriteString(`""`)
		case r < 32 || r > 126:
			b.WriteByte('?')
		default:
			b.WriteRune(r)
		}
	}
	b.WriteByte('"')
	return b.String()
}

func coqNode(n Node) string {
	switch n.Kind {
	case "St":
		return "St " + coqString(n.Name)
	case "Foreign":
		return "Foreign " + coqString(n.Mach) + " " + coqString(n.Name)
	case "Nil":
		return "Nil"
	}
	return "Unknown"
}

func coqBool(b bool) string {
	if b {
		return "true"
	}
	return "false"
}

func renderV(o *Output) string {
	var b strings.Builder
	b.WriteString("(* GENERATED by /verif/harness/cmd/smgraph from the Go source of the repository - do not edit.\n")
	b.WriteString("   Regenerated into the work directory on every check; the committed copy is the snapshot of the tree\n")
	b.WriteString("   the proofs were last developed against. Format: Coercion.SmGraph.SmGraph (edge, node). *)\n")
	b.WriteString("From Coq Require Import List String.\nFrom Coercion.SmGraph Require Import SmGraph.\nImport ListNotations.\nOpen Scope string_scope.\n\n")
	// guard table
	gid := map[string]int{}
	var gtexts []string
	for _, e := range o.Edges {
		for _, g := range e.Guards {
			if _, ok := gid[g]; !ok {
				gid[g] = len(gtexts)
				gtexts = append(gtexts, g)
			}
		}
	}
	b.WriteString("(* guard texts: enclosing conditions of an edge, as normalised source text *)\n")
	b.WriteString("Definition sm_guards : list (nat * string) := [\n")
	for i, g := range gtexts {
		sep := ";"
		if i == len(gtexts)-1 {
			sep = ""
		}
		fmt.Fprintf(&b, "  (%d, %s)%s\n", i, coqString(g), sep)
	}
	b.WriteString("].\n\n")
	b.WriteString("(* state methods found, per machine (receiver type) *)\n")
	b.WriteString("Definition sm_methods : list (string * string) := [\n")
	for i, m := range o.Methods {
		sep := ";"
		if i == len(o.Methods)-1 {
			sep = ""
		}
		fmt.Fprintf(&b, "  (%s, %s)%s\n", coqString(m.Machine), coqString(m.Name), sep)
	}
	b.WriteString("].\n\n")
	b.WriteString("(* one edge per (value of req.Next, return statement); mkE machine source target err_assigned closure guards *)\n")
	b.WriteString("Definition sm_edges : list edge := [\n")
	for i, e := range o.Edges {
		sep := ";"
		if i == len(o.Edges)-1 {
			sep = ""
		}
		var gs []string
		for _, g := range e.Guards {
			gs = append(gs, strconv.Itoa(gid[g]))
		}
		fmt.Fprintf(&b, "  mkE %s %s (%s) %s %s [%s]%s\n", coqString(e.Machine), coqString(e.Src), coqNode(e.Dst),
			coqBool(e.Err), coqBool(e.Closure), strings.Join(gs, "; "), sep)
	}
	b.WriteString("].\n\n")
	b.WriteString("(* where a machine is entered: Request literals with Next:, statemachine.Run(_, req) inside a state *)\n")
	b.WriteString("Definition sm_entries : list (string * string * node) := [\n")
	for i, e := range o.Entries {
		sep := ";"
		if i == len(o.Entries)-1 {
			sep = ""
		}
		fmt.Fprintf(&b, "  (%s, %s, %s)%s\n", coqString(e.Func), coqString(e.Machine), coqNode(e.Dst), sep)
	}
	b.WriteString("].\n")
	return b.String()
}

// extract parses the repository and returns the state-chain graph.
func extract(repo string) (*Output, error) {
	abs, err := filepath.Abs(repo)
	if err != nil {
		return nil, err
	}
	p, err := load(abs)
	if err != nil {
		return nil, err
	}
	out := &Output{Repo: abs, Methods: []Method{}, Edges: []Edge{}, Entries: []Entry{}}
	for _, m := range p.order {
		var names []string
		for n := range p.states[m] {
			names = append(names, n)
		}
		sort.Slice(names, func(i, j int) bool { return p.states[m][names[i]].Pos() < p.states[m][names[j]].Pos() })
		for _, n := range names {
			fd := p.states[m][n]
			var fi *fileInfo
			for _, f := range p.files {
				if f.file.Pos() <= fd.Pos() && fd.Pos() < f.file.End() {
					fi = f
				}
			}
			out.Methods = append(out.Methods, Method{Machine: p.display[m], Name: n, At: p.pos(fd.Pos())})
			out.Edges = append(out.Edges, p.analyzeMethod(fi, m, fd, &out.Entries)...)
		}
	}
	for _, fi := range p.files {
		for _, d := range fi.file.Decls {
			if fd, ok := d.(*ast.FuncDecl); ok {
				p.literalEntries(fi, fd, p.isStateFunc(fi, fd), &out.Entries)
			}
		}
	}
	sort.SliceStable(out.Entries, func(i, j int) bool {
		a, b := out.Entries[i], out.Entries[j]
		if a.Machine != b.Machine {
			return a.Machine < b.Machine
		}
		if a.Dst.key() != b.Dst.key() {
			return a.Dst.key() < b.Dst.key()
		}
		return a.Func < b.Func
	})
	return out, nil
}

func main() {
	def := os.Getenv("VERIF_REPO")
	if def == "" {
		def = "/repo"
	}
	repo := flag.String("repo", def, "repository root")
	vOut := flag.String("v", "", "write SmGraphGen.v here")
	jOut := flag.String("json", "", "write the graph as JSON here")
	text := flag.Bool("text", false, "print a readable summary to stdout")
	flag.Parse()

	out, err := extract(*repo)
	if err != nil {
		fmt.Fprintln(os.Stderr, "smgraph: cannot parse the repository:", err)
		os.Exit(2)
	}

	if *vOut != "" {
		if err := os.WriteFile(*vOut, []byte(renderV(out)), 0o644); err != nil {
			fmt.Fprintln(os.Stderr, err)
			os.Exit(2)
		}
	}
	if *jOut != "" {
		j, _ := json.MarshalIndent(out, "", " ")
		if err := os.WriteFile(*jOut, append(j, '\n'), 0o644); err != nil {
			fmt.Fprintln(os.Stderr, err)
			os.Exit(2)
		}
	}
	if *text || (*vOut == "" && *jOut == "") {
		for _, e := range out.Edges {
			flags := ""
			if e.Err {
				flags += " [err]"
			}
			if e.Closure {
				flags += " [closure]"
			}
			fmt.Printf("%-12s %-22s -> %-22s%s  if %s\n", e.Machine, e.Src, e.Dst.String(), flags, strings.Join(e.Guards, " && "))
			if e.Dst.Kind == "Unknown" {
				fmt.Printf("             (unknown because: %s at %s)\n", e.Dst.Why, e.Assign)
			}
		}
		for _, e := range out.Entries {
			fmt.Printf("entry  %-20s %s.%s  (%s)\n", e.Func, e.Machine, e.Dst.String(), e.At)
		}
	}
}
