package main

import (
	"os"
	"path/filepath"
	"sort"
	"strings"
	"testing"
)

// The extractor is the one generated part of the framework: these tests pin its flow analysis and its
// fail-closed behaviour on small synthetic packages (the three package directories must exist).

const hdr = `package sm

import "github.com/gostdlib/base/statemachine"

type Data struct{}
type M struct{ sub N }
type N struct{}

func (n N) Go(req statemachine.Request[Data]) statemachine.Request[Data] { return req }
func (m *M) A(req statemachine.Request[Data]) statemachine.Request[Data] { return req }
func (m *M) B(req statemachine.Request[Data]) statemachine.Request[Data] { return req }
func cond() bool { return false }
`

func graph(t *testing.T, body string) map[string][]string {
	t.Helper()
	dir := t.TempDir()
	for _, d := range pkgDirs {
		if err := os.MkdirAll(filepath.Join(dir, d), 0o755); err != nil {
			t.Fatal(err)
		}
	}
	must := func(p, s string) {
		if err := os.WriteFile(filepath.Join(dir, p), []byte(s), 0o644); err != nil {
			t.Fatal(err)
		}
	}
	must("internal/execute/sm/sm.go", hdr+body)
	must("internal/execute/sm/actions/a.go", "package actions\n")
	must("internal/execute/x.go", "package execute\n")
	out, err := extract(dir)
	if err != nil {
		t.Fatal(err)
	}
	res := map[string][]string{}
	for _, e := range out.Edges {
		if e.Src != "X" {
			continue
		}
		s := e.Dst.String()
		if e.Err {
			s += "!"
		}
		if e.Closure {
			s += "@closure"
		}
		res["X"] = append(res["X"], s)
	}
	for _, e := range out.Entries {
		res["entries"] = append(res["entries"], e.Func+">"+e.Machine+"."+e.Dst.String())
	}
	sort.Strings(res["X"])
	return res
}

const sig = "func (m *M) X(req statemachine.Request[Data]) statemachine.Request[Data] "

func TestFlow(t *testing.T) {
	cases := []struct{ name, body, want string }{
		{"no assignment is nil", sig + `{ return req }`, "nil"},
		{"last assignment wins", sig + `{ req.Next = m.A; req.Next = m.B; return req }`, "B"},
		{"assignment before several returns", sig + `{ req.Next = m.A; if cond() { return req }; if cond() { req.Err = nil; return req }; return req }`, "A,A,A"},
		{"branch merge", sig + `{ req.Next = m.A; if cond() { req.Next = nil }; return req }`, "A,nil"},
		{"else chain", sig + `{ if cond() { req.Next = m.A } else if cond() { req.Next = m.B } else { return req }; return req }`, "A,B,nil"},
		{"err flag", sig + `{ if cond() { req.Err = nil; req.Next = m.A; return req }; req.Err = errX; req.Next = m.B; return req }`, "A,B!"},
		{"infinite loop leaves by break only", sig + `{ for { if cond() { req.Next = m.A; break } }; return req }`, "A"},
		{"loop may run zero times", sig + `{ for i := 0; i < 3; i++ { req.Next = m.A }; return req }`, "A,nil"},
		{"loop carries a value round", sig + `{ for cond() { if cond() { return req }; req.Next = m.B }; return req }`, "B,B,nil,nil"},
		{"continue", sig + `{ for cond() { if cond() { req.Next = m.A; continue }; req.Next = m.B }; return req }`, "A,B,nil"},
		{"switch without default falls through the switch", sig + `{ switch x { case 1: req.Next = m.A; case 2: return req }; return req }`, "A,nil,nil"},
		{"switch with default", sig + `{ switch { case cond(): req.Next = m.A; default: req.Next = m.B }; return req }`, "A,B"},
		{"break in switch", sig + `{ switch { case cond(): req.Next = m.A; break; default: req.Next = m.B }; return req }`, "A,B"},
		{"select", sig + `{ select { case <-ch: req.Next = m.A; return req; default: }; return req }`, "A,nil"},
		{"local holding method values", sig + `{ n := m.A; if cond() { n = m.B }; req.Next = n; return req }`, "A,B"},
		{"panic terminates", sig + `{ if cond() { req.Next = m.A; return req }; panic("x") }`, "A"},
		{"whole reassignment then Next", sig + `{ req = f(req); req.Next = nil; return req }`, "nil!"},
		// fail closed
		{"whole reassignment", sig + `{ req = m.A(req); return req }`, "Unknown!"},
		{"foreign state", sig + `{ req.Next = m.sub.Go; return req }`, "N.Go"},
		{"not a state method", sig + `{ req.Next = cond2; return req }`, "Unknown"},
		{"call on the right", sig + `{ req.Next = pick(); return req }`, "Unknown"},
		{"return of a call", sig + `{ return m.A(req) }`, "Unknown!"},
		{"return of another value", sig + `{ r := req; r.Next = m.A; return r }`, "Unknown!"},
		{"closure", sig + `{ defer func() { req.Next = m.A }(); return req }`, "A@closure,nil"},
		{"address taken", sig + `{ set(&req); return req }`, "Unknown!,nil"},
		{"goto", sig + `{ goto L; L: return req }`, "Unknown!,Unknown!,nil"},
		{"fallthrough", sig + `{ switch { case cond(): req.Next = m.A; fallthrough; default: }; return req }`, "A,Unknown!,nil"},
		{"shadowed request", sig + `{ { req := other(); req.Next = m.A; _ = req }; return req }`, "A!,Unknown!"},
		{"named result", "func (m *M) X(req statemachine.Request[Data]) (out statemachine.Request[Data]) " + `{ out = req; return }`, "Unknown!"},
		{"tuple assignment", sig + `{ req.Next, x = two(); return req }`, "Unknown"},
	}
	for _, c := range cases {
		got := strings.Join(graph(t, c.body)["X"], ",")
		if got != c.want {
			t.Errorf("%s: got %q want %q", c.name, got, c.want)
		}
	}
}

func TestEntries(t *testing.T) {
	g := graph(t, sig+`{ return req }
func start(m *M) {
	next := m.A
	if cond() { next = m.B }
	r := statemachine.Request[Data]{Next: next}
	statemachine.Run("x", r)
	var n N
	r2 := statemachine.Request[Data]{Next: n.Go}
	r3 := statemachine.Request[Data]{Next: whatever}
	_, _ = r2, r3
}`)
	got := strings.Join(g["entries"], ",")
	want := "start>?.Unknown,start>M.A,start>M.B,start>N.Go"
	if got != want {
		t.Errorf("entries: got %q want %q", got, want)
	}
}
