// c07k1: deterministic witness of known finding K1 (property C07, "each continuous check keeps being re-run").
//
// One block, one sequence, one action that works for -work ms; a continuous group (at block level, then at plan
// level) with Delay -delay ms whose check fails from its -failat-th call on. runContChecks sends every result with a
// blocking send on a capacity-1 channel that is only read before a sequence starts and at the end of the scope, so
// during the one long action the check is invoked about 3 times instead of work/delay times, the failing call never
// happens and the scope ends Completed. Public API only, in-memory sqlite. One JSON line per variant.
package main

import (
	"encoding/json"
	"flag"
	"fmt"
	"os"
	"sync"
	"time"

	"github.com/element-of-surprise/coercion"
	"github.com/element-of-surprise/coercion/plugins"
	"github.com/element-of-surprise/coercion/plugins/registry"
	"github.com/element-of-surprise/coercion/workflow"
	"github.com/element-of-surprise/coercion/workflow/context"
	"github.com/element-of-surprise/coercion/workflow/storage/sqlite"
	"github.com/gostdlib/base/retry/exponential"
)

type Req struct{ SleepMs int }
type Resp struct{ N int }

type plug struct {
	name   string
	check  bool
	failAt int
	mu     sync.Mutex
	stamps []time.Time // entry times
}

func (p *plug) Name() string { return p.name }
func (p *plug) Execute(ctx context.Context, req any) (any, *plugins.Error) {
	p.mu.Lock()
	p.stamps = append(p.stamps, time.Now())
	n := len(p.stamps)
	p.mu.Unlock()
	if r := req.(Req); r.SleepMs > 0 {
		t := time.NewTimer(time.Duration(r.SleepMs) * time.Millisecond)
		defer t.Stop()
		select {
		case <-ctx.Done():
			return nil, &plugins.Error{Message: "cancelled"}
		case <-t.C:
		}
	}
	if p.failAt > 0 && n >= p.failAt {
		return nil, &plugins.Error{Message: fmt.Sprintf("unhealthy at call %d", n), Permanent: true}
	}
	return Resp{N: n}, nil
}
func (p *plug) ValidateReq(req any) error {
	if _, ok := req.(Req); !ok {
		return fmt.Errorf("bad request type %T", req)
	}
	return nil
}
func (p *plug) Request() any                    { return Req{} }
func (p *plug) Response() any                   { return Resp{} }
func (p *plug) IsCheck() bool                   { return p.check }
func (p *plug) RetryPolicy() exponential.Policy { return plugins.FastRetryPolicy() }
func (p *plug) Init() error                     { return nil }

type result struct {
	ID       string         `json:"id"`
	Kind     string         `json:"kind"`
	Input    map[string]any `json:"input"`
	Observed map[string]any `json:"observed"`
	Note     string         `json:"note"`
}

func run(planLevel bool, workMs, delayMs, failAt int) result {
	level := map[bool]string{true: "plan", false: "block"}[planLevel]
	res := result{ID: "K1-" + level, Kind: "witness",
		Input:    map[string]any{"level": level, "work_ms": workMs, "delay_ms": delayMs, "fail_from_call": failAt},
		Observed: map[string]any{"witness": "K1"}}
	fail := func(err error) result {
		res.Kind, res.Note = "witness-absent", err.Error()
		res.Observed["what"] = "witness could not be run: " + err.Error()
		return res
	}
	ctx := context.Background()
	probe := &plug{name: "probe", check: true, failAt: failAt}
	worker := &plug{name: "worker"}
	reg := registry.New()
	reg.MustRegister(probe)
	reg.MustRegister(worker)
	vault, err := sqlite.New(ctx, "", reg, sqlite.WithInMemory())
	if err != nil {
		return fail(err)
	}
	ws, err := coercion.New(ctx, reg, vault)
	if err != nil {
		return fail(err)
	}
	cont := &workflow.Checks{Delay: time.Duration(delayMs) * time.Millisecond,
		Actions: []*workflow.Action{{Name: "probe", Descr: "probe", Plugin: "probe", Timeout: 5 * time.Second, Req: Req{}}}}
	block := &workflow.Block{Name: "b", Descr: "b", Sequences: []*workflow.Sequence{{Name: "s", Descr: "s",
		Actions: []*workflow.Action{{Name: "work", Descr: "work", Plugin: "worker", Timeout: 30 * time.Second, Req: Req{SleepMs: workMs}}}}}}
	plan := &workflow.Plan{Name: "p", Descr: "p", Blocks: []*workflow.Block{block}}
	if planLevel {
		plan.ContChecks = cont
	} else {
		block.ContChecks = cont
	}
	id, err := ws.Submit(ctx, plan)
	if err != nil {
		return fail(err)
	}
	if err := ws.Start(ctx, id); err != nil {
		return fail(err)
	}
	wctx, cancel := context.WithTimeout(ctx, time.Duration(workMs+20000)*time.Millisecond)
	defer cancel()
	out, err := ws.Wait(wctx, id)
	if err != nil {
		return fail(err)
	}
	worker.mu.Lock()
	ws0 := worker.stamps
	worker.mu.Unlock()
	if len(ws0) != 1 {
		return fail(fmt.Errorf("the work action was invoked %d times", len(ws0)))
	}
	t0, t1 := ws0[0], ws0[0].Add(time.Duration(workMs)*time.Millisecond)
	probe.mu.Lock()
	total, during := len(probe.stamps), 0
	var offs []int64
	for _, ts := range probe.stamps {
		offs = append(offs, ts.Sub(t0).Milliseconds())
		if !ts.Before(t0) && ts.Before(t1) {
			during++
		}
	}
	probe.mu.Unlock()
	expected := workMs / delayMs
	scope := out.State.Status
	if !planLevel {
		scope = out.Blocks[0].State.Status
	}
	completed := scope == workflow.Completed && out.State.Status == workflow.Completed
	// the stall is not marginal: at most 4 invocations where work/delay (30) are due, and the failing call never happens
	present := during <= 4 && total < failAt && completed && expected >= 3*4
	res.Observed["finding_present"] = present
	res.Observed["invocations_total"] = total
	res.Observed["invocations_during_action"] = during
	res.Observed["invocations_due"] = expected
	res.Observed["offsets_ms_from_action_start"] = offs
	res.Observed["plan_status"] = out.State.Status.String()
	res.Observed["scope_status"] = scope.String()
	res.Observed["what"] = fmt.Sprintf("%s-level continuous group, Delay %d ms, one action of %d ms: %d invocations during the action (%d due), %d in all, "+
		"the check fails from call %d on, scope %v, plan %v", level, delayMs, workMs, during, expected, total, failAt, scope, out.State.Status)
	return res
}

func main() {
	outPath := flag.String("out", "", "output JSONL")
	workMs := flag.Int("work", 600, "duration of the action (ms)")
	delayMs := flag.Int("delay", 20, "Delay of the continuous group (ms)")
	failAt := flag.Int("failat", 8, "the check fails from this call on")
	flag.Parse()
	f := os.Stdout
	if *outPath != "" {
		var err error
		if f, err = os.Create(*outPath); err != nil {
			fmt.Fprintln(os.Stderr, err)
			os.Exit(2)
		}
		defer f.Close()
	}
	enc := json.NewEncoder(f)
	for _, planLevel := range []bool{false, true} {
		enc.Encode(run(planLevel, *workMs, *delayMs, *failAt))
	}
}
