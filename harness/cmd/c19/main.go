// c19: drives workflow/utils/walk on generated plans, with a consumer that stops at every position,
// and prints one case per plan: the plan, and for each stop position what was delivered.
package main

import (
	"flag"
	"fmt"
	"iter"
	"os"
	"runtime"
	"runtime/debug"
	"strings"
	"sync"

	"verifharness/core"
	"verifharness/hplug"
	"verifharness/plancoq"
	"verifharness/plangen"

	"github.com/element-of-surprise/coercion/workflow"
	"github.com/element-of-surprise/coercion/workflow/utils/walk"
)

type stopObs struct {
	K       int      `json:"k"`
	Calls   int      `json:"calls"`
	Items   []string `json:"items"`
	Reading string   `json:"reading"` // "in-loop": Item abstracted inside the consumer; "kept": Items kept, abstracted after the walk returned
	Panic   string   `json:"panic,omitempty"`
}

func itemTerm(paths map[workflow.Object]string, it walk.Item) string {
	chain := make([]string, len(it.Chain))
	for i, c := range it.Chain {
		chain[i] = pathOf(paths, c)
	}
	return core.Pair(pathOf(paths, it.Value), core.List(chain))
}

// walkStop calls the iterator function directly (not through range-over-func, whose runtime check
// would hide a yield-after-false), with a consumer answering false at its k-th call (0 = never).
// Two readings of the same walk: `o` abstracts each Item inside the consumer; `kept` keeps the Item
// values as they are (Chain not copied, as slices.Collect(walk.Plan(p)) would) and abstracts them only
// after the walk has returned, so chains that share a backing array with later ones show up.
func walkStop(p *workflow.Plan, paths map[workflow.Object]string, k int) (o, kept stopObs) {
	return walkSeq(walk.Plan(p), paths, k, nil)
}

// walkSeq runs one walk over a given iter.Seq value (which may have been walked before, or be walked by
// another goroutine at the same time); between is called between two consumer calls (scheduling point).
func walkSeq(seq iter.Seq[walk.Item], paths map[workflow.Object]string, k int, between func()) (o, kept stopObs) {
	o.K, o.Reading = k, "in-loop"
	var items []walk.Item
	defer func() {
		if r := recover(); r != nil {
			o.Panic = fmt.Sprintf("%v\n%s", r, debug.Stack())
		}
		kept = stopObs{K: k, Calls: o.Calls, Reading: "kept", Panic: o.Panic}
		for _, it := range items {
			kept.Items = append(kept.Items, itemTerm(paths, it))
		}
	}()
	seq(func(it walk.Item) bool {
		o.Calls++
		items = append(items, it)
		o.Items = append(o.Items, itemTerm(paths, it))
		if between != nil {
			between()
		}
		return o.Calls != k
	})
	return o, kept
}

// reuse walks ONE iter.Seq value of the plan several times: the property is about every walk, not only
// about the first walk of a fresh walk.Plan(p).  Each walk is one more stop observation for the model.
//   - a walk stopped at k, then a full walk, for k = 1, the middle, the last item;
//   - two more full walks in a row;
//   - two goroutines walking it at the same time, each collecting its own items: full + full, and
//     stopped-in-the-middle + full.
func reuse(p *workflow.Plan, paths map[workflow.Object]string, total int) []stopObs {
	seq := walk.Plan(p)
	var obs []stopObs
	add := func(o stopObs, reading string) {
		o.Reading = reading
		obs = append(obs, o)
	}
	ks := []int{1}
	if total/2 > 1 {
		ks = append(ks, total/2)
	}
	if total > 2 {
		ks = append(ks, total)
	}
	for _, k := range ks {
		o, _ := walkSeq(seq, paths, k, nil)
		add(o, "same-seq:stopped")
		o, _ = walkSeq(seq, paths, 0, nil)
		add(o, "same-seq:full-after-stopped")
	}
	for i := 0; i < 2; i++ {
		o, kept := walkSeq(seq, paths, 0, nil)
		add(o, "same-seq:full-again")
		if i == 1 {
			add(kept, "same-seq:full-again-kept")
		}
	}
	for _, k := range []int{0, (total + 1) / 2} {
		var wg sync.WaitGroup
		res := make([]stopObs, 2)
		start := make(chan struct{})
		for g, kk := range []int{k, 0} {
			wg.Add(1)
			go func() {
				defer wg.Done()
				<-start
				res[g], _ = walkSeq(seq, paths, kk, runtime.Gosched)
			}()
		}
		close(start)
		wg.Wait()
		add(res[0], "same-seq:concurrent-a")
		add(res[1], "same-seq:concurrent-b")
	}
	// and once more afterwards: nothing that happened above may have changed what a walk yields
	o, _ := walkSeq(seq, paths, 0, nil)
	add(o, "same-seq:full-at-the-end")
	return obs
}

func pathOf(paths map[workflow.Object]string, o workflow.Object) string {
	if s, ok := paths[o]; ok {
		return s
	}
	// an object that is not in the plan at all: a path no model output contains
	return "(OBlock 999)"
}

// reshape makes the shape irregular: nil and empty slices, removed groups, groups with no actions.
func reshape(r *core.Rand, p *workflow.Plan) []string {
	var did []string
	emptyA := func(as *[]*workflow.Action, what string) {
		switch r.Intn(12) {
		case 0:
			*as = nil
			did = append(did, what+":nil")
		case 1:
			*as = []*workflow.Action{}
			did = append(did, what+":empty")
		}
	}
	groups := func(ks ...*workflow.Checks) {
		for _, k := range ks {
			if k != nil {
				emptyA(&k.Actions, "checks.Actions")
			}
		}
	}
	groups(p.BypassChecks, p.PreChecks, p.ContChecks, p.PostChecks, p.DeferredChecks)
	switch r.Intn(15) {
	case 0:
		p.Blocks = nil
		did = append(did, "plan.Blocks:nil")
	case 1:
		p.Blocks = []*workflow.Block{}
		did = append(did, "plan.Blocks:empty")
	}
	for _, b := range p.Blocks {
		groups(b.BypassChecks, b.PreChecks, b.ContChecks, b.PostChecks, b.DeferredChecks)
		switch r.Intn(12) {
		case 0:
			b.Sequences = nil
			did = append(did, "block.Sequences:nil")
		case 1:
			b.Sequences = []*workflow.Sequence{}
			did = append(did, "block.Sequences:empty")
		}
		for _, s := range b.Sequences {
			emptyA(&s.Actions, "seq.Actions")
		}
	}
	return did
}

func main() {
	n := flag.Int("n", 150, "number of plans")
	out := flag.String("out", "-", "output file (JSONL)")
	maxItems := flag.Int("max-items", 45, "plans with more objects than this get a sample of stop positions")
	flag.Parse()

	w, err := core.NewWriter(*out)
	if err != nil {
		fmt.Fprintln(os.Stderr, err)
		os.Exit(2)
	}
	defer w.Close()
	root := core.NewRand(core.Seed())
	set := hplug.NewSet()

	for i := 0; i < *n; i++ {
		r := root.Fork(uint64(i))
		o := plangen.Opts{GroupP: []float64{0.15, 0.4, 0.7, 1.0}[i%4], MaxBlocks: 1 + i%3, MaxSeqs: 1 + (i/3)%3, MaxActions: 1 + (i/9)%3, KeyP: 0.2}
		g := plangen.New(r, o)
		p := g.Plan()
		did := reshape(r, p)
		paths := plancoq.PathIndex(p)
		cx := plancoq.NewCtx(set.Lookup)
		planTerm := cx.Plan(p)

		full, fullKept := walkStop(p, paths, 0)
		total := full.Calls
		// the kept reading of the full walk is always compared with the model; for the early stops it is
		// compared with the in-loop reading here and handed to the model only when it differs (then it is
		// a disagreement with the model as well)
		obs := []stopObs{full, fullKept}
		keptDiffers := 0
		// every early-stop position (a sample of them for big plans), plus one beyond the end
		step := 1
		if total > *maxItems {
			step = 1 + total / *maxItems
		}
		for k := 1; k <= total+1; k += step {
			o, kept := walkStop(p, paths, k)
			obs = append(obs, o)
			if strings.Join(o.Items, "|") != strings.Join(kept.Items, "|") {
				obs = append(obs, kept)
				keptDiffers++
			}
		}
		if strings.Join(full.Items, "|") != strings.Join(fullKept.Items, "|") {
			keptDiffers++
		}
		re := reuse(p, paths, total)
		obs = append(obs, re...)
		seqsWithActions := 0 // max over blocks of the number of sequences that have actions (>= 2 needed to see chain aliasing)
		for _, b := range p.Blocks {
			n := 0
			for _, q := range b.Sequences {
				if q != nil && len(q.Actions) > 0 {
					n++
				}
			}
			if n > seqsWithActions {
				seqsWithActions = n
			}
		}
		var terms []string
		panicked := ""
		for _, so := range obs {
			terms = append(terms, core.Sprintf("(%d, %d, %s)", so.K, so.Calls, core.List(so.Items)))
			if so.Panic != "" && panicked == "" {
				panicked = so.Panic
			}
		}
		c := core.Case{
			ID:         fmt.Sprintf("walk-%d", i),
			Kind:       "walk",
			Coq:        core.Pair(planTerm, core.List(terms)),
			Nontrivial: total > 3,
			Hash:       core.Hash(strings.Join(full.Items, "|")),
			Dist:       map[string]any{"objects": total, "stops": len(obs), "reshaped": did, "blocks": len(p.Blocks),
				"kept_differs": keptDiffers, "same_seq_walks": len(re), "seqs_with_actions": seqsWithActions},
			Input:      map[string]any{"seed": core.Seed(), "index": i, "opts": o},
			Observed:   obs,
		}
		if panicked != "" {
			c.Note = "panic: " + panicked
		}
		w.Put(c)
	}
}
