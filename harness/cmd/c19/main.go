// c19: drives workflow/utils/walk on generated plans, with a consumer that stops at every position,
// and prints one case per plan: the plan, and for each stop position what was delivered.
package main

import (
	"flag"
	"fmt"
	"os"
	"runtime/debug"
	"strings"

	"verifharness/core"
	"verifharness/hplug"
	"verifharness/plancoq"
	"verifharness/plangen"

	"github.com/element-of-surprise/coercion/workflow"
	"github.com/element-of-surprise/coercion/workflow/utils/walk"
)

type stopObs struct {
	K     int      `json:"k"`
	Calls int      `json:"calls"`
	Items []string `json:"items"`
	Panic string   `json:"panic,omitempty"`
}

// walkStop calls the iterator function directly (not through range-over-func, whose runtime check
// would hide a yield-after-false), with a consumer answering false at its k-th call (0 = never).
func walkStop(p *workflow.Plan, paths map[workflow.Object]string, k int) (o stopObs) {
	o.K = k
	defer func() {
		if r := recover(); r != nil {
			o.Panic = fmt.Sprintf("%v\n%s", r, debug.Stack())
		}
	}()
	walk.Plan(p)(func(it walk.Item) bool {
		o.Calls++
		chain := make([]string, len(it.Chain))
		for i, c := range it.Chain {
			chain[i] = pathOf(paths, c)
		}
		o.Items = append(o.Items, core.Pair(pathOf(paths, it.Value), core.List(chain)))
		return o.Calls != k
	})
	return o
}

func pathOf(paths map[workflow.Object]string, o workflow.Object) string {
	if s, ok := paths[o]; ok {
		return s
	}
	// an object that is not in the plan at all: a path no model output contains
	return "(OBlock 999)"
}

// reshape makes the shape irregular: nil and empty slices, removed groups, groups with no actions.
func reshape(r *core.Rand, p *workflow.Plan) []string {
	var did []string
	emptyA := func(as *[]*workflow.Action, what string) {
		switch r.Intn(12) {
		case 0:
			*as = nil
			did = append(did, what+":nil")
		case 1:
			*as = []*workflow.Action{}
			did = append(did, what+":empty")
		}
	}
	groups := func(ks ...*workflow.Checks) {
		for _, k := range ks {
			if k != nil {
				emptyA(&k.Actions, "checks.Actions")
			}
		}
	}
	groups(p.BypassChecks, p.PreChecks, p.ContChecks, p.PostChecks, p.DeferredChecks)
	switch r.Intn(15) {
	case 0:
		p.Blocks = nil
		did = append(did, "plan.Blocks:nil")
	case 1:
		p.Blocks = []*workflow.Block{}
		did = append(did, "plan.Blocks:empty")
	}
	for _, b := range p.Blocks {
		groups(b.BypassChecks, b.PreChecks, b.ContChecks, b.PostChecks, b.DeferredChecks)
		switch r.Intn(12) {
		case 0:
			b.Sequences = nil
			did = append(did, "block.Sequences:nil")
		case 1:
			b.Sequences = []*workflow.Sequence{}
			did = append(did, "block.Sequences:empty")
		}
		for _, s := range b.Sequences {
			emptyA(&s.Actions, "seq.Actions")
		}
	}
	return did
}

func main() {
	n := flag.Int("n", 150, "number of plans")
	out := flag.String("out", "-", "output file (JSONL)")
	maxItems := flag.Int("max-items", 45, "plans with more objects than this get a sample of stop positions")
	flag.Parse()

	w, err := core.NewWriter(*out)
	if err != nil {
		fmt.Fprintln(os.Stderr, err)
		os.Exit(2)
	}
	defer w.Close()
	root := core.NewRand(core.Seed())
	set := hplug.NewSet()

	for i := 0; i < *n; i++ {
		r := root.Fork(uint64(i))
		o := plangen.Opts{GroupP: []float64{0.15, 0.4, 0.7, 1.0}[i%4], MaxBlocks: 1 + i%3, MaxSeqs: 1 + (i/3)%3, MaxActions: 1 + (i/9)%3, KeyP: 0.2}
		g := plangen.New(r, o)
		p := g.Plan()
		did := reshape(r, p)
		paths := plancoq.PathIndex(p)
		cx := plancoq.NewCtx(set.Lookup)
		planTerm := cx.Plan(p)

		full := walkStop(p, paths, 0)
		total := full.Calls
		obs := []stopObs{full}
		// every early-stop position (a sample of them for big plans), plus one beyond the end
		step := 1
		if total > *maxItems {
			step = 1 + total / *maxItems
		}
		for k := 1; k <= total+1; k += step {
			obs = append(obs, walkStop(p, paths, k))
		}
		var terms []string
		panicked := ""
		for _, so := range obs {
			terms = append(terms, core.Sprintf("(%d, %d, %s)", so.K, so.Calls, core.List(so.Items)))
			if so.Panic != "" && panicked == "" {
				panicked = so.Panic
			}
		}
		c := core.Case{
			ID:         fmt.Sprintf("walk-%d", i),
			Kind:       "walk",
			Coq:        core.Pair(planTerm, core.List(terms)),
			Nontrivial: total > 3,
			Hash:       core.Hash(strings.Join(full.Items, "|")),
			Dist:       map[string]any{"objects": total, "stops": len(obs), "reshaped": did, "blocks": len(p.Blocks)},
			Input:      map[string]any{"seed": core.Seed(), "index": i, "opts": o},
			Observed:   obs,
		}
		if panicked != "" {
			c.Note = "panic: " + panicked
		}
		w.Put(c)
	}
}
