// c19: drives workflow/utils/walk on generated plans, with a consumer that stops at every position,
// and prints one case per plan: the plan, and for each stop position what was delivered.
package main

import (
	"flag"
	"fmt"
	"iter"
	"os"
	"runtime"
	"runtime/debug"
	"strings"
	"sync"

	"verifharness/core"
	"verifharness/hplug"
	"verifharness/plancoq"
	"verifharness/plangen"

	"github.com/element-of-surprise/coercion/workflow"
	"github.com/element-of-surprise/coercion/workflow/utils/walk"
	"github.com/google/uuid"
)

type stopObs struct {
	K       int      `json:"k"`
	Calls   int      `json:"calls"`
	Items   []string `json:"items"`
	Reading string   `json:"reading"` // "in-loop": Item abstracted inside the consumer; "kept": Items kept, abstracted after the walk returned
	Panic   string   `json:"panic,omitempty"`
}

func itemTerm(paths map[workflow.Object]string, it walk.Item) string {
	chain := make([]string, len(it.Chain))
	for i, c := range it.Chain {
		chain[i] = pathOf(paths, c)
	}
	return core.Pair(pathOf(paths, it.Value), core.List(chain))
}

// walkStop calls the iterator function directly (not through range-over-func, whose runtime check
// would hide a yield-after-false), with a consumer answering false at its k-th call (0 = never).
// Two readings of the same walk: `o` abstracts each Item inside the consumer; `kept` keeps the Item
// values as they are (Chain not copied, as slices.Collect(walk.Plan(p)) would) and abstracts them only
// after the walk has returned, so chains that share a backing array with later ones show up.
func walkStop(p *workflow.Plan, paths map[workflow.Object]string, k int) (o, kept stopObs) {
	return walkSeq(walk.Plan(p), paths, k, nil)
}

// walkSeq runs one walk over a given iter.Seq value (which may have been walked before, or be walked by
// another goroutine at the same time); between is called between two consumer calls (scheduling point).
func walkSeq(seq iter.Seq[walk.Item], paths map[workflow.Object]string, k int, between func()) (o, kept stopObs) {
	o.K, o.Reading = k, "in-loop"
	var items []walk.Item
	defer func() {
		if r := recover(); r != nil {
			o.Panic = fmt.Sprintf("%v\n%s", r, debug.Stack())
		}
		kept = stopObs{K: k, Calls: o.Calls, Reading: "kept", Panic: o.Panic}
		for _, it := range items {
			kept.Items = append(kept.Items, itemTerm(paths, it))
		}
	}()
	seq(func(it walk.Item) bool {
		o.Calls++
		items = append(items, it)
		o.Items = append(o.Items, itemTerm(paths, it))
		if between != nil {
			between()
		}
		return o.Calls != k
	})
	return o, kept
}

// reuse walks ONE iter.Seq value of the plan several times: the property is about every walk, not only
// about the first walk of a fresh walk.Plan(p).  Each walk is one more stop observation for the model.
//   - a walk stopped at k, then a full walk, for k = 1, the middle, the last item;
//   - two more full walks in a row;
//   - two goroutines walking it at the same time, each collecting its own items: full + full, and
//     stopped-in-the-middle + full.
func reuse(p *workflow.Plan, paths map[workflow.Object]string, total int) []stopObs {
	seq := walk.Plan(p)
	var obs []stopObs
	add := func(o stopObs, reading string) {
		o.Reading = reading
		obs = append(obs, o)
	}
	ks := []int{1}
	if total/2 > 1 {
		ks = append(ks, total/2)
	}
	if total > 2 {
		ks = append(ks, total)
	}
	for _, k := range ks {
		o, _ := walkSeq(seq, paths, k, nil)
		add(o, "same-seq:stopped")
		o, _ = walkSeq(seq, paths, 0, nil)
		add(o, "same-seq:full-after-stopped")
	}
	for i := 0; i < 2; i++ {
		o, kept := walkSeq(seq, paths, 0, nil)
		add(o, "same-seq:full-again")
		if i == 1 {
			add(kept, "same-seq:full-again-kept")
		}
	}
	for _, k := range []int{0, (total + 1) / 2} {
		var wg sync.WaitGroup
		res := make([]stopObs, 2)
		start := make(chan struct{})
		for g, kk := range []int{k, 0} {
			wg.Add(1)
			go func() {
				defer wg.Done()
				<-start
				res[g], _ = walkSeq(seq, paths, kk, runtime.Gosched)
			}()
		}
		close(start)
		wg.Wait()
		add(res[0], "same-seq:concurrent-a")
		add(res[1], "same-seq:concurrent-b")
	}
	// and once more afterwards: nothing that happened above may have changed what a walk yields
	o, _ := walkSeq(seq, paths, 0, nil)
	add(o, "same-seq:full-at-the-end")
	return obs
}

func pathOf(paths map[workflow.Object]string, o workflow.Object) string {
	if s, ok := paths[o]; ok {
		return s
	}
	// an object that is not in the plan at all: a path no model output contains
	return "(OBlock 999)"
}

// reshape makes the shape irregular: nil and empty slices, removed groups, groups with no actions.
func reshape(r *core.Rand, p *workflow.Plan) []string {
	var did []string
	emptyA := func(as *[]*workflow.Action, what string) {
		switch r.Intn(12) {
		case 0:
			*as = nil
			did = append(did, what+":nil")
		case 1:
			*as = []*workflow.Action{}
			did = append(did, what+":empty")
		}
	}
	groups := func(ks ...*workflow.Checks) {
		for _, k := range ks {
			if k != nil {
				emptyA(&k.Actions, "checks.Actions")
			}
		}
	}
	groups(p.BypassChecks, p.PreChecks, p.ContChecks, p.PostChecks, p.DeferredChecks)
	switch r.Intn(15) {
	case 0:
		p.Blocks = nil
		did = append(did, "plan.Blocks:nil")
	case 1:
		p.Blocks = []*workflow.Block{}
		did = append(did, "plan.Blocks:empty")
	}
	for _, b := range p.Blocks {
		groups(b.BypassChecks, b.PreChecks, b.ContChecks, b.PostChecks, b.DeferredChecks)
		switch r.Intn(12) {
		case 0:
			b.Sequences = nil
			did = append(did, "block.Sequences:nil")
		case 1:
			b.Sequences = []*workflow.Sequence{}
			did = append(did, "block.Sequences:empty")
		}
		for _, s := range b.Sequences {
			emptyA(&s.Actions, "seq.Actions")
		}
	}
	return did
}

func main() {
	n := flag.Int("n", 150, "number of plans")
	out := flag.String("out", "-", "output file (JSONL)")
	maxItems := flag.Int("max-items", 45, "plans with more objects than this get a sample of stop positions")
	flag.Parse()

	w, err := core.NewWriter(*out)
	if err != nil {
		fmt.Fprintln(os.Stderr, err)
		os.Exit(2)
	}
	defer w.Close()
	root := core.NewRand(core.Seed())
	set := hplug.NewSet()

	for i := 0; i < *n; i++ {
		r := root.Fork(uint64(i))
		o := plangen.Opts{GroupP: []float64{0.15, 0.4, 0.7, 1.0}[i%4], MaxBlocks: 1 + i%3, MaxSeqs: 1 + (i/3)%3, MaxActions: 1 + (i/9)%3, KeyP: 0.2}
		g := plangen.New(r, o)
		p := g.Plan()
		did := reshape(r, p)
		ids := stampIDs(r, p, i)
		paths := plancoq.PathIndex(p)
		cx := plancoq.NewCtx(set.Lookup)
		planTerm := cx.Plan(p)

		full, fullKept := walkStop(p, paths, 0)
		total := full.Calls
		// the kept reading of the full walk is always compared with the model; for the early stops it is
		// compared with the in-loop reading here and handed to the model only when it differs (then it is
		// a disagreement with the model as well)
		obs := []stopObs{full, fullKept}
		keptDiffers := 0
		// every early-stop position (a sample of them for big plans), plus one beyond the end
		step := 1
		if total > *maxItems {
			step = 1 + total / *maxItems
		}
		for k := 1; k <= total+1; k += step {
			o, kept := walkStop(p, paths, k)
			obs = append(obs, o)
			if strings.Join(o.Items, "|") != strings.Join(kept.Items, "|") {
				obs = append(obs, kept)
				keptDiffers++
			}
		}
		if strings.Join(full.Items, "|") != strings.Join(fullKept.Items, "|") {
			keptDiffers++
		}
		re := reuse(p, paths, total)
		obs = append(obs, re...)
		seqsWithActions := 0 // max over blocks of the number of sequences that have actions (>= 2 needed to see chain aliasing)
		for _, b := range p.Blocks {
			n := 0
			for _, q := range b.Sequences {
				if q != nil && len(q.Actions) > 0 {
					n++
				}
			}
			if n > seqsWithActions {
				seqsWithActions = n
			}
		}
		dist := map[string]any{"objects": total, "stops": len(obs), "reshaped": did, "blocks": len(p.Blocks),
			"kept_differs": keptDiffers, "same_seq_walks": len(re), "seqs_with_actions": seqsWithActions, "change": "none", "ids": ids}
		input := map[string]any{"seed": core.Seed(), "index": i, "opts": o}
		emit(w, fmt.Sprintf("walk-%d", i), "walk", planTerm, obs, total > 3, dist, input)

		// ---- the plan changes between obtaining the iterator and walking it, and between two walks of it.
		// What is yielded must be the plan as it is when it is walked.
		seqEarly := walk.Plan(p) // obtained now, walked only after the change
		seqUsed := walk.Plan(p)  // walked before and after the change
		walkSeq(seqUsed, paths, 0, nil)
		walkSeq(seqUsed, paths, (total+1)/2, nil)
		change := grow(r, g, p, nil)
		paths1 := plancoq.PathIndex(p)
		term1 := plancoq.NewCtx(set.Lookup).Plan(p)
		var obs1 []stopObs
		add1 := func(o stopObs, reading string) { o.Reading = reading; obs1 = append(obs1, o) }
		o1, _ := walkSeq(seqEarly, paths1, 0, nil)
		add1(o1, "changed-plan:iterator-obtained-before-the-change")
		total1 := o1.Calls
		o1, k1 := walkSeq(seqUsed, paths1, 0, nil)
		add1(o1, "changed-plan:iterator-walked-before-and-after-the-change")
		add1(k1, "changed-plan:iterator-walked-before-and-after-the-change,kept")
		o1, _ = walkSeq(seqUsed, paths1, (total1+1)/2, nil)
		add1(o1, "changed-plan:iterator-walked-before-and-after-the-change,stopped")
		o1, _ = walkSeq(seqEarly, paths1, total1, nil)
		add1(o1, "changed-plan:iterator-obtained-before-the-change,stopped-at-the-last")
		o1, _ = walkStop(p, paths1, 0)
		add1(o1, "changed-plan:fresh-iterator")
		emit(w, fmt.Sprintf("walk-changed-%d", i), "walk-changed", term1, obs1, true,
			map[string]any{"objects": o1.Calls, "stops": len(obs1), "reshaped": did, "blocks": len(p.Blocks), "kept_differs": 0,
				"same_seq_walks": 0, "seqs_with_actions": seqsWithActions, "change": "before-walk:" + change}, input)

		// ---- the consumer changes the plan while it is being walked: it adds, to the object it has just
		// been handed (or to something that comes later), something the walk has not reached yet.  The walk
		// reads every slice and every group when it gets there, so it yields what was added: the walk of the
		// plan as it is afterwards.  (Additions to a slice the walk is already ranging over - a Block while
		// inside a Block, an Action while inside the Actions of the same Sequence - are NOT asserted: Go's
		// range has copied the slice header, another loop form would not have; the property does not say.)
		var kept []walk.Item
		live := ""
		seqLive := walk.Plan(p)
		// the item at which the consumer strikes: the kind of object first (uniform), then one of that kind
		byKind := map[string][]int{}
		var kindsSeen []string
		n0 := 0
		walk.Plan(p)(func(it walk.Item) bool {
			k := fmt.Sprintf("%T", it.Value)
			if byKind[k] == nil {
				kindsSeen = append(kindsSeen, k)
			}
			byKind[k] = append(byKind[k], n0)
			n0++
			return true
		})
		ofKind := byKind[kindsSeen[r.Intn(len(kindsSeen))]]
		pick := ofKind[r.Intn(len(ofKind))]
		calls := 0
		seqLive(func(it walk.Item) bool {
			if calls == pick {
				live = grow(r, g, p, it.Value)
			}
			calls++
			kept = append(kept, it)
			return true
		})
		paths2 := plancoq.PathIndex(p)
		term2 := plancoq.NewCtx(set.Lookup).Plan(p)
		o2 := stopObs{K: 0, Calls: calls, Reading: "live-change:walk-during-which-the-consumer-added-" + live}
		for _, it := range kept {
			o2.Items = append(o2.Items, itemTerm(paths2, it))
		}
		o3, _ := walkStop(p, paths2, 0)
		o3.Reading = "live-change:fresh-iterator-afterwards"
		emit(w, fmt.Sprintf("walk-live-%d", i), "walk-live", term2, []stopObs{o2, o3}, true,
			map[string]any{"objects": o3.Calls, "stops": 2, "reshaped": did, "blocks": len(p.Blocks), "kept_differs": 0,
				"same_seq_walks": 0, "seqs_with_actions": seqsWithActions, "change": "during-walk:" + live}, input)
	}
}

// stampIDs gives the objects IDs (the walk must not look at them; the model does not): none at all, all
// distinct, or k >= 2 different objects sharing ONE non-nil id (as when objects are stamped out by copying a
// template by value): two actions, two sequences, a block and a group, an object and its own child, or a
// random handful of any kind; the other objects nil or distinct.
func stampIDs(r *core.Rand, p *workflow.Plan, i int) string {
	type obj struct {
		set  func(uuid.UUID)
		kind string
		kids []int // indices of its children
	}
	var objs []obj
	add := func(kind string, set func(uuid.UUID)) int {
		objs = append(objs, obj{set: set, kind: kind})
		return len(objs) - 1
	}
	kid := func(parent, child int) { objs[parent].kids = append(objs[parent].kids, child) }
	acts := func(parent int, as []*workflow.Action) {
		for _, a := range as {
			if a != nil {
				kid(parent, add("action", func(u uuid.UUID) { a.ID = u }))
			}
		}
	}
	checks := func(parent int, k *workflow.Checks) {
		if k != nil {
			c := add("checks", func(u uuid.UUID) { k.ID = u })
			kid(parent, c)
			acts(c, k.Actions)
		}
	}
	root := add("plan", func(u uuid.UUID) { p.ID = u })
	for _, k := range []*workflow.Checks{p.BypassChecks, p.PreChecks, p.ContChecks, p.PostChecks, p.DeferredChecks} {
		checks(root, k)
	}
	for _, b := range p.Blocks {
		if b == nil {
			continue
		}
		bi := add("block", func(u uuid.UUID) { b.ID = u })
		kid(root, bi)
		for _, k := range []*workflow.Checks{b.BypassChecks, b.PreChecks, b.ContChecks, b.PostChecks, b.DeferredChecks} {
			checks(bi, k)
		}
		for _, q := range b.Sequences {
			if q != nil {
				qi := add("sequence", func(u uuid.UUID) { q.ID = u })
				kid(bi, qi)
				acts(qi, q.Actions)
			}
		}
	}
	mode := i % 4
	if mode == 0 {
		return "all-nil"
	}
	if mode == 1 || r.Chance(0.5) { // everything distinct (mode 1), or as the background of a shared id
		for _, o := range objs {
			o.set(plangen.V7(r))
		}
	}
	if mode == 1 {
		return "all-distinct"
	}
	ofKind := func(k string) (ix []int) {
		for j, o := range objs {
			if o.kind == k {
				ix = append(ix, j)
			}
		}
		return
	}
	two := func(ix []int) []int {
		if len(ix) < 2 {
			return nil
		}
		a := r.Intn(len(ix))
		b := r.Intn(len(ix) - 1)
		if b >= a {
			b++
		}
		return []int{ix[a], ix[b]}
	}
	var chosen []int
	what := ""
	for try := 0; try < 12 && chosen == nil; try++ {
		switch r.Intn(5) {
		case 0:
			chosen, what = two(ofKind("action")), "two-actions"
		case 1:
			chosen, what = two(ofKind("sequence")), "two-sequences"
		case 2:
			if b, k := ofKind("block"), ofKind("checks"); len(b) > 0 && len(k) > 0 {
				chosen, what = []int{b[r.Intn(len(b))], k[r.Intn(len(k))]}, "block-and-group"
			}
		case 3:
			var par []int
			for j, o := range objs {
				if len(o.kids) > 0 {
					par = append(par, j)
				}
			}
			if len(par) > 0 {
				pa := par[r.Intn(len(par))]
				chosen, what = []int{pa, objs[pa].kids[r.Intn(len(objs[pa].kids))]}, "object-and-its-child:"+objs[pa].kind
			}
		case 4:
			if len(objs) >= 3 {
				n := r.Range(2, 4)
				for len(chosen) < n {
					chosen = append(chosen, r.Intn(len(objs)))
				}
				what = "random-handful"
			}
		}
	}
	if chosen == nil {
		return "all-distinct-or-nil"
	}
	u := plangen.V7(r)
	for _, j := range chosen {
		objs[j].set(u)
	}
	return "shared:" + what
}

func emit(w *core.Writer, id, kind, planTerm string, obs []stopObs, nontrivial bool, dist map[string]any, input any) {
	var terms []string
	panicked := ""
	for _, so := range obs {
		terms = append(terms, core.Sprintf("(%d, %d, %s)", so.K, so.Calls, core.List(so.Items)))
		if so.Panic != "" && panicked == "" {
			panicked = so.Panic
		}
	}
	c := core.Case{
		ID:         id,
		Kind:       kind,
		Coq:        core.Pair(planTerm, core.List(terms)),
		Nontrivial: nontrivial,
		Hash:       core.Hash(kind, strings.Join(obs[0].Items, "|")),
		Dist:       dist,
		Input:      input,
		Observed:   obs,
	}
	if panicked != "" {
		c.Note = "panic: " + panicked
	}
	w.Put(c)
}

// grow adds one object to the plan and says what.  at == nil: anywhere (a block, a sequence, an action of a
// sequence or of a group, an absent check group of the plan or of a block).  at != nil: the addition a consumer
// makes when it is handed `at` - something the walk reads only after having yielded `at`:
//
//	plan     -> an absent plan group, or a block;
//	block    -> an absent group of it, or a sequence of it;
//	sequence -> an action of it;  group -> an action of it;
//	action   -> the plan's deferred group (the last thing any walk reaches): set if absent, else an action appended
//	            to it - unless the action handed over is itself in that group (then nothing).
func grow(r *core.Rand, g *plangen.Gen, p *workflow.Plan, at workflow.Object) string {
	setAbsent := func(slots []**workflow.Checks, names []string, where string) string {
		var free []int
		for i, s := range slots {
			if *s == nil {
				free = append(free, i)
			}
		}
		if len(free) == 0 {
			return ""
		}
		k := free[r.Intn(len(free))]
		*slots[k] = g.Checks("x/" + names[k])
		return where + " group " + names[k] + " set"
	}
	gnames := []string{"bypass", "pre", "cont", "post", "deferred"}
	pslots := func() []**workflow.Checks {
		return []**workflow.Checks{&p.BypassChecks, &p.PreChecks, &p.ContChecks, &p.PostChecks, &p.DeferredChecks}
	}
	bslots := func(b *workflow.Block) []**workflow.Checks {
		return []**workflow.Checks{&b.BypassChecks, &b.PreChecks, &b.ContChecks, &b.PostChecks, &b.DeferredChecks}
	}
	addBlock := func() string { p.Blocks = append(p.Blocks, g.Block("x/b")); return "block appended" }
	addSeq := func(b *workflow.Block) string {
		b.Sequences = append(b.Sequences, g.Sequence("x/s"))
		return "sequence appended to a block"
	}
	addSeqAct := func(q *workflow.Sequence) string {
		q.Actions = append(q.Actions, g.Action(false, "x/a"))
		return "action appended to a sequence"
	}
	addChkAct := func(k *workflow.Checks) string {
		k.Actions = append(k.Actions, g.Action(true, "x/ca"))
		return "action appended to a group"
	}
	switch t := at.(type) {
	case *workflow.Plan:
		if r.Chance(0.5) {
			if s := setAbsent(pslots(), gnames, "plan"); s != "" {
				return s
			}
		}
		return addBlock()
	case *workflow.Block:
		if r.Chance(0.5) {
			if s := setAbsent(bslots(t), gnames, "this block's"); s != "" {
				return s
			}
		}
		return addSeq(t) + " (this one)"
	case *workflow.Sequence:
		return addSeqAct(t) + " (this one)"
	case *workflow.Checks:
		return addChkAct(t) + " (this one)"
	case *workflow.Action:
		// later than anything an action can be part of, except the plan's own deferred group
		if p.DeferredChecks == nil {
			p.DeferredChecks = g.Checks("x/deferred")
			return "plan group deferred set (from an action)"
		}
		for _, a := range p.DeferredChecks.Actions {
			if a == t {
				return "nothing (action of the plan's deferred group)"
			}
		}
		return addChkAct(p.DeferredChecks) + " (plan deferred, from an action)"
	}
	// anywhere
	var blocks []*workflow.Block
	var seqs []*workflow.Sequence
	var groups []*workflow.Checks
	for _, k := range pslots() {
		if *k != nil {
			groups = append(groups, *k)
		}
	}
	for _, b := range p.Blocks {
		if b == nil {
			continue
		}
		blocks = append(blocks, b)
		for _, k := range bslots(b) {
			if *k != nil {
				groups = append(groups, *k)
			}
		}
		for _, q := range b.Sequences {
			if q != nil {
				seqs = append(seqs, q)
			}
		}
	}
	for try := 0; try < 20; try++ {
		switch r.Intn(6) {
		case 0:
			return addBlock()
		case 1:
			if len(blocks) > 0 {
				return addSeq(blocks[r.Intn(len(blocks))])
			}
		case 2:
			if len(seqs) > 0 {
				return addSeqAct(seqs[r.Intn(len(seqs))])
			}
		case 3:
			if len(groups) > 0 {
				return addChkAct(groups[r.Intn(len(groups))])
			}
		case 4:
			if s := setAbsent(pslots(), gnames, "plan"); s != "" {
				return s
			}
		case 5:
			if len(blocks) > 0 {
				if s := setAbsent(bslots(blocks[r.Intn(len(blocks))]), gnames, "a block's"); s != "" {
					return s
				}
			}
		}
	}
	return addBlock()
}
