// fixprobe: ties the Coq model of crash repair (coq/recover/Fix.v) to internal/execute/sm/recovery.go.
//
// For every generated image it calls the REAL repair function through the verifhooks package (build tag verif)
// and prints a case holding the image before, the image afterwards (both abstracted to the terms of Fix.v:
// statuses, attempts as (has error, End is zero), zero-ness of Start/End), the plugin call log of the sequences
// fixBlock executed, and - for a sample of reachable images - the entry point observed on a real recovery
// (coercion.New on a sqlite vault holding the image).
//
//   arbitrary images : random statuses / attempt shapes on random shapes, at every level (action, checks,
//                      sequence, block, plan) so that early returns of an outer function do not hide the inner ones;
//   reachable images : real plans run through coercion.New on an in-memory sqlite vault behind a wrapper that reads the
//                      plan back after every Update* - every such read is the durable image a crash at that point
//                      leaves behind;
//   witnesses        : the images of the R2 / R3 refutation lemmas (coq/recover/Witness.v), replayed on the code.
//
// Real engine runs happen in child processes (re-exec with -child).
package main

import (
	"bufio"
	"encoding/json"
	"flag"
	"fmt"
	"os"
	"os/exec"
	"runtime/debug"
	"sort"
	"strings"
	"sync"
	"time"

	"verifharness/core"
	"verifharness/hplug"
	"verifharness/plangen"

	"github.com/element-of-surprise/coercion"
	"github.com/element-of-surprise/coercion/plugins"
	"github.com/element-of-surprise/coercion/verifhooks"
	"github.com/element-of-surprise/coercion/workflow"
	"github.com/element-of-surprise/coercion/workflow/context"
	"github.com/element-of-surprise/coercion/workflow/storage"
	"github.com/element-of-surprise/coercion/workflow/storage/sqlite"
	"github.com/google/uuid"
)

// ------------------------------------------------------------------ abstraction to Fix.v terms

func stTerm(s workflow.Status) string {
	switch s {
	case workflow.NotStarted:
		return "NotStarted"
	case workflow.Running:
		return "Running"
	case workflow.Completed:
		return "Completed"
	case workflow.Failed:
		return "Failed"
	case workflow.Stopped:
		return "Stopped"
	}
	panic(fmt.Sprintf("status %d outside the modelled domain", s))
}

func hdr(st *workflow.State) string {
	return stTerm(st.Status) + " " + core.B(st.Start.IsZero()) + " " + core.B(st.End.IsZero())
}

// numbering: actions are numbered in one fixed traversal order (plan groups, then per block: groups, sequences).
type numbering map[*workflow.Action]int

func actTerm(a *workflow.Action, n numbering) string {
	var atts []string
	for _, at := range a.Attempts {
		atts = append(atts, "(Build_att "+core.B(at.Err != nil)+" "+core.B(at.End.IsZero())+")")
	}
	return fmt.Sprintf("(Build_act %d %s %s)", n[a], hdr(a.State), core.List(atts))
}

func actsTerm(as []*workflow.Action, n numbering) string {
	var l []string
	for _, a := range as {
		l = append(l, actTerm(a, n))
	}
	return core.List(l)
}

func chkTerm(c *workflow.Checks, n numbering) string {
	return "(Build_chk " + hdr(c.State) + " " + actsTerm(c.Actions, n) + ")"
}

func ochkTerm(c *workflow.Checks, n numbering) string {
	if c == nil {
		return "None"
	}
	return "(Some " + chkTerm(c, n) + ")"
}

func seqTerm(s *workflow.Sequence, n numbering) string {
	return "(Build_seq " + hdr(s.State) + " " + actsTerm(s.Actions, n) + ")"
}

func blkTerm(b *workflow.Block, n numbering) string {
	var l []string
	for _, s := range b.Sequences {
		l = append(l, seqTerm(s, n))
	}
	return "(Build_blk " + hdr(b.State) + " " + ochkTerm(b.BypassChecks, n) + " " + ochkTerm(b.PreChecks, n) + " " +
		ochkTerm(b.ContChecks, n) + " " + ochkTerm(b.PostChecks, n) + " " + ochkTerm(b.DeferredChecks, n) + " " + core.List(l) + ")"
}

func plnTerm(p *workflow.Plan, n numbering) string {
	var l []string
	for _, b := range p.Blocks {
		l = append(l, blkTerm(b, n))
	}
	return "(Build_pln " + hdr(p.State) + " " + ochkTerm(p.BypassChecks, n) + " " + ochkTerm(p.PreChecks, n) + " " +
		ochkTerm(p.ContChecks, n) + " " + ochkTerm(p.PostChecks, n) + " " + ochkTerm(p.DeferredChecks, n) + " " + core.List(l) + ")"
}

func groupsOfPlan(p *workflow.Plan) []*workflow.Checks {
	return []*workflow.Checks{p.BypassChecks, p.PreChecks, p.ContChecks, p.PostChecks, p.DeferredChecks}
}
func groupsOfBlock(b *workflow.Block) []*workflow.Checks {
	return []*workflow.Checks{b.BypassChecks, b.PreChecks, b.ContChecks, b.PostChecks, b.DeferredChecks}
}

// actionsOf lists the actions of a plan in the numbering order; seqOf tells (block, sequence) of sequence actions.
func actionsOf(p *workflow.Plan) (all []*workflow.Action, seqOf map[*workflow.Action][2]int) {
	seqOf = map[*workflow.Action][2]int{}
	for _, c := range groupsOfPlan(p) {
		if c != nil {
			all = append(all, c.Actions...)
		}
	}
	for i, b := range p.Blocks {
		for _, c := range groupsOfBlock(b) {
			if c != nil {
				all = append(all, c.Actions...)
			}
		}
		for j, s := range b.Sequences {
			for _, a := range s.Actions {
				all = append(all, a)
				seqOf[a] = [2]int{i, j}
			}
		}
	}
	return
}

func number(p *workflow.Plan) numbering {
	n := numbering{}
	all, _ := actionsOf(p)
	for i, a := range all {
		n[a] = i
	}
	return n
}

// ------------------------------------------------------------------ scripted plugins with a call log

const (
	oOk = iota
	oTransient
	oPermanent
)

var outNames = []string{"OOk", "OTransient", "OPermanent"}

// session is what the plugins know about one case, found through the nonce carried inside the request.
type session struct {
	mu      sync.Mutex
	script  map[string][]int // action path "a<id>" -> outcome of call 1, 2, ...
	count   map[string]int
	calls   []string // paths in call order
	sleepUs int
}

var (
	sessMu   sync.Mutex
	sessions = map[string]*session{}
)

func behave(ctx context.Context, p *hplug.Plugin, req any) (any, *plugins.Error) {
	rq, ok := req.(hplug.Req)
	if !ok {
		return p.OKResp(req), nil
	}
	sessMu.Lock()
	s := sessions[rq.Nonce]
	sessMu.Unlock()
	if s == nil {
		return p.OKResp(req), nil
	}
	s.mu.Lock()
	k := s.count[rq.Path]
	s.count[rq.Path] = k + 1
	s.calls = append(s.calls, rq.Path)
	o := oOk
	if sc := s.script[rq.Path]; k < len(sc) {
		o = sc[k]
	}
	sl := s.sleepUs
	s.mu.Unlock()
	if sl > 0 {
		time.Sleep(time.Duration(sl) * time.Microsecond)
	}
	switch o {
	case oTransient:
		return nil, &plugins.Error{Message: "scripted transient failure"}
	case oPermanent:
		return nil, &plugins.Error{Message: "scripted permanent failure", Permanent: true}
	}
	return p.OKResp(req), nil
}

func openSession(nonce string, script map[string][]int, sleepUs int) *session {
	s := &session{script: script, count: map[string]int{}, sleepUs: sleepUs}
	sessMu.Lock()
	sessions[nonce] = s
	sessMu.Unlock()
	return s
}

func closeSession(nonce string) {
	sessMu.Lock()
	delete(sessions, nonce)
	sessMu.Unlock()
}

// scriptTerm prints the script of the actions of one case: id |-> (Retries, outcomes).
func scriptTerm(all []*workflow.Action, n numbering, script map[string][]int) string {
	var l []string
	for _, a := range all {
		var outs []string
		for _, o := range script[fmt.Sprintf("a%d", n[a])] {
			outs = append(outs, outNames[o])
		}
		r := a.Retries
		if r < 0 {
			r = 0
		}
		l = append(l, fmt.Sprintf("(%d, (%d, %s))", n[a], r, core.List(outs)))
	}
	return core.List(l)
}

// ------------------------------------------------------------------ a store that only logs (for the hooks)

type stubVault struct {
	storage.Vault // nil: fixBlock -> execSeq -> runAction only call UpdateSequence / UpdateAction
	mu            sync.Mutex
	writes        int
	seqs          map[uuid.UUID]int // UpdateSequence calls per sequence: execSeq always writes the sequence it runs
}

func (v *stubVault) note() { v.mu.Lock(); v.writes++; v.mu.Unlock() }
func (v *stubVault) takeSeqs() map[uuid.UUID]int {
	v.mu.Lock()
	defer v.mu.Unlock()
	m := v.seqs
	v.seqs = map[uuid.UUID]int{}
	return m
}
func (v *stubVault) UpdatePlan(ctx context.Context, p *workflow.Plan) error {
	v.note()
	return nil
}
func (v *stubVault) UpdateChecks(ctx context.Context, c *workflow.Checks) error {
	v.note()
	return nil
}
func (v *stubVault) UpdateBlock(ctx context.Context, b *workflow.Block) error {
	v.note()
	return nil
}
func (v *stubVault) UpdateSequence(ctx context.Context, s *workflow.Sequence) error {
	v.note()
	v.mu.Lock()
	if v.seqs == nil {
		v.seqs = map[uuid.UUID]int{}
	}
	v.seqs[s.ID]++
	v.mu.Unlock()
	return nil
}
func (v *stubVault) UpdateAction(ctx context.Context, a *workflow.Action) error {
	v.note()
	return nil
}

// ------------------------------------------------------------------ generation of shapes and images

type gen struct {
	r     *core.Rand
	set   *hplug.Set
	nonce string
}

// shape makes a valid plan shape with ids and states (as Submit leaves it), requests carrying nonce and "a<id>".
func (g *gen) shape(o plangen.Opts) (*workflow.Plan, numbering) {
	pg := plangen.New(g.r, o)
	p := pg.Plan()
	g.nonce = pg.Nonce
	p.ID = plangen.V7(g.r)
	p.State = &workflow.State{}
	p.SubmitTime = time.Now().UTC()
	grp := func(c *workflow.Checks) {
		if c == nil {
			return
		}
		c.ID = plangen.V7(g.r)
		c.State = &workflow.State{}
		c.Delay = time.Duration(g.r.Range(2, 6)) * time.Millisecond
	}
	for _, c := range groupsOfPlan(p) {
		grp(c)
	}
	for _, b := range p.Blocks {
		b.ID = plangen.V7(g.r)
		b.State = &workflow.State{}
		b.EntranceDelay, b.ExitDelay = 0, 0
		if b.Concurrency < 1 {
			b.Concurrency = 1
		}
		for _, c := range groupsOfBlock(b) {
			grp(c)
		}
		for _, s := range b.Sequences {
			s.ID = plangen.V7(g.r)
			s.State = &workflow.State{}
		}
	}
	n := number(p)
	all, _ := actionsOf(p)
	for _, a := range all {
		a.ID = plangen.V7(g.r)
		a.State = &workflow.State{}
		a.Timeout = 5 * time.Second
		a.Retries = g.r.Intn(3)
		a.Req = hplug.Req{Nonce: g.nonce, Path: fmt.Sprintf("a%d", n[a]), Arg: int64(n[a])}
	}
	return p, n
}

// script draws outcomes for every action. failP: probability that an action's script contains a failure.
func (g *gen) script(all []*workflow.Action, n numbering, failP float64) map[string][]int {
	sc := map[string][]int{}
	for _, a := range all {
		if !g.r.Chance(failP) {
			continue
		}
		var outs []int
		switch g.r.Intn(4) {
		case 0:
			outs = []int{oPermanent}
		case 1:
			outs = []int{oTransient} // succeeds at the second call if Retries >= 1, fails otherwise
		case 2:
			outs = []int{oTransient, oTransient, oTransient, oTransient}
		default:
			outs = []int{oOk, oPermanent} // matters for continuous checks: second run fails
		}
		sc[fmt.Sprintf("a%d", n[a])] = outs
	}
	return sc
}

// t0: two minutes ago (only zero-ness of instants is abstracted; recovery refuses plans idle for 30 minutes)
var t0 = time.Now().UTC().Add(-2 * time.Minute).Truncate(time.Millisecond)

func (g *gen) someTime(zeroP float64) time.Time {
	if g.r.Chance(zeroP) {
		return time.Time{}
	}
	return t0.Add(time.Duration(g.r.Intn(60000)) * time.Millisecond)
}

// status weights: NotStarted Running Completed Failed Stopped
func (g *gen) status(w []int) workflow.Status {
	return []workflow.Status{workflow.NotStarted, workflow.Running, workflow.Completed, workflow.Failed, workflow.Stopped}[g.r.Weighted(w)]
}

func (g *gen) state(st *workflow.State, w []int) {
	st.Status = g.status(w)
	switch st.Status {
	case workflow.NotStarted:
		st.Start, st.End = g.someTime(0.9), g.someTime(0.9)
	case workflow.Running:
		st.Start, st.End = g.someTime(0.1), g.someTime(0.85)
	default:
		st.Start, st.End = g.someTime(0.1), g.someTime(0.15)
	}
}

// engineTimeoutMsg is the message of the error the engine itself records for an attempt it timed out
// (internal/execute/sm/actions: pluginTimeoutMsg; not permanent). Repair must treat it like any other recorded error.
const engineTimeoutMsg = "plugin execution timed out"

// someErr draws the error of a recorded attempt: a plugin's own error (transient or permanent as asked), or - one time
// in three for non-permanent ones - exactly the error the engine writes when the action's timeout fired.
func (g *gen) someErr(permanent bool) *plugins.Error {
	if !permanent && g.r.Chance(0.34) {
		return &plugins.Error{Message: engineTimeoutMsg, Permanent: false}
	}
	return &plugins.Error{Message: "x", Permanent: permanent}
}

func (g *gen) attempts(a *workflow.Action) {
	n := 0
	switch a.State.Status {
	case workflow.NotStarted:
		if g.r.Chance(0.1) {
			n = g.r.Range(1, 3)
		}
	default:
		n = g.r.Weighted([]int{3, 5, 3, 2, 1})
	}
	a.Attempts = nil
	for i := 0; i < n; i++ {
		at := &workflow.Attempt{Start: g.someTime(0.05)}
		last := i == n-1
		// earlier attempts are normally complete failures; the last one is anything
		switch {
		case last && a.State.Status == workflow.Running:
			at.End = g.someTime(0.5)
			if g.r.Chance(0.5) {
				at.Err = g.someErr(false)
			}
		case last:
			at.End = g.someTime(0.15)
			if g.r.Chance(0.5) {
				at.Err = g.someErr(g.r.Chance(0.5))
			}
		default:
			at.End = g.someTime(0.25)
			if g.r.Chance(0.75) {
				at.Err = g.someErr(false)
			}
		}
		if at.Err == nil && !at.End.IsZero() {
			at.Resp = hplug.Resp{Path: "r"}
		}
		a.Attempts = append(a.Attempts, at)
	}
}

type profile struct {
	name                       string
	plan, grp, blk, seq, act   []int
	gact                       []int // actions of check groups
}

var profiles = []profile{
	{"uniform", []int{1, 1, 1, 1, 1}, []int{1, 1, 1, 1, 1}, []int{1, 1, 1, 1, 1}, []int{1, 1, 1, 1, 1}, []int{1, 1, 1, 1, 1}, []int{1, 1, 1, 1, 1}},
	{"running-heavy", []int{0, 12, 1, 1, 0}, []int{6, 2, 4, 2, 0}, []int{2, 10, 3, 1, 0}, []int{2, 10, 4, 1, 0}, []int{5, 6, 6, 2, 0}, []int{4, 4, 4, 2, 0}},
	{"no-failure", []int{0, 1, 0, 0, 0}, []int{6, 1, 3, 0, 0}, []int{2, 6, 3, 0, 0}, []int{3, 8, 4, 0, 0}, []int{5, 5, 6, 0, 0}, []int{4, 3, 4, 0, 0}},
	{"stops", []int{0, 10, 1, 1, 1}, []int{6, 1, 4, 1, 1}, []int{2, 10, 3, 1, 1}, []int{2, 10, 4, 1, 2}, []int{5, 6, 6, 1, 2}, []int{4, 4, 4, 2, 1}},
	{"groups-done", []int{0, 1, 0, 0, 0}, []int{5, 0, 10, 1, 0}, []int{1, 6, 6, 0, 0}, []int{1, 5, 10, 0, 0}, []int{2, 3, 12, 0, 0}, []int{0, 0, 1, 0, 0}},
}

func (g *gen) fillAction(a *workflow.Action, w []int) {
	g.state(a.State, w)
	g.attempts(a)
}

func (g *gen) fillChecks(c *workflow.Checks, pr profile) {
	if c == nil {
		return
	}
	g.state(c.State, pr.grp)
	for _, a := range c.Actions {
		g.fillAction(a, pr.gact)
	}
}

func (g *gen) fillSeq(s *workflow.Sequence, pr profile) {
	g.state(s.State, pr.seq)
	if g.r.Intn(4) == 0 && s.State.Status == workflow.Running {
		// near-reachable: a Completed prefix, then one action that may be Running, then NotStarted ones
		k := g.r.Intn(len(s.Actions) + 1)
		for i, a := range s.Actions {
			switch {
			case i < k:
				g.fillAction(a, []int{0, 0, 1, 0, 0})
			case i == k:
				g.fillAction(a, []int{1, 3, 0, 0, 0})
			default:
				g.fillAction(a, []int{1, 0, 0, 0, 0})
			}
		}
		return
	}
	for _, a := range s.Actions {
		g.fillAction(a, pr.act)
	}
}

func (g *gen) fillBlock(b *workflow.Block, pr profile) {
	g.state(b.State, pr.blk)
	for _, c := range groupsOfBlock(b) {
		g.fillChecks(c, pr)
	}
	for _, s := range b.Sequences {
		g.fillSeq(s, pr)
	}
}

func (g *gen) fillPlan(p *workflow.Plan, pr profile) {
	g.state(p.State, pr.plan)
	for _, c := range groupsOfPlan(p) {
		g.fillChecks(c, pr)
	}
	for _, b := range p.Blocks {
		g.fillBlock(b, pr)
	}
}

// ------------------------------------------------------------------ running the hooks

type fixer struct {
	set    *hplug.Set
	store  *stubVault
	states *verifhooks.States
}

func newFixer(set *hplug.Set) *fixer {
	st := &stubVault{}
	s, err := verifhooks.NewStates(st, set.Reg)
	if err != nil {
		panic(err)
	}
	return &fixer{set: set, store: st, states: s}
}

func guarded(f func()) (panicked string) {
	defer func() {
		if r := recover(); r != nil {
			panicked = fmt.Sprintf("%v\n%s", r, debug.Stack())
		}
	}()
	f()
	return ""
}

// seqCalls is the plugin call log of one executed sequence.
type seqCalls struct {
	I, J int
	IDs  []string
}

// callsBySeq lists the sequences that were executed (written through UpdateSequence, or with a plugin call) with
// their plugin calls, in (block, sequence) order. A call that belongs to no
// sequence action is reported under (999, 999): no model output has it.
func callsBySeq(p *workflow.Plan, n numbering, calls []string, written map[uuid.UUID]int) (out []seqCalls) {
	all, seqOf := actionsOf(p)
	byPath := map[string]*workflow.Action{}
	for _, a := range all {
		byPath[fmt.Sprintf("a%d", n[a])] = a
	}
	per := map[[2]int][]string{}
	for _, c := range calls {
		a := byPath[c]
		ij, ok := seqOf[a]
		if a == nil || !ok {
			ij = [2]int{999, 999}
		}
		per[ij] = append(per[ij], strings.TrimPrefix(c, "a"))
	}
	for i, b := range p.Blocks {
		for j, sq := range b.Sequences {
			if written[sq.ID] > 0 && per[[2]int{i, j}] == nil {
				per[[2]int{i, j}] = []string{}
			}
		}
	}
	for ij, ids := range per {
		out = append(out, seqCalls{ij[0], ij[1], ids})
	}
	sort.Slice(out, func(a, b int) bool {
		if out[a].I != out[b].I {
			return out[a].I < out[b].I
		}
		return out[a].J < out[b].J
	})
	return
}

func planCallsTerm(cs []seqCalls) string {
	var l []string
	for _, c := range cs {
		l = append(l, fmt.Sprintf("(%d, %d, %s)", c.I, c.J, core.List(c.IDs)))
	}
	return core.List(l)
}

// blockCallsTerm keeps the calls of block bi as (sequence, ids); calls elsewhere get sequence 999.
func blockCallsTerm(cs []seqCalls, bi int) string {
	var l []string
	for _, c := range cs {
		j := c.J
		if c.I != bi {
			j = 999
		}
		l = append(l, fmt.Sprintf("(%d, %s)", j, core.List(c.IDs)))
	}
	return core.List(l)
}

func statusMix(p *workflow.Plan) map[string]int {
	m := map[string]int{}
	add := func(k string, st *workflow.State) { m[k+":"+stTerm(st.Status)]++ }
	add("plan", p.State)
	for _, c := range groupsOfPlan(p) {
		if c != nil {
			add("group", c.State)
			for _, a := range c.Actions {
				add("gaction", a.State)
			}
		}
	}
	for _, b := range p.Blocks {
		add("block", b.State)
		for _, c := range groupsOfBlock(b) {
			if c != nil {
				add("group", c.State)
				for _, a := range c.Actions {
					add("gaction", a.State)
				}
			}
		}
		for _, s := range b.Sequences {
			add("seq", s.State)
			for _, a := range s.Actions {
				add("action", a.State)
			}
		}
	}
	return m
}

func runningMix(p *workflow.Plan) map[string]int {
	m := map[string]int{}
	for k, v := range statusMix(p) {
		if strings.HasSuffix(k, ":Running") {
			m[strings.TrimSuffix(k, ":Running")] = v
		}
	}
	return m
}

func countRunning(p *workflow.Plan) (n int) {
	for k, v := range statusMix(p) {
		if strings.HasSuffix(k, ":Running") {
			n += v
		}
	}
	return
}

// fixPlanCase runs the real fixPlan on p (mutating it) and builds the CPln term.
func (f *fixer) fixPlanCase(p *workflow.Plan, n numbering, nonce string, script map[string][]int, entry string) (coq string, obs map[string]any, note string) {
	all, _ := actionsOf(p)
	before := plnTerm(p, n)
	mix := statusMix(p)
	s := openSession(nonce, script, 0)
	f.store.takeSeqs()
	pan := guarded(func() { f.states.FixPlan(p) })
	closeSession(nonce)
	written := f.store.takeSeqs()
	after := plnTerm(p, n)
	s.mu.Lock()
	calls := append([]string(nil), s.calls...)
	s.mu.Unlock()
	executed := callsBySeq(p, n, calls, written)
	e := "None"
	if entry != "" {
		e = "(Some " + entry + ")"
	}
	coq = fmt.Sprintf("(CPln %s %s %s %s %s)", scriptTerm(all, n, script), before, after, planCallsTerm(executed), e)
	obs = map[string]any{"plan_status_after": stTerm(p.State.Status), "executed_sequences": executed, "plugin_calls": len(calls),
		"running_left": countRunning(p), "running_left_mix": runningMix(p), "status_mix_before": mix, "after": after}
	if pan != "" {
		note = "panic: " + pan
	}
	return
}

// ------------------------------------------------------------------ arbitrary images

func arbitrary(w *core.Writer, n int) {
	root := core.NewRand(core.Seed() ^ 0xa5a5)
	set := hplug.NewSet()
	set.Action.SetBehaviour(behave)
	set.Check.SetBehaviour(behave)
	f := newFixer(set)
	serial := 0
	put := func(i int, kind, coq, before string, dist map[string]any, obs any, note string) {
		serial++
		w.Put(core.Case{ID: fmt.Sprintf("%s-%d-%d", kind, i, serial), Kind: kind, Coq: coq, Nontrivial: true,
			Hash: core.Hash(kind, coq), Dist: dist, Input: map[string]any{"seed": core.Seed(), "index": i, "before": before}, Observed: obs, Note: note})
	}
	for i := 0; i < n; i++ {
		g := &gen{r: root.Fork(uint64(i)), set: set}
		pr := profiles[i%len(profiles)]
		o := plangen.Opts{GroupP: []float64{0.2, 0.5, 0.8}[i%3], MaxBlocks: 1 + (i/2)%3, MaxSeqs: 1 + (i/5)%3, MaxActions: 1 + (i/7)%4, MaxCheckActions: 2}
		p, num := g.shape(o)
		all, _ := actionsOf(p)
		g.fillPlan(p, pr)
		script := g.script(all, num, 0.3)
		dist := map[string]any{"profile": pr.name}
		switch i % 12 {
		case 0, 1: // one action
			for k := 0; k < 6; k++ {
				a := all[g.r.Intn(len(all))]
				g.fillAction(a, []int{1, 8, 1, 1, 1})
				b := actTerm(a, num)
				pan := guarded(func() { verifhooks.FixAction(a) })
				put(i*10+k, "arb-action", fmt.Sprintf("(CAct %s %s)", b, actTerm(a, num)), b, dist, actTerm(a, num), notePanic(pan))
			}
		case 2: // one check group + the guards
			for _, c := range append(groupsOfPlan(p), groupsOfBlock(p.Blocks[0])...) {
				gt := ochkTerm(c, num)
				put(i*10, "arb-guard", fmt.Sprintf("(CGuard %s %s %s %s)", gt, core.B(verifhooks.SkipRecoveredChecks(c)),
					core.B(verifhooks.ChecksCompleted(c)), core.B(verifhooks.ChecksFailed(c))), gt, dist, nil, "")
				if c == nil {
					continue
				}
				if g.r.Chance(0.6) {
					c.State.Status = workflow.Running
				}
				b := chkTerm(c, num)
				pan := guarded(func() { verifhooks.FixChecks(c) })
				put(i*10+1, "arb-checks", fmt.Sprintf("(CChk %s %s)", b, chkTerm(c, num)), b, dist, chkTerm(c, num), notePanic(pan))
			}
			for _, st := range []workflow.Status{workflow.NotStarted, workflow.Running, workflow.Completed, workflow.Failed, workflow.Stopped} {
				blk := p.Blocks[0]
				blk.State.Status = st
				put(i*10+2, "arb-iscompleted", fmt.Sprintf("(CIsCompleted %s %s)", stTerm(st), core.B(verifhooks.IsCompleted(blk))), stTerm(st), dist, nil, "")
			}
		case 3, 4: // one sequence
			for _, b := range p.Blocks {
				for _, s := range b.Sequences {
					if g.r.Chance(0.7) {
						s.State.Status = workflow.Running
					}
					bt := seqTerm(s, num)
					pan := guarded(func() { verifhooks.FixSeq(s) })
					put(i*10, "arb-seq", fmt.Sprintf("(CSeq %s %s)", bt, seqTerm(s, num)), bt, dist, seqTerm(s, num), notePanic(pan))
				}
			}
		case 5, 6, 7: // one block (fixBlock executes what it finds Running)
			for bi, b := range p.Blocks {
				if g.r.Chance(0.8) {
					b.State.Status = workflow.Running
				}
				if len(b.Sequences) >= 2 && len(b.Sequences[1].Actions) >= 2 && g.r.Chance(0.3) {
					// one sequence stops the block, another one is resumed first
					b.State.Status = workflow.Running
					for _, c := range groupsOfBlock(b)[:4] {
						if c != nil {
							c.State.Status = workflow.NotStarted
						}
					}
					b.Sequences[0].State.Status = workflow.Running
					b.Sequences[0].Actions[0].State.Status = workflow.Stopped
					sq := b.Sequences[1]
					sq.State.Status = workflow.Running
					for k, a := range sq.Actions {
						if k == 0 {
							g.fillAction(a, []int{0, 0, 1, 0, 0})
						} else {
							g.fillAction(a, []int{1, 0, 0, 0, 0})
							a.Attempts = nil
						}
					}
				}
				bt := blkTerm(b, num)
				s := openSession(g.nonce, script, 0)
				f.store.takeSeqs()
				pan := guarded(func() { f.states.FixBlock(b) })
				closeSession(g.nonce)
				cts := blockCallsTerm(callsBySeq(p, num, s.calls, f.store.takeSeqs()), bi)
				put(i*10+bi, "arb-block", fmt.Sprintf("(CBlk %s %s %s %s)", scriptTerm(all, num, script), bt, blkTerm(b, num), cts),
					bt, dist, map[string]any{"after": blkTerm(b, num), "calls": s.calls}, notePanic(pan))
			}
		default: // whole plan
			if g.r.Chance(0.9) {
				p.State.Status = workflow.Running
			}
			// steer past the early returns so that the later branches of fixPlan / fixBlock are reached often
			calm := func(by, pre, cont, post *workflow.Checks, contFailP float64) {
				if by != nil && by.State.Status == workflow.Completed {
					by.State.Status = workflow.Failed
				}
				for _, c := range []*workflow.Checks{pre, post} {
					if c != nil && c.State.Status == workflow.Failed {
						c.State.Status = workflow.Completed
					}
				}
				if cont != nil {
					if g.r.Chance(contFailP) {
						cont.State.Status = workflow.Failed
					} else if cont.State.Status == workflow.Failed {
						cont.State.Status = workflow.NotStarted
					}
				}
			}
			if p.ContChecks != nil && g.r.Chance(0.3) {
				// the rare tails of fixPlan: continuous group Failed, then a block Stopped / a block Failed / nothing started
				calm(p.BypassChecks, p.PreChecks, p.ContChecks, p.PostChecks, 1)
				p.State.Status = workflow.Running
				b := p.Blocks[0]
				switch g.r.Intn(3) {
				case 0:
					b.State.Status = workflow.Running
					calm(b.BypassChecks, b.PreChecks, b.ContChecks, b.PostChecks, 0)
					b.Sequences[0].State.Status = workflow.Running
					b.Sequences[0].Actions[0].State.Status = workflow.Stopped
				case 1:
					b.State.Status = workflow.Failed
					for _, x := range p.Blocks[1:] {
						if x.State.Status == workflow.Stopped || x.State.Status == workflow.Running {
							x.State.Status = workflow.NotStarted
						}
					}
				default:
					for _, x := range p.Blocks {
						x.State.Status = workflow.NotStarted
					}
				}
			} else if g.r.Chance(0.6) {
				calm(p.BypassChecks, p.PreChecks, p.ContChecks, p.PostChecks, 0.5)
				for _, b := range p.Blocks {
					if g.r.Chance(0.7) {
						calm(b.BypassChecks, b.PreChecks, b.ContChecks, b.PostChecks, 0)
					}
				}
				if g.r.Chance(0.3) { // every block finished
					for _, b := range p.Blocks {
						b.State.Status = workflow.Completed
					}
					if g.r.Chance(0.5) && p.PostChecks != nil {
						p.PostChecks.State.Status = workflow.Completed
					}
					if g.r.Chance(0.5) && p.DeferredChecks != nil {
						p.DeferredChecks.State.Status = workflow.Completed
					}
				}
			}
			before := plnTerm(p, num)
			coq, obs, note := f.fixPlanCase(p, num, g.nonce, script, "")
			dist["status_mix"] = obs["status_mix_before"]
			delete(obs, "status_mix_before")
			put(i*10, "arb-plan", coq, before, dist, obs, note)
		}
	}
}

func notePanic(p string) string {
	if p == "" {
		return ""
	}
	return "panic: " + p
}

// ------------------------------------------------------------------ witnesses of the refutation lemmas

func mkAct(id int, nonce string, st workflow.Status, start, end bool, atts ...[2]bool) *workflow.Action {
	a := &workflow.Action{ID: uuid.Must(uuid.NewV7()), Name: "w", Descr: "w", Plugin: hplug.ActionName, Timeout: 5 * time.Second,
		Req: hplug.Req{Nonce: nonce, Path: fmt.Sprintf("a%d", id)}, State: mkState(st, start, end)}
	for _, x := range atts {
		at := &workflow.Attempt{Start: t0}
		if x[0] {
			at.Err = &plugins.Error{Message: "w", Permanent: true}
		}
		if !x[1] {
			at.End = t0.Add(time.Second)
		}
		a.Attempts = append(a.Attempts, at)
	}
	return a
}

func mkState(st workflow.Status, start, end bool) *workflow.State {
	s := &workflow.State{Status: st}
	if start {
		s.Start = t0
	}
	if end {
		s.End = t0.Add(time.Minute)
	}
	return s
}

func mkChk(st workflow.Status, start, end bool, as ...*workflow.Action) *workflow.Checks {
	for _, a := range as {
		a.Plugin = hplug.CheckName
	}
	return &workflow.Checks{ID: uuid.Must(uuid.NewV7()), State: mkState(st, start, end), Actions: as, Delay: time.Millisecond}
}

func witnesses(w *core.Writer) {
	set := hplug.NewSet()
	set.Action.SetBehaviour(behave)
	set.Check.SetBehaviour(behave)
	f := newFixer(set)
	ok := [2]bool{false, false}
	bad := [2]bool{true, false}
	const R, C, F, N = workflow.Running, workflow.Completed, workflow.Failed, workflow.NotStarted
	build := func(which string, nonce string) *workflow.Plan {
		p := &workflow.Plan{ID: uuid.Must(uuid.NewV7()), Name: "w", Descr: "w", State: mkState(R, true, false), SubmitTime: t0}
		switch which {
		case "R2":
			// crash while the deferred group of a block ran, after the block's post group failed:
			// block durably Failed, post group Failed, deferred group not yet written (NotStarted, started), its action Running
			p.Blocks = []*workflow.Block{{ID: uuid.Must(uuid.NewV7()), Name: "w", Descr: "w", Concurrency: 1, State: mkState(F, true, false),
				PostChecks:     mkChk(F, true, true, mkAct(0, nonce, F, true, true, bad)),
				DeferredChecks: mkChk(N, true, false, mkAct(1, nonce, R, true, false)),
				Sequences: []*workflow.Sequence{{ID: uuid.Must(uuid.NewV7()), Name: "w", Descr: "w", State: mkState(C, true, true),
					Actions: []*workflow.Action{mkAct(2, nonce, C, true, true, ok)}}}}}
		case "R3":
			// crash after a continuous check of the block failed while a sequence was in flight
			p.Blocks = []*workflow.Block{{ID: uuid.Must(uuid.NewV7()), Name: "w", Descr: "w", Concurrency: 1, State: mkState(R, true, false),
				ContChecks: mkChk(F, true, true, mkAct(0, nonce, F, true, true, bad)),
				Sequences: []*workflow.Sequence{{ID: uuid.Must(uuid.NewV7()), Name: "w", Descr: "w", State: mkState(R, true, false),
					Actions: []*workflow.Action{mkAct(1, nonce, C, true, true, ok), mkAct(2, nonce, R, true, false)}}}}}
		}
		return p
	}
	// secondCrashImage (R5): the REAL recovery of a first crash image (a sequence in flight whose only action is durably
	// Completed: fixSeq repairs the sequence to Completed in memory only) is run behind a vault that reads the plan back
	// after every write; the durable image right after the block's terminal write is what a second crash leaves behind.
	secondCrashImage := func(nonce string) (*workflow.Plan, string) {
		ctx := context.Background()
		p := &workflow.Plan{ID: uuid.Must(uuid.NewV7()), Name: "w", Descr: "w", State: mkState(R, true, false), SubmitTime: t0}
		p.Blocks = []*workflow.Block{{ID: uuid.Must(uuid.NewV7()), Name: "w", Descr: "w", Concurrency: 1, State: mkState(R, true, false),
			Sequences: []*workflow.Sequence{{ID: uuid.Must(uuid.NewV7()), Name: "w", Descr: "w", State: mkState(R, true, false),
				Actions: []*workflow.Action{mkAct(0, nonce, C, true, true, ok)}}}}}
		p.Blocks[0].Sequences[0].Actions[0].Attempts[0].Resp = hplug.Resp{Path: "a0"}
		inner, err := sqlite.New(ctx, "", set.Reg, sqlite.WithInMemory())
		if err != nil {
			return nil, "sqlite: " + err.Error()
		}
		defer inner.Close(ctx)
		if err := inner.Create(ctx, p); err != nil {
			return nil, "create: " + err.Error()
		}
		sv := &snapVault{Vault: inner, id: p.ID, max: 200}
		openSession(nonce, nil, 0)
		defer closeSession(nonce)
		ws, err := coercion.New(ctx, set.Reg, sv)
		if err != nil {
			return nil, "new: " + err.Error()
		}
		wctx, cancel := context.WithTimeout(ctx, 5*time.Second)
		_, err = ws.Wait(wctx, p.ID)
		cancel()
		if err != nil {
			return nil, "the recovery of the first crash image did not end"
		}
		sv.mu.Lock()
		defer sv.mu.Unlock()
		for _, img := range sv.snaps {
			if img.Blocks[0].State.Status == workflow.Completed {
				if img.State.Status == workflow.Running && img.Blocks[0].Sequences[0].State.Status == workflow.Running {
					return img, ""
				}
				return nil, fmt.Sprintf("after the block's terminal write: plan %s, sequence %s", stTerm(img.State.Status), stTerm(img.Blocks[0].Sequences[0].State.Status))
			}
		}
		return nil, "the recovery never wrote the block Completed"
	}
	for k, which := range []string{"R2", "R3", "R6", "R5"} {
		nonce := "witness-" + which
		var p *workflow.Plan
		switch which {
		case "R6":
			// crash after a run of the PLAN's continuous group failed while block 0 was executing: first sequence done,
			// second one not started, the block's deferred group not run
			p = &workflow.Plan{ID: uuid.Must(uuid.NewV7()), Name: "w", Descr: "w", State: mkState(R, true, false), SubmitTime: t0}
			p.ContChecks = mkChk(F, true, true, mkAct(0, nonce, F, true, true, bad))
			p.Blocks = []*workflow.Block{{ID: uuid.Must(uuid.NewV7()), Name: "w", Descr: "w", Concurrency: 1, State: mkState(R, true, false),
				DeferredChecks: mkChk(N, false, false, mkAct(1, nonce, N, false, false)),
				Sequences: []*workflow.Sequence{
					{ID: uuid.Must(uuid.NewV7()), Name: "w", Descr: "w", State: mkState(C, true, true), Actions: []*workflow.Action{mkAct(2, nonce, C, true, true, ok)}},
					{ID: uuid.Must(uuid.NewV7()), Name: "w", Descr: "w", State: mkState(N, false, false), Actions: []*workflow.Action{mkAct(3, nonce, N, false, false)}}}}}
		case "R5":
			var why string
			if p, why = secondCrashImage(nonce + "-first"); p == nil {
				w.Put(core.Case{ID: "witness-R5", Kind: "witness-absent", Observed: map[string]any{"witness": "R5", "what": why}})
				continue
			}
			setNonce(p, nonce)
		default:
			p = build(which, nonce)
		}
		// for R6 also a real recovery of the image (the hooks run first, on the caller's copy; the store holds its own)
		var pb *probe
		if which == "R6" {
			if pb = prepareProbe(set, p, nonce+"-probe"); pb.err != "" {
				pb = nil
			}
		}
		num := number(p)
		before := plnTerm(p, num)
		coq, obs, note := f.fixPlanCase(p, num, nonce, nil, "")
		// what the finding is about, read off the real result
		obs["witness"] = which
		switch which {
		case "R2":
			a := p.Blocks[0].DeferredChecks.Actions[0]
			obs["finding_present"] = p.State.Status == workflow.Failed && a.State.Status == workflow.Running &&
				p.Blocks[0].DeferredChecks.State.Status == workflow.NotStarted
			obs["what"] = fmt.Sprintf("plan %s (entry End), deferred group %s, its action %s", stTerm(p.State.Status),
				stTerm(p.Blocks[0].DeferredChecks.State.Status), stTerm(a.State.Status))
		case "R3":
			s := p.Blocks[0].Sequences[0]
			obs["finding_present"] = p.State.Status == workflow.Failed && s.State.Status == workflow.Running &&
				s.Actions[1].State.Status == workflow.Running
			obs["what"] = fmt.Sprintf("plan %s (entry End), block %s, sequence %s, its second action %s", stTerm(p.State.Status),
				stTerm(p.Blocks[0].State.Status), stTerm(s.State.Status), stTerm(s.Actions[1].State.Status))
		case "R6":
			b := p.Blocks[0]
			obs["finding_present"] = p.State.Status == workflow.Failed && b.State.Status == workflow.Running &&
				b.Sequences[1].State.Status == workflow.NotStarted && b.DeferredChecks.State.Status == workflow.NotStarted
			what := fmt.Sprintf("plan continuous group Failed: plan %s (entry End), block %s, its second sequence %s, its deferred group %s",
				stTerm(p.State.Status), stTerm(b.State.Status), stTerm(b.Sequences[1].State.Status), stTerm(b.DeferredChecks.State.Status))
			if pb != nil {
				entry, info, quiet := pb.run(nil, 5*time.Second)
				obs["recovery"] = info
				if quiet {
					ctx := context.Background()
					_ = ctx
					what += fmt.Sprintf("; real recovery of the image: entry %s, %v plugin calls, plan ends %v with %v object(s) durably Running", entry, info["plugin_calls"], info["final"], info["running_left"])
				}
			}
			obs["what"] = what
		case "R5":
			s := p.Blocks[0].Sequences[0]
			obs["finding_present"] = (p.State.Status == workflow.Completed || p.State.Status == workflow.Failed) &&
				p.Blocks[0].State.Status == workflow.Completed && s.State.Status == workflow.Running
			obs["what"] = fmt.Sprintf("second-crash image taken from a real recovery right after the block's terminal write (sequence repaired in memory, never written): "+
				"plan %s (entry End), block %s, its sequence still %s", stTerm(p.State.Status), stTerm(p.Blocks[0].State.Status), stTerm(s.State.Status))
		}
		w.Put(core.Case{ID: "witness-" + which, Kind: "witness", Coq: fmt.Sprintf("(CWitness %d %s)", k, coq), Nontrivial: true,
			Hash: core.Hash("witness", coq), Input: map[string]any{"witness": which, "before": before}, Observed: obs, Note: note})
	}
}

// ------------------------------------------------------------------ branch atlas
// A fixed family of crafted images, at least one per branch of every fix function, so that branch coverage does
// not depend on the seed or on the number of random images (FixCheck.*_branch says which branch a case takes).
func atlas(w *core.Writer) {
	set := hplug.NewSet()
	set.Action.SetBehaviour(behave)
	set.Check.SetBehaviour(behave)
	f := newFixer(set)
	const R, C, F, N, S = workflow.Running, workflow.Completed, workflow.Failed, workflow.NotStarted, workflow.Stopped
	ok, bad, open := [2]bool{false, false}, [2]bool{true, false}, [2]bool{false, true}
	nonce := "atlas"
	id := 0
	act := func(st workflow.Status, atts ...[2]bool) *workflow.Action {
		id++
		return mkAct(id-1, nonce, st, st != N, st == C || st == F || st == S, atts...)
	}
	chk := func(st workflow.Status, as ...*workflow.Action) *workflow.Checks {
		return mkChk(st, st != N, st == C || st == F, as...)
	}
	seq := func(st workflow.Status, as ...*workflow.Action) *workflow.Sequence {
		return &workflow.Sequence{ID: uuid.Must(uuid.NewV7()), Name: "s", Descr: "s", State: mkState(st, st != N, st == C || st == F || st == S), Actions: as}
	}
	blk := func(st workflow.Status, ss ...*workflow.Sequence) *workflow.Block {
		return &workflow.Block{ID: uuid.Must(uuid.NewV7()), Name: "b", Descr: "b", Concurrency: 1, State: mkState(st, st != N, st == C || st == F || st == S), Sequences: ss}
	}
	pln := func(st workflow.Status, bs ...*workflow.Block) *workflow.Plan {
		return &workflow.Plan{ID: uuid.Must(uuid.NewV7()), Name: "p", Descr: "p", SubmitTime: t0, State: mkState(st, st != N, st == C || st == F || st == S), Blocks: bs}
	}
	done := func() *workflow.Sequence { return seq(C, act(C, ok)) }
	fresh := func() *workflow.Sequence { return seq(N, act(N)) }
	stopping := func() *workflow.Sequence { return seq(R, act(S), act(R)) }          // fixSeq: Stopped
	resumable := func() *workflow.Sequence { return seq(R, act(C, ok), act(N)) }     // stays Running, is executed
	serial := 0
	put := func(kind, coq, before string, obs any, note string) {
		serial++
		w.Put(core.Case{ID: fmt.Sprintf("atlas-%s-%d", kind, serial), Kind: "atlas-" + kind, Coq: coq, Nontrivial: true, Hash: core.Hash("atlas", coq),
			Input: map[string]any{"before": before}, Observed: obs, Note: note})
	}
	// fixAction 0..6
	for _, a := range []*workflow.Action{act(C, ok), act(R), act(R, open), act(R, ok), act(R, ok, open), act(R, bad), act(R, bad, open, open)} {
		p := pln(R, blk(R, seq(R, a)))
		num := repath(p, nonce)
		b := actTerm(a, num)
		pan := guarded(func() { verifhooks.FixAction(a) })
		put("action", fmt.Sprintf("(CAct %s %s)", b, actTerm(a, num)), b, actTerm(a, num), notePanic(pan))
	}
	// fixChecks 0, 1
	for _, c := range []*workflow.Checks{chk(N, act(R)), chk(R, act(C, ok), act(R))} {
		p := pln(R, blk(R, done()))
		p.PreChecks = c
		num := repath(p, nonce)
		b := chkTerm(c, num)
		pan := guarded(func() { verifhooks.FixChecks(c) })
		put("checks", fmt.Sprintf("(CChk %s %s)", b, chkTerm(c, num)), b, chkTerm(c, num), notePanic(pan))
	}
	// fixSeq 0, 1, 3, 4, 5, 6
	for _, sq := range []*workflow.Sequence{done(), stopping(), seq(R, act(C, ok), act(F, bad)), seq(R, act(N), act(R)), seq(R, act(C, ok), act(R, ok)), resumable()} {
		p := pln(R, blk(R, sq))
		num := repath(p, nonce)
		b := seqTerm(sq, num)
		pan := guarded(func() { verifhooks.FixSeq(sq) })
		put("seq", fmt.Sprintf("(CSeq %s %s)", b, seqTerm(sq, num)), b, seqTerm(sq, num), notePanic(pan))
	}
	// fixBlock 0..7, 15, 16, 17 (and each of them again inside fixPlan, below)
	blocks := func() []*workflow.Block {
		b1 := blk(R, resumable())
		b1.BypassChecks = chk(C, act(C, ok))
		b2 := blk(R, resumable())
		b2.PreChecks = chk(F, act(F, bad))
		b3 := blk(R, resumable())
		b3.ContChecks = chk(F, act(F, bad))
		b4 := blk(R, done())
		b4.PostChecks = chk(F, act(F, bad))
		return []*workflow.Block{blk(C, done()), b1, b2, b3, b4, blk(R, stopping()), blk(R, fresh()), blk(R, done(), fresh()),
			blk(R, stopping(), resumable()), blk(R, resumable()), blk(R, done(), resumable())}
	}
	for _, b := range blocks() {
		p := pln(R, b)
		num := repath(p, nonce)
		all, _ := actionsOf(p)
		bt := blkTerm(b, num)
		s := openSession(nonce, nil, 0)
		f.store.takeSeqs()
		pan := guarded(func() { f.states.FixBlock(b) })
		closeSession(nonce)
		cts := blockCallsTerm(callsBySeq(p, num, s.calls, f.store.takeSeqs()), 0)
		put("block", fmt.Sprintf("(CBlk %s %s %s %s)", scriptTerm(all, num, nil), bt, blkTerm(b, num), cts), bt,
			map[string]any{"after": blkTerm(b, num), "calls": s.calls}, notePanic(pan))
	}
	// fixPlan 0..8 and, with a Failed continuous group, 14..18
	plans := func(contFailed bool) []*workflow.Plan {
		p1 := pln(R, blk(R, resumable()))
		p1.BypassChecks = chk(C, act(C, ok))
		p2 := pln(R, blk(N, fresh()))
		p2.PreChecks = chk(F, act(F, bad))
		p3 := pln(R, blk(C, done()))
		p3.PostChecks = chk(F, act(F, bad))
		ps := []*workflow.Plan{pln(C, blk(C, done())), p1, p2, p3, pln(R, blk(R, stopping()), blk(R, resumable())), pln(R, blk(C, done()), blk(F, seq(F, act(F, bad)))),
			pln(R, blk(N, fresh())), pln(R, blk(C, done())), pln(R, blk(R, done(), fresh()))}
		if contFailed {
			ps = ps[4:]
			for _, p := range ps {
				p.ContChecks = chk(F, act(F, bad))
			}
		}
		return ps
	}
	for _, p := range append(plans(false), plans(true)...) {
		num := repath(p, nonce)
		before := plnTerm(p, num)
		coq, obs, note := f.fixPlanCase(p, num, nonce, nil, "")
		delete(obs, "status_mix_before")
		put("plan", coq, before, obs, note)
	}
	// every fixBlock branch once more as the second block of a Running plan (fixPlan's loop)
	for _, b := range blocks() {
		p := pln(R, blk(C, done()), b)
		num := repath(p, nonce)
		before := plnTerm(p, num)
		coq, obs, note := f.fixPlanCase(p, num, nonce, nil, "")
		delete(obs, "status_mix_before")
		put("plan", coq, before, obs, note)
	}
}

// repath numbers the actions of p and makes every request carry its number (the plugin log reports "a<number>").
func repath(p *workflow.Plan, nonce string) numbering {
	num := number(p)
	all, _ := actionsOf(p)
	for _, a := range all {
		a.Req = hplug.Req{Nonce: nonce, Path: fmt.Sprintf("a%d", num[a])}
	}
	return num
}

// ------------------------------------------------------------------ reachable images: real runs (child process)

// snapVault reads the plan back after every Update*: each read is the durable image at that crash point.
type snapVault struct {
	storage.Vault
	mu    sync.Mutex
	id    uuid.UUID
	snaps []*workflow.Plan
	kinds []string
	err   error
	max   int
}

func (v *snapVault) snap(kind string) {
	if len(v.snaps) >= v.max {
		return
	}
	p, err := v.Vault.Read(context.Background(), v.id)
	if err != nil {
		v.err = err
		return
	}
	v.snaps = append(v.snaps, p)
	v.kinds = append(v.kinds, kind)
}
func (v *snapVault) UpdatePlan(ctx context.Context, p *workflow.Plan) error {
	v.mu.Lock()
	defer v.mu.Unlock()
	err := v.Vault.UpdatePlan(ctx, p)
	v.snap("plan")
	return err
}
func (v *snapVault) UpdateChecks(ctx context.Context, c *workflow.Checks) error {
	v.mu.Lock()
	defer v.mu.Unlock()
	err := v.Vault.UpdateChecks(ctx, c)
	v.snap("checks")
	return err
}
func (v *snapVault) UpdateBlock(ctx context.Context, b *workflow.Block) error {
	v.mu.Lock()
	defer v.mu.Unlock()
	err := v.Vault.UpdateBlock(ctx, b)
	v.snap("block")
	return err
}
func (v *snapVault) UpdateSequence(ctx context.Context, s *workflow.Sequence) error {
	v.mu.Lock()
	defer v.mu.Unlock()
	err := v.Vault.UpdateSequence(ctx, s)
	v.snap("seq")
	return err
}
func (v *snapVault) UpdateAction(ctx context.Context, a *workflow.Action) error {
	v.mu.Lock()
	defer v.mu.Unlock()
	err := v.Vault.UpdateAction(ctx, a)
	v.snap("action")
	return err
}

// firstPlanWrite records the first UpdatePlan of a recovery: it identifies the entry point.
type firstPlanWrite struct {
	storage.Vault
	mu     sync.Mutex
	seen   bool
	status workflow.Status
	start  time.Time
	end    time.Time
}

func (v *firstPlanWrite) UpdatePlan(ctx context.Context, p *workflow.Plan) error {
	v.mu.Lock()
	if !v.seen {
		v.seen, v.status, v.start, v.end = true, p.State.Status, p.State.Start, p.State.End
	}
	v.mu.Unlock()
	return v.Vault.UpdatePlan(ctx, p)
}

// probe observes the entry point of a REAL recovery of one image. It is schedule-independent by construction:
//   prepare : a fresh in-memory vault, Create(img), read the image back twice (rb, rb2: what recovery will read) -
//             no engine exists for this plan yet, so the caller can hand rb to the hooks (FixPlan) in peace;
//   run     : coercion.New on the vault; the ONLY things taken from the live recovery are its own first observable
//             actions, logged by the vault wrapper / the plugins: the first UpdatePlan (its status and whether it
//             carries a new Start or a new End) and the number of plugin calls;
//   anything read from the store afterwards is read only after Wait returned (terminal, quiescent).
type probe struct {
	set        *hplug.Set
	inner      *sqlite.Vault
	id         uuid.UUID
	rb, rb2    *workflow.Plan
	start, end time.Time // of the plan, in the stored image
	nonce      string
	err        string
}

func prepareProbe(set *hplug.Set, img *workflow.Plan, nonce string) *probe {
	ctx := context.Background()
	p := &probe{set: set, id: img.ID, nonce: nonce}
	// the recovery's plugin calls are attributed through the nonce INSIDE the requests: give the stored copy its own
	old := setNonce(img, nonce)
	defer setNonce(img, old)
	inner, err := sqlite.New(ctx, "", set.Reg, sqlite.WithInMemory())
	if err != nil {
		p.err = err.Error()
		return p
	}
	p.inner = inner
	if err := inner.Create(ctx, img); err != nil {
		p.err = "create: " + err.Error()
		return p
	}
	if p.rb, err = inner.Read(ctx, img.ID); err != nil {
		p.err = "read: " + err.Error()
		return p
	}
	if p.rb2, err = inner.Read(ctx, img.ID); err != nil {
		p.err = "read: " + err.Error()
		return p
	}
	p.start, p.end = p.rb.State.Start, p.rb.State.End
	return p
}

// run starts the recovery. quiesce: how long to wait for the recovered run to end. quiet reports whether it ended
// (if not, the process still holds a live engine: the caller must not go on working in this process).
func (p *probe) run(script map[string][]int, quiesce time.Duration) (entry string, info map[string]any, quiet bool) {
	ctx := context.Background()
	info = map[string]any{}
	fw := &firstPlanWrite{Vault: p.inner}
	s := openSession(p.nonce, script, 0)
	defer closeSession(p.nonce)
	ws, err := coercion.New(ctx, p.set.Reg, fw)
	if err != nil {
		info["error"] = "new: " + err.Error()
		return "", info, true
	}
	wctx, cancel := context.WithTimeout(ctx, quiesce)
	fin, err := ws.Wait(wctx, p.id)
	cancel()
	if err != nil {
		info["hang"] = true
		// not quiescent: nothing is read from the store; give the first plan write (if it did not happen yet) a chance
		for t := 0; t < 3000; t++ {
			fw.mu.Lock()
			seen := fw.seen
			fw.mu.Unlock()
			if seen {
				break
			}
			time.Sleep(time.Millisecond)
		}
	} else {
		quiet = true
		info["final"] = stTerm(fin.State.Status)
		info["running_left"] = countRunning(fin)
		p.inner.Close(ctx)
	}
	s.mu.Lock()
	info["plugin_calls"] = len(s.calls)
	s.mu.Unlock()
	fw.mu.Lock()
	defer fw.mu.Unlock()
	if !fw.seen {
		return "", info, quiet
	}
	// Start stamps a new Start (and writes Running); End stamps a new End (and writes the final status);
	// Recovery's own write before PlanBypassChecks changes neither instant
	switch {
	case !fw.start.Equal(p.start):
		entry = "EStart"
	case !fw.end.Equal(p.end):
		entry = "EEnd"
	default:
		entry = "EBypass"
	}
	info["first_plan_write_status"] = stTerm(fw.status)
	return entry, info, quiet
}

// setNonce rewrites the nonce carried by every request of p and returns the previous one.
func setNonce(p *workflow.Plan, nonce string) (old string) {
	all, _ := actionsOf(p)
	for _, a := range all {
		if r, ok := a.Req.(hplug.Req); ok {
			old = r.Nonce
			r.Nonce = nonce
			a.Req = r
		}
	}
	return old
}

// lineWriter writes one case per line, unbuffered: what a child wrote survives its death.
type lineWriter struct{ f *os.File }

func (w *lineWriter) Put(c core.Case) {
	b, _ := json.Marshal(c)
	w.f.Write(append(b, '\n'))
}

// childArb: arbitrary Running plan images put into a real store, then a real recovery: the entry point for every
// status fixPlan can leave the plan in (Stopped included), which reachable images do not all produce.
func childArb(lo, hi int, out string) {
	f0, err := os.Create(out)
	if err != nil {
		fmt.Fprintln(os.Stderr, err)
		os.Exit(2)
	}
	w := &lineWriter{f0}
	root := core.NewRand(core.Seed() ^ 0xe417)
	set := hplug.NewSet()
	set.Action.SetBehaviour(behave)
	set.Check.SetBehaviour(behave)
	f := newFixer(set)
	for i := lo; i < hi; i++ {
		g := &gen{r: root.Fork(uint64(i)), set: set}
		pr := profiles[1+i%(len(profiles)-1)]
		o := plangen.Opts{GroupP: []float64{0.2, 0.5}[i%2], MaxBlocks: 1 + i%3, MaxSeqs: 1 + (i/3)%2, MaxActions: 1 + (i/5)%3, MaxCheckActions: 2}
		p, num := g.shape(o)
		all, _ := actionsOf(p)
		g.fillPlan(p, pr)
		p.State.Status = workflow.Running
		if p.State.Start.IsZero() {
			p.State.Start = t0
		}
		switch i % 4 {
		case 0: // make a block come back Stopped: a Running sequence with a Stopped action in a Running block
			b := p.Blocks[g.r.Intn(len(p.Blocks))]
			b.State.Status = workflow.Running
			for _, c := range groupsOfBlock(b)[:4] {
				if c != nil {
					c.State.Status = workflow.NotStarted
				}
			}
			sq := b.Sequences[g.r.Intn(len(b.Sequences))]
			sq.State.Status = workflow.Running
			sq.Actions[0].State.Status = workflow.Stopped
			fallthrough
		case 1: // get past the plan's own early returns
			for _, c := range groupsOfPlan(p)[:4] {
				if c != nil && (c.State.Status == workflow.Completed || c.State.Status == workflow.Failed) {
					c.State.Status = workflow.NotStarted
				}
			}
		}
		script := g.script(all, num, 0.3)
		pb := prepareProbe(set, p, g.nonce+"-probe")
		if pb.err != "" {
			w.Put(core.Case{ID: fmt.Sprintf("arb-entry-%d", i), Kind: "probe-error", Note: pb.err, Input: map[string]any{"seed": core.Seed(), "index": i}})
			continue
		}
		// 1. the repaired image: the hooks on the store's view of the image, BEFORE any engine exists for it
		rb := pb.rb
		n := number(rb)
		before := plnTerm(rb, n)
		setNonce(rb, g.nonce+"-hooks")
		coq0, obs, note := f.fixPlanCase(rb, n, g.nonce+"-hooks", script, "")
		// self-check: the same hooks on a second, independent read of the same stored image
		setNonce(pb.rb2, g.nonce+"-hooks2")
		coq2, _, _ := f.fixPlanCase(pb.rb2, number(pb.rb2), g.nonce+"-hooks2", script, "")
		if coq2 != coq0 {
			note = "self-check: two hook calls on two reads of the same stored image differ\n" + coq0 + "\n" + coq2
		}
		// 2. the entry point: the real recovery's own first plan write
		entry, info, quiet := pb.run(script, 300*time.Millisecond)
		coq := coq0
		if entry != "" {
			coq = strings.TrimSuffix(coq0, " None)") + " (Some " + entry + "))"
		}
		mix := obs["status_mix_before"]
		delete(obs, "status_mix_before")
		obs["recovery"] = info
		w.Put(core.Case{ID: fmt.Sprintf("arb-entry-%d", i), Kind: "arb-entry", Coq: coq, Nontrivial: true, Hash: core.Hash("arb-entry", coq),
			Dist:  map[string]any{"profile": pr.name, "status_mix": mix, "probed": entry},
			Input: map[string]any{"seed": core.Seed(), "index": i, "before": before}, Observed: obs, Note: note})
		if !quiet {
			os.Exit(6) // a live engine stays behind: the parent continues with a fresh process
		}
	}
	os.Exit(0)
}

func child(lo, hi int, probeEvery int, out string) {
	f0, err := os.Create(out)
	if err != nil {
		fmt.Fprintln(os.Stderr, err)
		os.Exit(2)
	}
	w := &lineWriter{f0}
	ctx := context.Background()
	root := core.NewRand(core.Seed() ^ 0x5eed)
	set := hplug.NewSet()
	set.Action.SetBehaviour(behave)
	set.Check.SetBehaviour(behave)
	f := newFixer(set)
	for i := lo; i < hi; i++ {
		g := &gen{r: root.Fork(uint64(i)), set: set}
		o := plangen.Opts{GroupP: []float64{0.15, 0.35, 0.6}[i%3], MaxBlocks: 1 + i%2, MaxSeqs: 1 + (i/2)%3, MaxActions: 1 + (i/3)%3, MaxCheckActions: 2}
		p, num := g.shape(o)
		for _, b := range p.Blocks {
			b.Concurrency = 1 + g.r.Intn(3)
		}
		all, _ := actionsOf(p)
		script := g.script(all, num, []float64{0.1, 0.3, 0.5}[(i/3)%3])
		// as Submit leaves it
		for _, a := range all {
			a.Attempts = nil
		}
		sleep := 150 + g.r.Intn(400)
		if i%4 == 1 {
			// hunt for the R3 image: a continuous group of a block fails in its second round while slow sequences are in flight
			for _, b := range p.Blocks {
				if b.ContChecks != nil {
					b.ContChecks.Delay = time.Millisecond
					script[fmt.Sprintf("a%d", num[b.ContChecks.Actions[0]])] = []int{oOk, oPermanent}
					for _, c := range []*workflow.Checks{p.BypassChecks, b.BypassChecks} {
						if c != nil { // a bypass that succeeds would skip the block
							script[fmt.Sprintf("a%d", num[c.Actions[0]])] = []int{oPermanent}
						}
					}
					sleep = 1500
				}
			}
		}
		inner, err := sqlite.New(ctx, "", set.Reg, sqlite.WithInMemory())
		if err != nil {
			fmt.Fprintln(os.Stderr, "sqlite.New:", err)
			os.Exit(3)
		}
		if err := inner.Create(ctx, p); err != nil {
			fmt.Fprintln(os.Stderr, "Create:", err)
			os.Exit(3)
		}
		sv := &snapVault{Vault: inner, id: p.ID, max: 400}
		sess := openSession(g.nonce, script, sleep)
		ws, err := coercion.New(ctx, set.Reg, sv, coercion.WithNoRecovery())
		if err != nil {
			fmt.Fprintln(os.Stderr, "coercion.New:", err)
			os.Exit(3)
		}
		if err := ws.Start(ctx, p.ID); err != nil {
			fmt.Fprintln(os.Stderr, "Start:", err)
			os.Exit(3)
		}
		wctx, cancel := context.WithTimeout(ctx, 8*time.Second)
		_, werr := ws.Wait(wctx, p.ID)
		cancel()
		closeSession(g.nonce)
		_ = sess
		sv.mu.Lock()
		snaps, kinds := sv.snaps, sv.kinds
		sv.mu.Unlock()
		if werr != nil {
			w.Put(core.Case{ID: fmt.Sprintf("run-%d", i), Kind: "run-hang", Coq: "", Note: "the uninterrupted run did not finish in 8 s", Input: map[string]any{"seed": core.Seed(), "index": i}})
			os.Exit(4) // tainted process: the parent restarts after this run
		}
		seen := map[string]bool{}
		for k, img := range snaps {
			n := number(img)
			before := plnTerm(img, n)
			if seen[before] {
				continue
			}
			seen[before] = true
			entry, info := "", map[string]any(nil)
			running := img.State.Status == workflow.Running
			var pb *probe
			if running && probeEvery > 0 && len(seen)%probeEvery == 0 {
				pb = prepareProbe(set, img, g.nonce+"-probe") // stores the image before the hooks repair it
				if pb.err != "" {
					pb = nil
				}
			}
			coq, obs, note := f.fixPlanCase(img, n, g.nonce, script, "")
			quiet := true
			if pb != nil {
				entry, info, quiet = pb.run(script, 4*time.Second)
				if entry != "" {
					coq = strings.TrimSuffix(coq, " None)") + " (Some " + entry + "))"
				}
			}
			mix := obs["status_mix_before"]
			delete(obs, "status_mix_before")
			if info != nil {
				obs["recovery"] = info
			}
			w.Put(core.Case{ID: fmt.Sprintf("run-%d-w%d", i, k), Kind: "reachable", Coq: coq, Nontrivial: running,
				Hash: core.Hash("reachable", coq),
				Dist: map[string]any{"write": kinds[k], "writes": len(snaps), "status_mix": mix, "probed": entry},
				Input: map[string]any{"seed": core.Seed(), "run": i, "write": k, "before": before, "opts": o}, Observed: obs, Note: note})
			if !quiet {
				os.Exit(6) // a recovery that did not end stays behind: fresh process for the next run
			}
		}
		inner.Close(ctx)
	}
}

// ------------------------------------------------------------------ parent

func main() {
	nruns := flag.Int("runs", 24, "real runs (every write prefix of each is a reachable image)")
	narb := flag.Int("arb", 400, "arbitrary-image rounds")
	probe := flag.Int("probe-every", 4, "observe the entry point with a real recovery on every k-th distinct Running image (0: never)")
	out := flag.String("out", "-", "output file (JSONL)")
	isChild := flag.String("child", "", "lo:hi (internal)")
	isChildArb := flag.String("childarb", "", "lo:hi (internal)")
	nentry := flag.Int("entry", 60, "arbitrary Running images put through a real recovery to observe the entry point")
	par := flag.Int("par", 8, "children in parallel")
	flag.Parse()

	if *isChild != "" {
		var lo, hi int
		fmt.Sscanf(*isChild, "%d:%d", &lo, &hi)
		child(lo, hi, *probe, *out)
		return
	}

	if *isChildArb != "" {
		var lo, hi int
		fmt.Sscanf(*isChildArb, "%d:%d", &lo, &hi)
		childArb(lo, hi, *out)
		return
	}

	w, err := core.NewWriter(*out)
	if err != nil {
		fmt.Fprintln(os.Stderr, err)
		os.Exit(2)
	}
	defer w.Close()

	witnesses(w)
	atlas(w)
	arbitrary(w, *narb)

	// children: batches of runs; a child that dies is restarted after the run it died in
	type job struct {
		lo, hi int
		mode   string
	}
	batch := 3
	var jobs []job
	for lo := 0; lo < *nruns; lo += batch {
		hi := lo + batch
		if hi > *nruns {
			hi = *nruns
		}
		jobs = append(jobs, job{lo, hi, "-child"})
	}
	for lo := 0; lo < *nentry; lo += 10 {
		hi := lo + 10
		if hi > *nentry {
			hi = *nentry
		}
		jobs = append(jobs, job{lo, hi, "-childarb"})
	}
	self, _ := os.Executable()
	tmp, _ := os.MkdirTemp("", "fixprobe")
	defer os.RemoveAll(tmp)
	var wg sync.WaitGroup
	sem := make(chan struct{}, *par)
	results := make([][]string, len(jobs))
	for ji, j := range jobs {
		wg.Add(1)
		sem <- struct{}{}
		go func(ji int, j job) {
			defer wg.Done()
			defer func() { <-sem }()
			lo := j.lo
			for lo < j.hi {
				path := fmt.Sprintf("%s/c%d_%d.jsonl", tmp, ji, lo)
				cmd := exec.Command(self, j.mode, fmt.Sprintf("%d:%d", lo, j.hi), "-probe-every", fmt.Sprint(*probe), "-out", path)
				var errb strings.Builder
				cmd.Stderr = &errb
				cmd.Env = os.Environ()
				done := make(chan error, 1)
				cmd.Start()
				go func() { done <- cmd.Wait() }()
				var err error
				select {
				case err = <-done:
				case <-time.After(120 * time.Second):
					cmd.Process.Kill()
					err = fmt.Errorf("child timed out")
				}
				lines, last := readLines(path)
				results[ji] = append(results[ji], lines...)
				if err == nil {
					break
				}
				// resume after the last run the child reported on
				next := last + 1
				if next <= lo {
					next = lo + 1
				}
				if ee, ok := err.(*exec.ExitError); !ok || ee.ExitCode() != 6 {
					results[ji] = append(results[ji], mustJSON(core.Case{ID: fmt.Sprintf("child-%d", lo), Kind: "child-died", Note: fmt.Sprint(err)}))
				}
				lo = next
			}
		}(ji, j)
	}
	wg.Wait()
	for _, ls := range results {
		for _, l := range ls {
			var c core.Case
			if json.Unmarshal([]byte(l), &c) == nil {
				w.Put(c)
			}
		}
	}
}

func mustJSON(c core.Case) string { b, _ := json.Marshal(c); return string(b) }

func readLines(path string) (lines []string, lastRun int) {
	lastRun = -1
	f, err := os.Open(path)
	if err != nil {
		return
	}
	defer f.Close()
	sc := bufio.NewScanner(f)
	sc.Buffer(make([]byte, 1<<20), 1<<28)
	for sc.Scan() {
		l := sc.Text()
		lines = append(lines, l)
		var c struct {
			Input struct {
				Run   *int `json:"run"`
				Index *int `json:"index"`
			} `json:"input"`
		}
		if json.Unmarshal([]byte(l), &c) == nil {
			if c.Input.Run != nil && *c.Input.Run > lastRun {
				lastRun = *c.Input.Run
			}
			if c.Input.Index != nil && *c.Input.Index > lastRun {
				lastRun = *c.Input.Index
			}
		}
	}
	return
}
