// c05: drives the real engine (coercion.New over an in-memory sqlite vault, vault.Create, Start, Wait) on plans
// whose actions have scripted plugin outcomes, and records per ACTION RUN what C05 is about: plugin invocations
// (attributed by plan nonce + action path inside the request), the ctx.Err() each saw, the attempts handed to
// UpdateAction, the final status, the per-action event trace (durable writes after they returned, plugin
// start/end, under one lock), and the attempts/status read back from storage after Wait.
//
// The parent generates the plans (bounded-exhaustive family + random family), runs them in child processes
// (a batch of plans per child, concurrently on one Workstream), re-runs plans whose timing was disturbed by
// machine load or that hung, and prints one core.Case per plan whose Coq term is a list of
// Coercion.Attempts.AttemptsCheck.acase.
package main

import (
	"bufio"
	"context"
	"encoding/json"
	"flag"
	"fmt"
	"hash/fnv"
	"os"
	"os/exec"
	"sort"
	"strings"
	"sync"
	"time"

	homonym "verifharness/c05homonym"
	"verifharness/core"
	"verifharness/hplug"
	"verifharness/plangen"

	coercion "github.com/element-of-surprise/coercion"
	"github.com/element-of-surprise/coercion/plugins"
	"github.com/element-of-surprise/coercion/workflow"
	"github.com/element-of-surprise/coercion/workflow/storage"
	"github.com/element-of-surprise/coercion/workflow/storage/sqlite"
	"github.com/google/uuid"
)

// ---- specs --------------------------------------------------------------------------------------------------

// Outcome is what one plugin invocation does: it overruns, or it returns a PAIR (response, error).
// 0-4 keep their historical numbers; 5-9 are the remaining pairs.
type Outcome int

const (
	OOk        Outcome = iota // (good response, no error)
	OErr                      // (nil, transient error)
	OPerm                     // (nil, permanent error)
	OWrongType                // (wrong-typed response, no error)
	OOverrun                  // still running at the deadline
	ONilOk                    // (nil, no error)
	OGoodTrans                // (good response, transient error)
	OGoodPerm                 // (good response, permanent error)
	OBadTrans                 // (wrong-typed response, transient error)
	OBadPerm                  // (wrong-typed response, permanent error)
	nOutcomes
	// Two more FLAVOURS of OOverrun (harness only; the model's outcome is OOverrun for all three). The classic one
	// returns only after the engine has recorded the attempt. These block until ctx.Done(), then return PROMPTLY
	// (promptLag later) a good response without error / a permanent error: an engine that waits for such a late
	// answer records it instead of the retryable timeout failure.
	OOverrunPromptOk   Outcome = 10
	OOverrunPromptPerm Outcome = 11
	// OOverrunIgnore IGNORES the cancellation and answers (good response, no error) lateLo..lateHi after the deadline:
	// while the retry (made slow by OSlowOk / OSlowPerm, which answer only after slowDelay) is already in flight.
	// An engine that lets a late answer reach a later attempt records it there.
	OOverrunIgnore Outcome = 12
	OSlowOk        Outcome = 13 // = OOk, answered after slowDelay
	OSlowPerm      Outcome = 14 // = OPerm, answered after slowDelay
)

const (
	slowDelay = 40 * time.Millisecond
	lateLo    = 15 // ms after the deadline
	lateHi    = 25
)

// promptLag: well inside any grace period an engine might grant, well outside scheduling noise on an idle machine.
const promptLag = 8 * time.Millisecond

// coq maps a harness outcome to the model's outcome.
func (o Outcome) coq() Outcome {
	switch o {
	case OOverrunPromptOk, OOverrunPromptPerm, OOverrunIgnore:
		return OOverrun
	case OSlowOk:
		return OOk
	case OSlowPerm:
		return OPerm
	}
	return o
}

var outcomeName = [...]string{"OOk", "OErr", "OPerm", "OWrongType", "OOverrun", "(ORet PNil PNoErr)", "(ORet PGood PTrans)",
	"(ORet PGood PPerm)", "(ORet PBad PTrans)", "(ORet PBad PPerm)"}

// response kind (0 nil, 1 good, 2 bad) and error kind (0 none, 1 transient, 2 permanent) of a returning outcome
var outcomeResp = [...]int{1, 0, 0, 2, 0, 0, 1, 1, 2, 2}
var outcomeErr = [...]int{0, 1, 2, 0, 1, 0, 1, 2, 1, 2}

func isFinal(o Outcome) bool {
	o = o.coq()
	if o == OOverrun {
		return false
	}
	return outcomeResp[o] == 2 || outcomeErr[o] != 1
}

func isOk(o Outcome) bool { o = o.coq(); return o == OOk || o == ONilOk }

func outcomeTerm(o Outcome) string { return outcomeName[o.coq()] }

type ActSpec struct {
	Path      string    `json:"path"`
	Check     bool      `json:"check"`
	Retries   int       `json:"retries"`
	Script    []Outcome `json:"script"`
	Dflt      Outcome   `json:"dflt"`
	TimeoutMs int       `json:"timeout_ms"`
	Combo     int       `json:"combo"` // index in the bounded-exhaustive family, -1 otherwise
	Alt       bool      `json:"alt,omitempty"` // sequence action run by the plugin whose declared response is a POINTER (*AltResp)
}

func (a *ActSpec) planned(k int) Outcome {
	if k < len(a.Script) {
		return a.Script[k]
	}
	return a.Dflt
}

// predicted says whether the run is expected to end ok. Used ONLY to lay plans out so that every action gets
// to run (a failed action stops its sequence); nothing is compared against it.
func (a *ActSpec) predicted() bool {
	for k := 0; k <= a.Retries; k++ {
		o := a.planned(k)
		if isOk(o) {
			return true
		}
		if isFinal(o) {
			return false
		}
	}
	return false
}

const (
	GBypass = iota
	GPre
	GCont
	GPost
	GDeferred
)

var grpShort = [...]string{"bypass", "pre", "cont", "post", "deferred"}

type PlanSpec struct {
	Index       int           `json:"index"`
	Kind        string        `json:"kind"`
	PG          [5][]*ActSpec `json:"plan_groups"`  // nil = absent
	BG          [5][]*ActSpec `json:"block_groups"` // nil = absent
	Seqs        [][]*ActSpec  `json:"seqs"`
	Conc        int           `json:"conc"`
	Tol         int           `json:"tol"`
	ContDelayUs [2]int        `json:"cont_delay_us"`
	Round       int           `json:"round"` // re-run number (disturbed / hang)
}

func (p *PlanSpec) id() string { return fmt.Sprintf("%s-%d", p.Kind, p.Index) }

func (p *PlanSpec) actions() []*ActSpec {
	var out []*ActSpec
	for g := 0; g < 5; g++ {
		out = append(out, p.PG[g]...)
	}
	for g := 0; g < 5; g++ {
		out = append(out, p.BG[g]...)
	}
	for _, s := range p.Seqs {
		out = append(out, s...)
	}
	return out
}

// setPaths numbers the actions and fixes timeouts: 15-25 ms where an overrun is planned, generous otherwise.
func (p *PlanSpec) setPaths(r *core.Rand) {
	fix := func(a *ActSpec, path string, check bool) {
		a.Path, a.Check = path, check
		a.TimeoutMs = 30000
		slow := false
		for k := 0; k <= a.Retries; k++ {
			if a.planned(k).coq() == OOverrun {
				a.TimeoutMs = r.Range(15, 25)
			}
			if o := a.planned(k); o == OOverrunIgnore || o == OSlowOk || o == OSlowPerm {
				slow = true
			}
		}
		if slow { // room for the slow answers (slowDelay) with a wide margin
			a.TimeoutMs = r.Range(60, 70)
		}
		if check {
			a.Alt = false
		}
	}
	for g := 0; g < 5; g++ {
		for i, a := range p.PG[g] {
			fix(a, fmt.Sprintf("plan.%s[%d]", grpShort[g], i), true)
		}
		for i, a := range p.BG[g] {
			fix(a, fmt.Sprintf("block.%s[%d]", grpShort[g], i), true)
		}
	}
	for si, s := range p.Seqs {
		for i, a := range s {
			fix(a, fmt.Sprintf("seq%d[%d]", si, i), false)
		}
	}
}

// ---- generators ---------------------------------------------------------------------------------------------

func shuffle[T any](r *core.Rand, xs []T) {
	for i := len(xs) - 1; i > 0; i-- {
		j := r.Intn(i + 1)
		xs[i], xs[j] = xs[j], xs[i]
	}
}

// exhaustive: all 10^k scripts of length k x retries 0..4 (shorter scripts are their prefixes as far as an
// action with fewer retries looks). both = false: every combination once, as a sequence action or as a check
// action (decided by the seed); both = true: every combination in both kinds.
func exhaustiveCount(k int) int {
	n := 5
	for i := 0; i < k; i++ {
		n *= int(nOutcomes)
	}
	return n
}

func exhaustivePlans(root *core.Rand, k int, both bool) []*PlanSpec {
	r := root.Fork(0xe5)
	var seqOK, seqBad, chkOK, chkBad []*ActSpec
	total := exhaustiveCount(k)
	for c := 0; c < total; c++ {
		mk := func() *ActSpec {
			x := c / 5
			a := &ActSpec{Retries: c % 5, Combo: c, Dflt: Outcome((c*7 + 3) % int(nOutcomes)), Alt: (c/5)%4 == 1}
			for i := 0; i < k; i++ {
				o := Outcome(x % int(nOutcomes))
				if o == OOverrun { // flavour of the overrun, spread deterministically
					o = []Outcome{OOverrun, OOverrunPromptOk, OOverrunPromptPerm}[(c/5*31+i*7)%3]
				}
				a.Script = append(a.Script, o)
				x /= int(nOutcomes)
			}
			return a
		}
		asSeq, asChk := true, true
		if !both {
			asSeq = r.Intn(2) == 0
			asChk = !asSeq
		}
		if asSeq {
			if a := mk(); a.predicted() {
				seqOK = append(seqOK, a)
			} else {
				seqBad = append(seqBad, a)
			}
		}
		if asChk {
			if a := mk(); a.predicted() {
				chkOK = append(chkOK, a)
			} else {
				chkBad = append(chkBad, a)
			}
		}
	}
	shuffle(r, seqOK)
	shuffle(r, seqBad)
	shuffle(r, chkOK)
	shuffle(r, chkBad)
	pop := func(l *[]*ActSpec) *ActSpec {
		if len(*l) == 0 {
			return nil
		}
		a := (*l)[len(*l)-1]
		*l = (*l)[:len(*l)-1]
		return a
	}
	popAny := func(first, second *[]*ActSpec) *ActSpec {
		if a := pop(first); a != nil {
			return a
		}
		return pop(second)
	}
	filler := func() *ActSpec { return &ActSpec{Retries: 0, Script: []Outcome{OOk}, Dflt: OOk, Combo: -1} }
	var plans []*PlanSpec
	for len(seqOK)+len(seqBad)+len(chkOK)+len(chkBad) > 0 {
		p := &PlanSpec{Index: len(plans), Kind: "exh", Tol: -1, ContDelayUs: [2]int{r.Range(3000, 12000), r.Range(3000, 12000)}}
		nseq := 10
		for s := 0; s < nseq && len(seqOK)+len(seqBad) > 0; s++ {
			l := 1 + (s+p.Index)%3
			var sq []*ActSpec
			for i := 0; i < l-1; i++ {
				if a := pop(&seqOK); a != nil {
					sq = append(sq, a)
				}
			}
			if a := popAny(&seqBad, &seqOK); a != nil {
				sq = append(sq, a)
			}
			p.Seqs = append(p.Seqs, sq)
		}
		if len(p.Seqs) == 0 {
			p.Seqs = [][]*ActSpec{{filler()}}
		}
		p.Conc = len(p.Seqs)
		grab := func(first, second *[]*ActSpec, n int) []*ActSpec {
			var g []*ActSpec
			for i := 0; i < n; i++ {
				if a := popAny(first, second); a != nil {
					g = append(g, a)
				}
			}
			return g
		}
		none := []*ActSpec{}
		// groups that must pass for the rest to run: only combinations predicted to end ok
		// a failed block deferred group fails the block, and then the plan's post group is skipped: plans alternate
		// between (failing block deferred group, no plan post group) and (passing block deferred group, plan post group)
		badBlockDeferred := p.Index%2 == 1 && len(chkBad) > 0
		for _, gi := range []int{GPre, GCont, GPost} {
			if !(gi == GPost && badBlockDeferred) {
				p.PG[gi] = grab(&chkOK, &none, 1+(p.Index+gi)%3)
			}
			p.BG[gi] = grab(&chkOK, &none, 1+(p.Index+gi+1)%3)
		}
		// the plan's deferred group always runs and gates nothing: failing combinations go here
		p.PG[GDeferred] = grab(&chkBad, &chkOK, 3)
		if badBlockDeferred {
			p.BG[GDeferred] = grab(&chkBad, &none, 3)
		} else {
			p.BG[GDeferred] = grab(&chkOK, &none, 2)
		}
		// a bypass group with a failing action lets the scope proceed
		if len(chkBad) > 0 {
			p.PG[GBypass] = grab(&chkBad, &none, 1+p.Index%3)
		}
		if len(chkBad) > 0 {
			p.BG[GBypass] = grab(&chkBad, &none, 1+(p.Index+1)%3)
		}
		for g := 0; g < 5; g++ {
			if len(p.PG[g]) == 0 {
				p.PG[g] = nil
			}
			if len(p.BG[g]) == 0 {
				p.BG[g] = nil
			}
		}
		p.setPaths(r)
		plans = append(plans, p)
	}
	return plans
}

// latePlans: a timed-out invocation whose plugin ignores the cancellation and answers late, while the retry (a slow
// one) is in flight. Consecutive plans share a child process (the batch), so they run concurrently in one process.
func latePlans(root *core.Rand) []*PlanSpec {
	r := root.Fork(0x1a7e)
	scripts := [][]Outcome{
		{OOverrunIgnore, OSlowOk}, {OOverrunIgnore, OSlowPerm}, {OErr, OOverrunIgnore, OSlowOk},
		{OOverrunIgnore, OOverrunIgnore, OSlowOk}, {OOverrunIgnore, OSlowPerm, OOk}, {OGoodTrans, OOverrunIgnore, OSlowPerm},
		{OOverrunIgnore, OSlowOk}, {OOverrunIgnore, OOverrunIgnore, OSlowPerm},
	}
	var plans []*PlanSpec
	for i := 0; i < 8; i++ {
		p := &PlanSpec{Index: i, Kind: "late", Tol: -1, Conc: 3}
		for s := 0; s < 3; s++ {
			sc := scripts[(i*3+s)%len(scripts)]
			a := &ActSpec{Retries: len(sc) - 1 + (i+s)%2, Script: append([]Outcome{}, sc...), Dflt: OSlowOk, Combo: -1, Alt: (i+s)%3 == 0}
			sq := []*ActSpec{a}
			if a.predicted() { // a following action of the sequence: slow as well, so that it is in flight when answers arrive late
				sq = append(sq, &ActSpec{Retries: 1, Script: []Outcome{OSlowOk}, Dflt: OSlowOk, Combo: -1})
			}
			p.Seqs = append(p.Seqs, sq)
		}
		if i%2 == 0 {
			p.PG[GDeferred] = []*ActSpec{{Retries: 2, Script: []Outcome{OOverrunIgnore, OSlowOk}, Dflt: OSlowOk, Combo: -1}}
		}
		p.setPaths(r)
		plans = append(plans, p)
	}
	return plans
}

// longPlans: the "long budget" family. Retries around and above 32 and 64, scripts that keep failing transiently for
// the whole budget, and variants that succeed / fail permanently / answer with a wrong type at attempt 30-45.
// No overruns here (the fast retry policy - 100 us, factor 1.1, at most 1 ms - keeps 65 attempts under 0.1 s).
func longPlans(root *core.Rand) []*PlanSpec {
	r := root.Fork(0x10c6)
	var acts []*ActSpec
	trans := func(i int) Outcome { return []Outcome{OErr, OGoodTrans}[i%2] }
	for _, rt := range []int{31, 32, 33, 40, 64} {
		acts = append(acts, &ActSpec{Retries: rt, Dflt: OErr, Combo: -1}, &ActSpec{Retries: rt, Dflt: OGoodTrans, Script: []Outcome{OErr}, Combo: -1})
		for _, j := range []int{30, 31, 32, 33, 34, 40, 45} {
			for _, fin := range []Outcome{OOk, OPerm, OWrongType, OBadTrans} {
				if (fin == OWrongType || fin == OBadTrans) && j%2 == 1 {
					continue
				}
				a := &ActSpec{Retries: rt, Dflt: OErr, Combo: -1}
				for i := 0; i < j; i++ {
					a.Script = append(a.Script, trans(i+j))
				}
				a.Script = append(a.Script, fin)
				acts = append(acts, a)
			}
		}
	}
	shuffle(r, acts)
	var plans []*PlanSpec
	for len(acts) > 0 {
		p := &PlanSpec{Index: len(plans), Kind: "long", Tol: -1}
		take := func() *ActSpec {
			if len(acts) == 0 {
				return nil
			}
			a := acts[len(acts)-1]
			acts = acts[:len(acts)-1]
			return a
		}
		for s := 0; s < 8; s++ {
			if a := take(); a != nil {
				p.Seqs = append(p.Seqs, []*ActSpec{a})
			}
		}
		p.Conc = len(p.Seqs)
		for i := 0; i < 3; i++ {
			if a := take(); a != nil {
				p.PG[GDeferred] = append(p.PG[GDeferred], a)
			}
		}
		p.setPaths(r)
		plans = append(plans, p)
	}
	return plans
}

var randWeights = []int{25, 15, 7, 6, 7, 6, 10, 5, 6, 5, 4, 4}

func randomAct(r *core.Rand) *ActSpec {
	a := &ActSpec{Retries: r.Intn(5), Combo: -1, Dflt: Outcome(r.Weighted(randWeights)), Alt: r.Intn(10) < 3}
	n := r.Intn(7)
	for i := 0; i < n; i++ {
		a.Script = append(a.Script, Outcome(r.Weighted(randWeights)))
	}
	// bias some actions towards eventually succeeding, so that later actions of the sequence / later groups run
	if r.Intn(3) == 0 {
		k := r.Intn(a.Retries + 1)
		for len(a.Script) <= k {
			a.Script = append(a.Script, OErr)
		}
		for i := 0; i < k; i++ {
			if isFinal(a.Script[i]) {
				a.Script[i] = []Outcome{OErr, OOverrun, OGoodTrans, OOverrunPromptOk, OOverrunPromptPerm}[r.Intn(5)]
			}
		}
		a.Script[k] = []Outcome{OOk, OOk, ONilOk}[r.Intn(3)]
	}
	return a
}

func randomPlans(root *core.Rand, n int) []*PlanSpec {
	var plans []*PlanSpec
	for i := 0; i < n; i++ {
		r := root.Fork(uint64(0x5000 + i))
		p := &PlanSpec{Index: i, Kind: "rnd", Conc: r.Range(1, 3), Tol: r.Range(-1, 2),
			ContDelayUs: [2]int{r.Range(3000, 20000), r.Range(3000, 20000)}}
		ns := r.Range(1, 3)
		for s := 0; s < ns; s++ {
			var sq []*ActSpec
			na := r.Range(1, 3)
			for k := 0; k < na; k++ {
				sq = append(sq, randomAct(r))
			}
			p.Seqs = append(p.Seqs, sq)
		}
		grp := func() []*ActSpec {
			if !r.Chance(0.35) {
				return nil
			}
			var g []*ActSpec
			na := r.Range(1, 3)
			for k := 0; k < na; k++ {
				g = append(g, randomAct(r))
			}
			return g
		}
		for g := 0; g < 5; g++ {
			p.PG[g] = grp()
			p.BG[g] = grp()
		}
		p.setPaths(r)
		plans = append(plans, p)
	}
	return plans
}

// ---- observation (child side) -------------------------------------------------------------------------------

type AttObs struct {
	Resp    string `json:"resp"` // RNone | (RGood k) | RBad
	Err     string `json:"err"`  // ENone | (EPlug k perm) | (EEngine perm)
	TimesOK bool   `json:"times_ok"`
	GoType  string `json:"go_type,omitempty"`
}

func (a AttObs) term() string { return fmt.Sprintf("(%s, %s, %s)", a.Resp, a.Err, core.B(a.TimesOK)) }

type ActImg struct {
	Status int      `json:"status"`
	Atts   []AttObs `json:"atts"`
}

type RunObs struct {
	Calls  int       `json:"calls"`
	Ctx    []bool    `json:"ctx"`
	Eff    []Outcome `json:"eff"` // what each invocation actually delivered
	Events []string  `json:"events"`
	Last   ActImg    `json:"last"` // the action as handed to the last UpdateAction of this run
	Trunc  bool      `json:"trunc,omitempty"`
	RespFl []string  `json:"resp_flavour,omitempty"` // per invocation: which Go value stood for the scripted response
	Prompt []bool    `json:"prompt,omitempty"` // Prompt[k]: invocation k overran and answered promptLag after the cancellation
	Stuck  bool      `json:"stuck,omitempty"` // plan hung and this run saw no event during the last second before the snapshot
	lastAt time.Time
	// timing, for telling machine-load disturbances from violations (not compared)
	maxN     int         // largest attempt count written so far in this run
	writeAt  []time.Time // writeAt[i]: when the first write showing i+1 attempts returned
	deadline []time.Time // deadline[k]: ctx.Deadline() of invocation k (zero if none)
	ended    []bool      // ended[k]: invocation k logged its End
	lag      []time.Duration // lag[k]: how long after the deadline a Prompt invocation answered

}

type ActObs struct {
	Path string    `json:"path"`
	Runs []*RunObs `json:"runs"`
	Idle []string  `json:"idle"` // events before any run
	Back ActImg    `json:"back"` // read back from storage after Wait
}

type PlanObs struct {
	Index     int       `json:"index"`
	Kind      string    `json:"kind"`
	Hang      bool      `json:"hang"`
	Disturbed []string  `json:"disturbed,omitempty"`
	Note      string    `json:"note,omitempty"`
	Actions   []*ActObs `json:"actions"`
	WallMs    int64     `json:"wall_ms"`
}

// projAttempt projects attempt number i of an action. alt: the action's plugin declares the POINTER type *AltResp.
// The declared type makes RGood (a typed-nil pointer of the declared type included: it carries no tag, so it is
// given the tag of its position); an interface that is not nil and holds any other type makes RBad.
func projAttempt(at *workflow.Attempt, i int, alt bool) AttObs {
	o := AttObs{Resp: "RNone", Err: "ENone"}
	if at == nil {
		return AttObs{Resp: "RBad", Err: "(EPlug 98 false)"}
	}
	if at.Resp != nil {
		o.GoType = fmt.Sprintf("%T", at.Resp)
		o.Resp = "RBad"
		if alt {
			if v, ok := at.Resp.(*hplug.AltResp); ok {
				if v == nil {
					o.Resp = fmt.Sprintf("(RGood %d)", i)
					o.GoType += "(nil)"
				} else if k, ok := v.M["k"]; ok {
					o.Resp = fmt.Sprintf("(RGood %d)", k)
				} else {
					o.Resp = "(RGood 97)"
				}
			}
		} else if v, ok := at.Resp.(hplug.Resp); ok {
			o.Resp = fmt.Sprintf("(RGood %d)", v.Value)
		}
	}
	if e := at.Err; e != nil {
		switch {
		case e.Code == 0:
			o.Err = fmt.Sprintf("(EEngine %s)", core.B(e.Permanent))
		case e.Code >= 100 && e.Code < 190:
			o.Err = fmt.Sprintf("(EPlug %d %s)", e.Code-100, core.B(e.Permanent))
		default:
			o.Err = fmt.Sprintf("(EPlug 99 %s)", core.B(e.Permanent))
		}
	}
	o.TimesOK = !at.Start.IsZero() && !at.End.IsZero() && !at.End.Before(at.Start)
	return o
}

func projAction(a *workflow.Action) ActImg {
	im := ActImg{Status: -1, Atts: []AttObs{}}
	if a.State != nil {
		im.Status = int(a.State.Status)
	}
	for i, at := range a.Attempts {
		im.Atts = append(im.Atts, projAttempt(at, i, a.Plugin == hplug.AltName))
	}
	return im
}

func (im ActImg) lastOK() bool {
	n := len(im.Atts)
	return n > 0 && im.Atts[n-1].Err == "ENone"
}

func (im ActImg) event() string {
	n := len(im.Atts)
	switch workflow.Status(im.Status) {
	case workflow.NotStarted:
		if n == 0 {
			return "AWIdle"
		}
	case workflow.Running:
		if n == 0 {
			return "AWRun"
		}
		return fmt.Sprintf("(AWAtt %d %s)", n, core.B(im.lastOK()))
	case workflow.Completed:
		return fmt.Sprintf("(AWDone true %d)", n)
	case workflow.Failed:
		return fmt.Sprintf("(AWDone false %d)", n)
	}
	return "AWBad"
}

type actRec struct {
	id       uuid.UUID
	spec     *ActSpec
	obs      *ActObs
	cur      *RunObs
	lastEv   string
	inflight int
}

type planRec struct {
	spec      *PlanSpec
	nonce     string
	id        uuid.UUID
	acts      map[string]*actRec // by path
	order     []*actRec
	disturbed []string
	inflight  int
}

var (
	mu    sync.Mutex
	byNon = map[string]*planRec{}
	byID  = map[uuid.UUID]*actRec{}
)

const maxEvents = 400

func (r *RunObs) add(e string) {
	r.lastAt = time.Now()
	if len(r.Events) >= maxEvents {
		r.Trunc = true
		return
	}
	r.Events = append(r.Events, e)
}

// LogVault embeds a storage.Vault value (the unexported private() is promoted), logs each UpdateAction after
// it returned, with the projection of the action taken just before the call.
type LogVault struct{ storage.Vault }

func (v LogVault) UpdateAction(ctx context.Context, a *workflow.Action) error {
	im := projAction(a)
	err := v.Vault.UpdateAction(ctx, a)
	if err != nil {
		return err
	}
	mu.Lock()
	if rec := byID[a.ID]; rec != nil {
		ev := im.event()
		if ev == "AWRun" && rec.lastEv != "AWRun" {
			rec.cur = &RunObs{Ctx: []bool{}, Eff: []Outcome{}}
			rec.obs.Runs = append(rec.obs.Runs, rec.cur)
		}
		if rec.cur == nil {
			if len(rec.obs.Idle) < maxEvents {
				rec.obs.Idle = append(rec.obs.Idle, ev)
			}
		} else {
			rec.cur.add(ev)
			rec.cur.Last = im
			for n := len(im.Atts); rec.cur.maxN < n; {
				rec.cur.maxN++
				rec.cur.writeAt = append(rec.cur.writeAt, time.Now())
			}
		}
		rec.lastEv = ev
	}
	mu.Unlock()
	return nil
}

// after its context is cancelled a plugin waits for the engine's write of that attempt before it returns (so that
// the engine, which first looks for an answer that already arrived when it notices the deadline, cannot pick up
// the late answer); engineWriteCap bounds that wait (an engine that waits for the plugin instead is then observed
// recording the plugin's late answer).
const engineWriteCap = 150 * time.Millisecond

// behave is the hplug.Behaviour of the action and the check plugin.
func behave(ctx context.Context, p *hplug.Plugin, req any) (any, *plugins.Error) {
	var nonce, path string
	alt := false
	switch rq := req.(type) {
	case hplug.Req:
		nonce, path = rq.Nonce, rq.Path
	case hplug.AltReq:
		nonce, path, alt = rq.Nonce, rq.Path, true
	default:
		return p.OKResp(req), nil
	}
	mu.Lock()
	pr := byNon[nonce]
	var rec *actRec
	if pr != nil {
		rec = pr.acts[path]
	}
	if rec == nil {
		mu.Unlock()
		return p.OKResp(req), nil
	}
	run := rec.cur
	if run == nil { // invoked although no Running write was seen: a run whose trace starts with AStart
		run = &RunObs{Ctx: []bool{}, Eff: []Outcome{}}
		rec.cur = run
		rec.obs.Runs = append(rec.obs.Runs, run)
	}
	k := run.Calls
	run.Calls++
	run.Ctx = append(run.Ctx, false)
	flavour := rec.spec.planned(k)
	planned := flavour.coq()
	// safety net: an engine that keeps invoking beyond the budget is stopped by a permanent error (the run is then
	// an observation with more than Retries+1 calls, not a disturbance)
	if k >= rec.spec.Retries+10 {
		flavour, planned = OPerm, OPerm
	}
	run.Eff = append(run.Eff, planned)
	dl, _ := ctx.Deadline()
	run.deadline = append(run.deadline, dl)
	run.ended = append(run.ended, false)
	run.Prompt = append(run.Prompt, false)
	run.RespFl = append(run.RespFl, "")
	run.lag = append(run.lag, 0)
	if ctx.Err() != nil {
		pr.disturbed = append(pr.disturbed, fmt.Sprintf("late_start: %s call %d entered after its deadline", path, k))
	}
	run.add("AStart")
	rec.inflight++
	pr.inflight++
	mu.Unlock()

	hh := fnv.New32a()
	fmt.Fprintf(hh, "%s|%s|%d", nonce, path, k)
	h := hh.Sum32()

	eff := planned
	lag := time.Duration(0)
	switch {
	case flavour == OSlowOk || flavour == OSlowPerm:
		select {
		case <-time.After(slowDelay):
		case <-ctx.Done():
		}
	case flavour == OOverrunIgnore && !dl.IsZero():
		lag = time.Duration(lateLo+int(h>>8)%(lateHi-lateLo+1)) * time.Millisecond
		time.Sleep(time.Until(dl) + lag) // does not look at the context
	case planned == OOverrun:
		select {
		case <-ctx.Done():
		case <-time.After(1500 * time.Millisecond):
			// the deadline passed long ago and the context was never cancelled: an observation (ctx flag false
			// for an overrun), not a disturbance
		}
	}
	cancelled := ctx.Err() != nil // decided once
	prompt := cancelled && planned == OOverrun && flavour != OOverrun
	if prompt {
		if lag == 0 {
			lag = promptLag
			time.Sleep(promptLag)
		}
	} else if cancelled {
		eff = OOverrun
		for t0 := time.Now(); time.Since(t0) < engineWriteCap; {
			mu.Lock()
			written := run.maxN > k
			mu.Unlock()
			if written {
				break
			}
			time.Sleep(100 * time.Microsecond)
		}
	}

	// the Go values that stand for the scripted pair
	code := plugins.ErrCode(100 + k)
	if k >= 90 {
		code = 189
	}
	var resp any
	var perr *plugins.Error
	respFl := ""
	good := func() any {
		if alt {
			if h%10 < 3 {
				respFl = "good:typed-nil *AltResp (declared type)"
				return (*hplug.AltResp)(nil)
			}
			respFl = "good:*AltResp"
			return &hplug.AltResp{Echo: path, M: map[string]int{"k": k}}
		}
		respFl = "good:Resp"
		return hplug.Resp{Path: path, Value: int64(k)}
	}
	switch {
	case prompt && flavour == OOverrunPromptPerm:
		perr = &plugins.Error{Code: code, Message: "late permanent error", Permanent: true}
	case prompt:
		resp = good()
	case eff == OOverrun:
		msg := "returned after the deadline"
		if err := ctx.Err(); err != nil {
			msg += ": " + err.Error()
		}
		perr = &plugins.Error{Code: code, Message: msg}
	default:
		switch outcomeResp[eff] {
		case 1:
			resp = good()
		case 2: // a non-nil interface value whose dynamic type is not the declared one
			switch (h >> 4) % 5 {
			case 4: // a different type whose %T text equals the declared type's
				if alt {
					resp, respFl = &homonym.AltResp{Echo: path, M: map[string]int{"k": k}}, "bad:homonym *hplug.AltResp (other package, same %T)"
				} else {
					resp, respFl = homonym.Resp{Path: path, Value: int64(k)}, "bad:homonym hplug.Resp (other package, same %T)"
				}
			case 0:
				if alt {
					resp, respFl = hplug.Resp{Path: "wrong"}, "bad:Resp value"
				} else {
					resp, respFl = hplug.AltResp{Echo: "wrong"}, "bad:AltResp value"
				}
			case 1:
				resp, respFl = (*hplug.Resp)(nil), "bad:typed-nil *Resp"
			case 2:
				resp, respFl = map[string]int(nil), "bad:nil map"
			default:
				resp, respFl = []string(nil), "bad:nil slice"
			}
		}
		// an error value whose Message is empty is still an error: nothing may look at the text
		msgT, msgP := "scripted transient error", "scripted permanent error"
		if h%10 < 3 {
			msgT, msgP = "", ""
		}
		switch outcomeErr[eff] {
		case 1:
			perr = &plugins.Error{Code: code, Message: msgT}
		case 2:
			perr = &plugins.Error{Code: code, Message: msgP, Permanent: true}
		}
	}

	mu.Lock()
	if eff != planned {
		pr.disturbed = append(pr.disturbed, fmt.Sprintf("late_start: %s call %d planned %s delivered %s", path, k, outcomeName[planned], outcomeName[eff]))
	} else if eff != OOverrun {
		if !dl.IsZero() && time.Until(dl) < 4*time.Millisecond {
			pr.disturbed = append(pr.disturbed, fmt.Sprintf("near_deadline: %s call %d returned within 4ms of its deadline", path, k))
		}
	}
	run.Ctx[k] = cancelled
	run.Eff[k] = eff
	run.ended[k] = true
	run.Prompt[k] = prompt
	run.RespFl[k] = respFl
	run.lag[k] = lag
	run.add(fmt.Sprintf("(AEnd %s)", outcomeName[eff]))
	rec.inflight--
	pr.inflight--
	mu.Unlock()
	return resp, perr
}

// ---- building and running plans (child side) ------------------------------------------------------------------

func build(sp *PlanSpec, r *core.Rand) (*workflow.Plan, *planRec) {
	pr := &planRec{spec: sp, nonce: fmt.Sprintf("n%016x-%s-%d", r.Uint64(), sp.id(), sp.Round), acts: map[string]*actRec{}}
	st := func() *workflow.State { return &workflow.State{Status: workflow.NotStarted} }
	action := func(as *ActSpec) *workflow.Action {
		a := &workflow.Action{ID: plangen.V7(r), Name: "a " + as.Path, Descr: "action " + as.Path, Retries: as.Retries,
			Timeout: time.Duration(as.TimeoutMs) * time.Millisecond, State: st(),
			Req: hplug.Req{Nonce: pr.nonce, Path: as.Path, Arg: int64(as.Retries)}, Plugin: hplug.ActionName}
		if as.Check {
			a.Plugin = hplug.CheckName
		} else if as.Alt {
			a.Plugin = hplug.AltName
			a.Req = hplug.AltReq{Nonce: pr.nonce, Path: as.Path, N: as.Retries}
		}
		rec := &actRec{id: a.ID, spec: as, obs: &ActObs{Path: as.Path, Runs: []*RunObs{}, Idle: []string{}}}
		pr.acts[as.Path] = rec
		pr.order = append(pr.order, rec)
		byID[a.ID] = rec
		return a
	}
	checks := func(g int, as []*ActSpec, delayUs int) *workflow.Checks {
		if as == nil {
			return nil
		}
		k := &workflow.Checks{ID: plangen.V7(r), State: st()}
		if g == GCont {
			k.Delay = time.Duration(delayUs) * time.Microsecond
		}
		for _, a := range as {
			k.Actions = append(k.Actions, action(a))
		}
		return k
	}
	p := &workflow.Plan{ID: plangen.V7(r), Name: "plan " + pr.nonce, Descr: "c05 " + sp.Kind, State: st(), SubmitTime: time.Now().UTC()}
	pr.id = p.ID
	p.BypassChecks = checks(GBypass, sp.PG[GBypass], 0)
	p.PreChecks = checks(GPre, sp.PG[GPre], 0)
	p.ContChecks = checks(GCont, sp.PG[GCont], sp.ContDelayUs[0])
	p.PostChecks = checks(GPost, sp.PG[GPost], 0)
	p.DeferredChecks = checks(GDeferred, sp.PG[GDeferred], 0)
	b := &workflow.Block{ID: plangen.V7(r), Name: "block", Descr: "block", State: st(), Concurrency: sp.Conc, ToleratedFailures: sp.Tol}
	b.BypassChecks = checks(GBypass, sp.BG[GBypass], 0)
	b.PreChecks = checks(GPre, sp.BG[GPre], 0)
	b.ContChecks = checks(GCont, sp.BG[GCont], sp.ContDelayUs[1])
	b.PostChecks = checks(GPost, sp.BG[GPost], 0)
	b.DeferredChecks = checks(GDeferred, sp.BG[GDeferred], 0)
	for si, sq := range sp.Seqs {
		s := &workflow.Sequence{ID: plangen.V7(r), Name: fmt.Sprintf("seq %d", si), Descr: "sequence", State: st()}
		for _, a := range sq {
			s.Actions = append(s.Actions, action(a))
		}
		b.Sequences = append(b.Sequences, s)
	}
	p.Blocks = []*workflow.Block{b}
	byNon[pr.nonce] = pr
	return p, pr
}

const waitDeadline = 5 * time.Second

func runBatch(specs []*PlanSpec, seed uint64) []*PlanObs {
	ctx := context.Background()
	out := make([]*PlanObs, len(specs))
	for i, sp := range specs {
		out[i] = &PlanObs{Index: sp.Index, Kind: sp.Kind, Actions: []*ActObs{}}
	}
	fail := func(msg string) []*PlanObs {
		for _, o := range out {
			o.Note = msg
		}
		return out
	}
	set := hplug.NewSet()
	set.Action.SetBehaviour(behave)
	set.Check.SetBehaviour(behave)
	set.Alt.SetBehaviour(behave)
	inner, err := sqlite.New(ctx, "", set.Reg, sqlite.WithInMemory())
	if err != nil {
		return fail("harness: sqlite.New: " + err.Error())
	}
	vault := LogVault{Vault: inner}
	ws, err := coercion.New(ctx, set.Reg, vault)
	if err != nil {
		return fail("harness: coercion.New: " + err.Error())
	}
	prs := make([]*planRec, len(specs))
	plans := make([]*workflow.Plan, len(specs))
	mu.Lock()
	for i, sp := range specs {
		plans[i], prs[i] = build(sp, core.NewRand(seed).Fork(uint64(sp.Index)+uint64(len(sp.Kind))*1000003).Fork(uint64(0x1d+sp.Round)))
	}
	mu.Unlock()
	var wg sync.WaitGroup
	for i := range specs {
		i := i
		if err := vault.Create(ctx, plans[i]); err != nil {
			out[i].Note = "harness: create: " + err.Error()
			continue
		}
		t0 := time.Now()
		if err := ws.Start(ctx, prs[i].id); err != nil {
			out[i].Note = "harness: start: " + err.Error()
			continue
		}
		wg.Add(1)
		go func() {
			defer wg.Done()
			wctx, cancel := context.WithTimeout(ctx, waitDeadline)
			defer cancel()
			p, err := ws.Wait(wctx, prs[i].id)
			out[i].WallMs = time.Since(t0).Milliseconds()
			if err != nil || p == nil {
				out[i].Hang = true
			}
		}()
	}
	wg.Wait()
	// let plugins whose invocation the engine abandoned (overrun) return
	for t := 0; t < 1000; t++ {
		mu.Lock()
		n := 0
		for i, pr := range prs {
			if !out[i].Hang {
				n += pr.inflight
			}
		}
		mu.Unlock()
		if n == 0 {
			break
		}
		time.Sleep(2 * time.Millisecond)
	}
	for i, pr := range prs {
		if out[i].Note != "" {
			continue
		}
		back := map[uuid.UUID]ActImg{}
		if !out[i].Hang {
			p, err := vault.Read(ctx, pr.id)
			if err != nil || p == nil {
				out[i].Note = fmt.Sprintf("harness: read back: %v", err)
			} else {
				collect := func(as []*workflow.Action) {
					for _, a := range as {
						back[a.ID] = projAction(a)
					}
				}
				chk := func(k *workflow.Checks) {
					if k != nil {
						collect(k.Actions)
					}
				}
				chk(p.BypassChecks)
				chk(p.PreChecks)
				chk(p.ContChecks)
				chk(p.PostChecks)
				chk(p.DeferredChecks)
				for _, b := range p.Blocks {
					chk(b.BypassChecks)
					chk(b.PreChecks)
					chk(b.ContChecks)
					chk(b.PostChecks)
					chk(b.DeferredChecks)
					for _, s := range b.Sequences {
						collect(s.Actions)
					}
				}
			}
		}
		mu.Lock()
		for _, rec := range pr.order {
			ob := rec.obs
			if im, ok := back[rec.id]; ok {
				// a typed-nil pointer response is encoded as JSON null: storage cannot tell it from "no response".
				// Pinned as equivalent for the read-back comparison only (the in-memory attempt is what is compared
				// with the model).
				if n := len(ob.Runs); n > 0 {
					last := ob.Runs[n-1].Last.Atts
					for i := range im.Atts {
						if i < len(last) && strings.HasSuffix(last[i].GoType, "(nil)") && im.Atts[i].Resp == "RNone" {
							im.Atts[i].Resp = last[i].Resp
						}
					}
				}
				ob.Back = im
			} else {
				ob.Back = ActImg{Status: -1, Atts: []AttObs{}}
			}
			// deep copy under the lock: late plugin returns may still append
			cp := &ActObs{Path: ob.Path, Idle: append([]string{}, ob.Idle...), Back: ob.Back, Runs: []*RunObs{}}
			for _, r := range ob.Runs {
				rc := *r
				rc.Stuck = out[i].Hang && time.Since(r.lastAt) > time.Second
				for k := 0; k < r.Calls && k < len(r.Last.Atts) && k < len(r.writeAt); k++ {
					// late_end: the plugin returned in time (its context was not cancelled when it logged its End), the
					// engine nevertheless recorded a timeout, and it did so after the invocation's deadline: the answer
					// travelled too slowly (plugin goroutine descheduled before its channel send). Machine load; re-run.
					// The same signature with the write BEFORE the deadline is not excused.
					if r.ended[k] && r.Eff[k] != OOverrun && r.Last.Atts[k].Err == "(EEngine false)" &&
						!r.deadline[k].IsZero() && !r.writeAt[k].Before(r.deadline[k]) {
						pr.disturbed = append(pr.disturbed, fmt.Sprintf("late_end: %s call %d returned %s in time but the engine recorded a timeout %v after the deadline",
							ob.Path, k, outcomeName[r.Eff[k]], r.writeAt[k].Sub(r.deadline[k])))
					}
				}
				for k := 0; k < r.Calls && k < len(r.Last.Atts) && k < len(r.writeAt); k++ {
					// late_notice: the plugin overran, saw its context cancelled and answered promptLag later, and the
					// engine recorded that ANSWER: possible without a defect only if the engine noticed the deadline
					// at least promptLag late (then the answer had already arrived). Machine load; re-run - but if it
					// persists in every re-run it is compared as it is (an engine that waits for late answers).
					if r.Prompt[k] && r.Last.Atts[k].Err != "(EEngine false)" && !r.deadline[k].IsZero() &&
						r.writeAt[k].Sub(r.deadline[k]) >= r.lag[k] {
						pr.disturbed = append(pr.disturbed, fmt.Sprintf("late_notice: %s call %d overran, answered %v after the deadline, and the engine recorded the answer %v after the deadline",
							ob.Path, k, r.lag[k], r.writeAt[k].Sub(r.deadline[k])))
					}
				}
				if len(r.Last.Atts) > r.Calls {
					// an attempt without an invocation: the worker pool did not get to start the plugin before the
					// attempt's deadline (Pool.Submit gives up when its context is done). Machine load; re-run.
					pr.disturbed = append(pr.disturbed, fmt.Sprintf("not-entered: %s recorded %d attempts for %d invocations", ob.Path, len(r.Last.Atts), r.Calls))
				}
				rc.Ctx = append([]bool{}, r.Ctx...)
				rc.Prompt = append([]bool{}, r.Prompt...)
				rc.RespFl = append([]string{}, r.RespFl...)
				rc.Eff = append([]Outcome{}, r.Eff...)
				rc.Events = append([]string{}, r.Events...)
				if rc.Last.Atts == nil {
					rc.Last = ActImg{Status: -1, Atts: []AttObs{}}
				}
				cp.Runs = append(cp.Runs, &rc)
			}
			out[i].Actions = append(out[i].Actions, cp)
		}
		out[i].Disturbed = append([]string{}, pr.disturbed...)
		mu.Unlock()
	}
	return out
}

func childMain() {
	var in struct {
		Seed  uint64      `json:"seed"`
		Specs []*PlanSpec `json:"specs"`
	}
	if err := json.NewDecoder(bufio.NewReaderSize(os.Stdin, 1<<20)).Decode(&in); err != nil {
		fmt.Fprintln(os.Stderr, "child: bad input:", err)
		os.Exit(3)
	}
	res := runBatch(in.Specs, in.Seed)
	w := bufio.NewWriterSize(os.Stdout, 1<<20)
	enc := json.NewEncoder(w)
	for _, r := range res {
		enc.Encode(r)
	}
	w.Flush()
	os.Exit(0) // do not wait for anything a hung plan left behind
}

// ---- parent ---------------------------------------------------------------------------------------------------

func runChild(specs []*PlanSpec, seed uint64) ([]*PlanObs, error) {
	self, err := os.Executable()
	if err != nil {
		return nil, err
	}
	in, _ := json.Marshal(map[string]any{"seed": seed, "specs": specs})
	ctx, cancel := context.WithTimeout(context.Background(), 60*time.Second)
	defer cancel()
	cmd := exec.CommandContext(ctx, self, "-child")
	cmd.Stdin = strings.NewReader(string(in))
	var errb strings.Builder
	cmd.Stderr = &errb
	outb, err := cmd.Output()
	if err != nil {
		return nil, fmt.Errorf("child: %v: %s", err, tail(errb.String(), 1500))
	}
	var res []*PlanObs
	dec := json.NewDecoder(strings.NewReader(string(outb)))
	for dec.More() {
		var o PlanObs
		if err := dec.Decode(&o); err != nil {
			return nil, fmt.Errorf("child output: %v", err)
		}
		res = append(res, &o)
	}
	if len(res) != len(specs) {
		return nil, fmt.Errorf("child returned %d results for %d plans: %s", len(res), len(specs), tail(errb.String(), 1500))
	}
	return res, nil
}

func tail(s string, n int) string {
	if len(s) > n {
		return s[len(s)-n:]
	}
	return s
}

func statusTerm(s int) string {
	switch workflow.Status(s) {
	case workflow.NotStarted:
		return "NotStarted"
	case workflow.Running:
		return "Running"
	case workflow.Completed:
		return "Completed"
	case workflow.Failed:
		return "Failed"
	}
	return "Stopped"
}

func attsTerm(as []AttObs) string {
	xs := make([]string, len(as))
	for i, a := range as {
		xs[i] = a.term()
	}
	return core.List(xs)
}

func outcomesTerm(os []Outcome) string {
	xs := make([]string, len(os))
	for i, o := range os {
		xs[i] = outcomeTerm(o)
	}
	return core.List(xs)
}

func boolsTerm(bs []bool) string {
	xs := make([]string, len(bs))
	for i, b := range bs {
		xs[i] = core.B(b)
	}
	return core.List(xs)
}

// effScript: what the invocations of this run delivered, followed by the planned rest.
func effScript(a *ActSpec, r *RunObs) []Outcome {
	s := append([]Outcome{}, r.Eff...)
	for k := len(s); k < len(a.Script); k++ {
		s = append(s, a.Script[k])
	}
	return s
}

func acaseTerm(a *ActSpec, o *ActObs, partial bool) string {
	runs := make([]string, len(o.Runs))
	for i, r := range o.Runs {
		runs[i] = core.App("Build_run_obs", outcomesTerm(effScript(a, r)), core.Nat(r.Calls), boolsTerm(r.Ctx),
			attsTerm(r.Last.Atts), statusTerm(r.Last.Status), core.List(r.Events), core.B(r.Stuck))
	}
	return core.App("Build_acase", core.Nat(a.Retries), outcomesTerm(a.Script), outcomeTerm(a.Dflt), core.B(partial),
		core.List(runs), core.List(o.Idle), core.Pair(attsTerm(o.Back.Atts), statusTerm(o.Back.Status)))
}

func main() {
	child := flag.Bool("child", false, "internal: run a batch read from stdin")
	n := flag.Int("n", 60, "number of random plans")
	exh := flag.Int("exh", 3, "bounded-exhaustive family: script length k (all 10^k scripts x retries 0-4); 0 = off")
	both := flag.Bool("both", false, "every combination as a sequence action AND as a check action (default: one of the two, by the seed)")
	long := flag.Bool("long", true, "long-budget family: retries 31, 32, 33, 40, 64")
	par := flag.Int("par", 6, "child processes in parallel")
	batch := flag.Int("batch", 6, "plans per child (run concurrently on one Workstream)")
	only := flag.String("only", "", "run only the plan with this id (replay)")
	out := flag.String("out", "-", "output file (JSONL)")
	flag.Parse()
	if *child {
		childMain()
		return
	}
	w, err := core.NewWriter(*out)
	if err != nil {
		fmt.Fprintln(os.Stderr, err)
		os.Exit(2)
	}
	defer w.Close()
	seed := core.Seed()
	root := core.NewRand(seed)
	var specs []*PlanSpec
	if *exh > 0 {
		specs = append(specs, exhaustivePlans(root, *exh, *both)...)
	}
	if *long {
		specs = append(specs, longPlans(root)...)
		specs = append(specs, latePlans(root)...)
	}
	specs = append(specs, randomPlans(root, *n)...)
	if *only != "" {
		var keep []*PlanSpec
		for _, s := range specs {
			if s.id() == *only {
				keep = append(keep, s)
			}
		}
		specs = keep
	}

	final := map[string]*PlanObs{}
	rounds := map[string]int{}
	causes := map[string][]string{} // per plan: why it was re-run (late_start / late_end / near_deadline / not-entered / hang / harness)
	kindOf := func(d string) string {
		if i := strings.Index(d, ":"); i > 0 {
			return d[:i]
		}
		return "other"
	}
	var harnessErrs []string
	todo := specs
	for round := 0; round < 4 && len(todo) > 0; round++ {
		var batches [][]*PlanSpec
		bs := *batch
		if round > 0 {
			bs = 2 // re-runs with little company
		}
		for i := 0; i < len(todo); i += bs {
			j := i + bs
			if j > len(todo) {
				j = len(todo)
			}
			batches = append(batches, todo[i:j])
		}
		results := make([][]*PlanObs, len(batches))
		errs := make([]error, len(batches))
		sem := make(chan struct{}, *par)
		var wg sync.WaitGroup
		for bi := range batches {
			bi := bi
			wg.Add(1)
			sem <- struct{}{}
			go func() {
				defer wg.Done()
				defer func() { <-sem }()
				for _, s := range batches[bi] {
					s.Round = round
				}
				results[bi], errs[bi] = runChild(batches[bi], seed)
			}()
		}
		wg.Wait()
		var again []*PlanSpec
		for bi, b := range batches {
			if errs[bi] != nil {
				harnessErrs = append(harnessErrs, errs[bi].Error())
				again = append(again, b...)
				continue
			}
			for i, sp := range b {
				o := results[bi][i]
				final[sp.id()] = o
				rounds[sp.id()] = round
				if (o.Hang || len(o.Disturbed) > 0 || strings.HasPrefix(o.Note, "harness:")) && round < 3 {
					again = append(again, sp)
					seen := map[string]bool{}
					if o.Hang {
						seen["hang"] = true
					}
					if strings.HasPrefix(o.Note, "harness:") {
						seen["harness"] = true
					}
					for _, d := range o.Disturbed {
						seen[kindOf(d)] = true
					}
					for k := range seen {
						causes[sp.id()] = append(causes[sp.id()], k)
					}
					sort.Strings(causes[sp.id()])
				}
			}
		}
		todo = again
	}

	for _, sp := range specs {
		o := final[sp.id()]
		c := core.Case{ID: sp.id(), Kind: sp.Kind, Input: map[string]any{"seed": seed, "plan": sp}}
		if o == nil {
			c.Note = "harness: no result: " + strings.Join(harnessErrs, " | ")
			c.Coq = "[]"
			w.Put(c)
			continue
		}
		onlyNotEntered := len(o.Disturbed) > 0
		for _, d := range o.Disturbed {
			if !strings.HasPrefix(d, "not-entered:") && !strings.HasPrefix(d, "late_notice:") {
				onlyNotEntered = false
			}
		}
		// an attempt recorded without an invocation in four runs in a row is not machine load: compare it as it is
		if len(o.Disturbed) > 0 && !o.Hang && !onlyNotEntered {
			// still disturbed by machine load after three re-runs: what the engine saw is ambiguous; not compared
			c.Note = "dropped: disturbed: " + strings.Join(o.Disturbed, "; ")
			c.Coq = "[]"
			kinds := map[string]int{}
			for _, d := range o.Disturbed {
				kinds[kindOf(d)]++
			}
			c.Dist = map[string]any{"dropped": true, "round": rounds[sp.id()], "dropped_kinds": kinds, "rerun_causes": causes[sp.id()]}
			w.Put(c)
			continue
		}
		acts := sp.actions()
		byPath := map[string]*ActObs{}
		for _, a := range o.Actions {
			byPath[a.Path] = a
		}
		var terms, hashParts []string
		outcomes := map[string]int{}
		flavours := map[string]int{}
		respFl := map[string]int{}
		retries := map[string]int{}
		scriptLen := map[string]int{}
		callsH := map[string]int{}
		statusH := map[string]int{}
		var combosRun []int
		ran, runsTotal, neverRan := 0, 0, 0
		kinds := map[string]int{}
		for _, a := range acts {
			ob := byPath[a.Path]
			if ob == nil {
				ob = &ActObs{Path: a.Path, Runs: []*RunObs{}, Idle: []string{}, Back: ActImg{Status: -1, Atts: []AttObs{}}}
			}
			terms = append(terms, acaseTerm(a, ob, o.Hang))
			if len(ob.Runs) == 0 {
				neverRan++
				continue
			}
			ran++
			if a.Check {
				kinds["check"]++
			} else {
				kinds["sequence"]++
			}
			if a.Combo >= 0 {
				combosRun = append(combosRun, a.Combo)
			}
			retries[fmt.Sprint(a.Retries)]++
			scriptLen[fmt.Sprint(len(a.Script))]++
			r0 := ob.Runs[0]
			for _, f := range r0.RespFl {
				if f != "" {
					respFl[f]++
				}
			}
			for k, e := range r0.Eff {
				outcomes[outcomeName[e]]++
				if e == OOverrun {
					if k < len(r0.Prompt) && r0.Prompt[k] {
						flavours["prompt-answer"]++
					} else {
						flavours["after-engine-write"]++
					}
				}
			}
			callsH[fmt.Sprint(r0.Calls)]++
			statusH[statusTerm(r0.Last.Status)]++
			runsTotal += len(ob.Runs)
			hashParts = append(hashParts, fmt.Sprintf("%d|%v|%v|%d|%s", a.Retries, effScript(a, r0), a.Check, r0.Calls, attsTerm(r0.Last.Atts)))
		}
		sort.Strings(hashParts)
		c.Coq = core.List(terms)
		c.Nontrivial = ran > 0
		c.Hash = core.Hash(hashParts...)
		c.Dist = map[string]any{"actions": len(acts), "ran": ran, "never_ran": neverRan, "runs": runsTotal, "outcomes": outcomes, "overrun_flavours": flavours, "response_flavours": respFl,
			"retries": retries, "script_len": scriptLen, "calls": callsH, "status": statusH, "combos_run": combosRun,
			"kinds": kinds, "round": rounds[sp.id()], "rerun_causes": causes[sp.id()], "hang": o.Hang, "disturbed": len(o.Disturbed), "wall_ms": o.WallMs}
		c.Observed = o
		c.Note = o.Note
		if o.Hang {
			c.Note = strings.TrimSpace("hang " + c.Note)
		}
		if len(o.Disturbed) > 0 {
			c.Note = strings.TrimSpace(c.Note + " disturbed: " + strings.Join(o.Disturbed, "; "))
		}
		w.Put(c)
	}
}
