// c11: builds stores holding several plans in assorted durable states (never started, terminal, Running
// crash images of real runs, aged or live), opens the REAL Workstream on them with coercion.New and
// records what start-up recovery did: the whole store before/after, the plugin calls per plan, the
// Update* calls per plan. One store = one case, run in a child process.
package main

import (
	"encoding/json"
	"flag"
	"fmt"
	"os"
	"os/exec"
	"sort"
	"strings"
	"sync"
	"time"

	"verifharness/core"
	"verifharness/hplug"
	"verifharness/plancoq"
	"verifharness/plangen"

	"github.com/element-of-surprise/coercion"
	"github.com/element-of-surprise/coercion/plugins"
	"github.com/element-of-surprise/coercion/workflow"
	"github.com/element-of-surprise/coercion/workflow/context"
	"github.com/element-of-surprise/coercion/workflow/storage"
	"github.com/element-of-surprise/coercion/workflow/storage/cosmosdb"
	"github.com/element-of-surprise/coercion/workflow/storage/sqlite"
	"github.com/google/uuid"
)

// ---------------------------------------------------------------- own traversal (walk order), independent of walk.Plan

type node struct {
	kind string // plan checks block seq action
	id   uuid.UUID
	st   *workflow.State
	act  *workflow.Action
}

func nodesOf(p *workflow.Plan) []node {
	var out []node
	grp := func(c *workflow.Checks) {
		if c == nil {
			return
		}
		out = append(out, node{"checks", c.ID, c.State, nil})
		for _, a := range c.Actions {
			out = append(out, node{"checkaction", a.ID, a.State, a})
		}
	}
	out = append(out, node{"plan", p.ID, p.State, nil})
	grp(p.BypassChecks)
	grp(p.PreChecks)
	grp(p.ContChecks)
	for _, b := range p.Blocks {
		out = append(out, node{"block", b.ID, b.State, nil})
		grp(b.BypassChecks)
		grp(b.PreChecks)
		grp(b.ContChecks)
		for _, s := range b.Sequences {
			out = append(out, node{"seq", s.ID, s.State, nil})
			for _, a := range s.Actions {
				out = append(out, node{"action", a.ID, a.State, a})
			}
		}
		grp(b.PostChecks)
		grp(b.DeferredChecks)
	}
	grp(p.PostChecks)
	grp(p.DeferredChecks)
	return out
}

// latest is the harness's own "most recent recorded start/end of any object or attempt" (zero if none).
func latest(p *workflow.Plan) time.Time {
	var m time.Time
	for _, n := range nodesOf(p) {
		ts := []time.Time{n.st.Start, n.st.End}
		if n.act != nil {
			for _, at := range n.act.Attempts {
				ts = append(ts, at.Start, at.End)
			}
		}
		for _, t := range ts {
			if !t.IsZero() && (m.IsZero() || t.After(m)) {
				m = t
			}
		}
	}
	return m
}

// ---------------------------------------------------------------- vault wrappers

// limitVault forwards Update* calls of a plan only while the plan's budget lasts (budget < 0: always):
// the inner vault then holds the durable image a crash after that many writes leaves behind.
type limitVault struct {
	storage.Vault
	mu     sync.Mutex
	owner  map[uuid.UUID]uuid.UUID
	budget map[uuid.UUID]int
	count  map[uuid.UUID]int
}

func (v *limitVault) allow(obj uuid.UUID) bool {
	v.mu.Lock()
	defer v.mu.Unlock()
	pl := v.owner[obj]
	v.count[pl]++
	b, ok := v.budget[pl]
	if !ok || b < 0 {
		return true
	}
	return v.count[pl] <= b
}
func (v *limitVault) UpdatePlan(ctx context.Context, p *workflow.Plan) error {
	if v.allow(p.ID) {
		return v.Vault.UpdatePlan(ctx, p)
	}
	return nil
}
func (v *limitVault) UpdateChecks(ctx context.Context, c *workflow.Checks) error {
	if v.allow(c.ID) {
		return v.Vault.UpdateChecks(ctx, c)
	}
	return nil
}
func (v *limitVault) UpdateBlock(ctx context.Context, b *workflow.Block) error {
	if v.allow(b.ID) {
		return v.Vault.UpdateBlock(ctx, b)
	}
	return nil
}
func (v *limitVault) UpdateSequence(ctx context.Context, s *workflow.Sequence) error {
	if v.allow(s.ID) {
		return v.Vault.UpdateSequence(ctx, s)
	}
	return nil
}
func (v *limitVault) UpdateAction(ctx context.Context, a *workflow.Action) error {
	if v.allow(a.ID) {
		return v.Vault.UpdateAction(ctx, a)
	}
	return nil
}

// logVault counts the Update* calls per plan (after they returned).
type logVault struct {
	storage.Vault
	mu     sync.Mutex
	owner  map[uuid.UUID]int
	row    map[uuid.UUID]int // position of the object in its plan, walk order (0 = the plan)
	size   map[int]int       // objects per plan
	writes map[int]int
	order  map[int][]int // per plan: the rows written, in call order (cut off after 2 x size)
	stray  int
}

func (v *logVault) note(obj uuid.UUID) {
	v.mu.Lock()
	if i, ok := v.owner[obj]; ok {
		v.writes[i]++
		if len(v.order[i]) < 2*v.size[i] {
			v.order[i] = append(v.order[i], v.row[obj])
		}
	} else {
		v.stray++
	}
	v.mu.Unlock()
}
func (v *logVault) UpdatePlan(ctx context.Context, p *workflow.Plan) error {
	err := v.Vault.UpdatePlan(ctx, p)
	v.note(p.ID)
	return err
}
func (v *logVault) UpdateChecks(ctx context.Context, c *workflow.Checks) error {
	err := v.Vault.UpdateChecks(ctx, c)
	v.note(c.ID)
	return err
}
func (v *logVault) UpdateBlock(ctx context.Context, b *workflow.Block) error {
	err := v.Vault.UpdateBlock(ctx, b)
	v.note(b.ID)
	return err
}
func (v *logVault) UpdateSequence(ctx context.Context, s *workflow.Sequence) error {
	err := v.Vault.UpdateSequence(ctx, s)
	v.note(s.ID)
	return err
}
func (v *logVault) UpdateAction(ctx context.Context, a *workflow.Action) error {
	err := v.Vault.UpdateAction(ctx, a)
	v.note(a.ID)
	return err
}

// indexVault models a back end with a separate search index (storage.Recovery contract, e.g. cosmosdb):
// until Recovery() has been called its Search(Running) still lists the plans in stale (durably terminal)
// as Running. It records in which order Recovery / Search / Read / Update* were first used.
type indexVault struct {
	storage.Vault
	mu        sync.Mutex
	stale     []uuid.UUID
	recovered bool
	early     []string // calls made before Recovery()
	order     []string // first occurrence of each kind of call
	seen      map[string]bool
}

func (v *indexVault) used(what string) {
	v.mu.Lock()
	defer v.mu.Unlock()
	if !v.recovered && what != "Recovery" {
		v.early = append(v.early, what)
	}
	if !v.seen[what] {
		v.seen[what] = true
		v.order = append(v.order, what)
	}
}

// Recovery implements storage.Recovery.
func (v *indexVault) Recovery(ctx context.Context) error {
	v.used("Recovery")
	v.mu.Lock()
	v.recovered = true
	v.mu.Unlock()
	return nil
}

func (v *indexVault) Search(ctx context.Context, f storage.Filters) (chan storage.Stream[storage.ListResult], error) {
	v.used("Search")
	in, err := v.Vault.Search(ctx, f)
	if err != nil {
		return nil, err
	}
	want := false
	for _, s := range f.ByStatus {
		if s == workflow.Running {
			want = true
		}
	}
	v.mu.Lock()
	var stale []uuid.UUID
	if !v.recovered && want {
		stale = append(stale, v.stale...)
	}
	v.mu.Unlock()
	out := make(chan storage.Stream[storage.ListResult], 1)
	go func() {
		defer close(out)
		for r := range in {
			out <- r
		}
		for _, id := range stale {
			out <- storage.Stream[storage.ListResult]{Result: storage.ListResult{ID: id, State: &workflow.State{Status: workflow.Running}}}
		}
	}()
	return out, nil
}
func (v *indexVault) Read(ctx context.Context, id uuid.UUID) (*workflow.Plan, error) {
	v.used("Read")
	return v.Vault.Read(ctx, id)
}
func (v *indexVault) UpdatePlan(ctx context.Context, p *workflow.Plan) error {
	v.used("Update")
	return v.Vault.UpdatePlan(ctx, p)
}
func (v *indexVault) UpdateChecks(ctx context.Context, c *workflow.Checks) error {
	v.used("Update")
	return v.Vault.UpdateChecks(ctx, c)
}
func (v *indexVault) UpdateBlock(ctx context.Context, b *workflow.Block) error {
	v.used("Update")
	return v.Vault.UpdateBlock(ctx, b)
}
func (v *indexVault) UpdateSequence(ctx context.Context, q *workflow.Sequence) error {
	v.used("Update")
	return v.Vault.UpdateSequence(ctx, q)
}
func (v *indexVault) UpdateAction(ctx context.Context, a *workflow.Action) error {
	v.used("Update")
	return v.Vault.UpdateAction(ctx, a)
}

// ---------------------------------------------------------------- plugin log

type callLog struct {
	mu sync.Mutex
	n  map[string]int
}

func (l *callLog) behaviour() hplug.Behaviour {
	return func(ctx context.Context, p *hplug.Plugin, req any) (any, *plugins.Error) {
		nonce := "?"
		switch r := req.(type) {
		case hplug.Req:
			nonce = r.Nonce
		case hplug.AltReq:
			nonce = r.Nonce
		}
		l.mu.Lock()
		l.n[nonce]++
		l.mu.Unlock()
		return p.OKResp(req), nil
	}
}
func (l *callLog) get(nonce string) int {
	l.mu.Lock()
	defer l.mu.Unlock()
	return l.n[nonce]
}

// ---------------------------------------------------------------- case description

type maxAgeKind struct {
	Name string
	D    time.Duration
	Pass bool // pass WithMaxLastUpdate (false: rely on the default, 30 min)
}

var maxAges = []maxAgeKind{
	{"default30m", 30 * time.Minute, false},
	{"3s", 3 * time.Second, true},
	{"10s", 10 * time.Second, true},
	{"1h", time.Hour, true},
	{"0", 0, true},
	{"-1s", -time.Second, true},
}
var maxAgeW = []int{3, 4, 3, 2, 1, 1}

var wantKinds = []string{"NotStarted", "Completed", "Failed", "Stopped", "Running"}
var wantW = []int{2, 2, 1, 1, 6}

// age of the plan's most recent activity at crafting time, relative to maxAge
var ageKinds = []string{"live-200ms", "live-1s", "live-div10", "stale+200ms", "stale+1s", "stale-x10", "zero-times", "future-5s", "attempt-recent"}
var ageW = []int{3, 2, 2, 3, 2, 2, 1, 1, 1}

type planDesc struct {
	Want       string   `json:"want"`      // requested status family
	Status     string   `json:"status"`    // durable status of the plan in the store
	AgeKind    string   `json:"age_kind"`  // see ageKinds
	AgeNs      int64    `json:"age_ns"`    // crafting time - most recent activity (states only)
	Witness    string   `json:"witness"`   // which object/field carries the most recent activity
	Sprinkled  int      `json:"sprinkled"` // objects synthetically set Running
	Objects    int      `json:"objects"`
	RunningIn  []string `json:"running_in"` // kinds of objects durably Running before
	Budget     int      `json:"budget"`     // writes let through when the crash image was produced (-1 all)
	Writes     int      `json:"total_writes"`
	After      string   `json:"after_status"`
	Reason     string   `json:"after_reason"`
	RunAfter   int      `json:"running_after"` // objects still Running afterwards
	Calls      int      `json:"plugin_calls"`
	VWrites    int      `json:"vault_writes"`
	Wait       string   `json:"wait"` // returned | deadline | error
	SameDef    bool     `json:"same_definition"`
	FirstWrite int      `json:"first_row_written"` // -1 none; 0 = the plan row
}

type childResult struct {
	Cases []core.Case `json:"cases"`
	Slow  bool        `json:"slow"`
	Error string      `json:"error,omitempty"`
}

func fatal(format string, a ...any) {
	fmt.Fprintf(os.Stderr, "c11 child: "+format+"\n", a...)
	os.Exit(3)
}

// blank removes states and reason so that two renderings can be compared on everything else.
func blank(p *workflow.Plan) {
	for _, n := range nodesOf(p) {
		*n.st = workflow.State{}
	}
	p.Reason = workflow.FRUnknown
}

func setNonce(p *workflow.Plan, nonce string) {
	for _, n := range nodesOf(p) {
		if n.act == nil {
			continue
		}
		switch r := n.act.Req.(type) {
		case hplug.Req:
			r.Nonce = nonce
			n.act.Req = r
		case hplug.AltReq:
			r.Nonce = nonce
			n.act.Req = r
		}
	}
}

func shiftTimes(p *workflow.Plan, d time.Duration) {
	sh := func(t *time.Time) {
		if !t.IsZero() {
			*t = t.Add(d)
		}
	}
	for _, n := range nodesOf(p) {
		sh(&n.st.Start)
		sh(&n.st.End)
		if n.act != nil {
			for _, at := range n.act.Attempts {
				sh(&at.Start)
				sh(&at.End)
			}
		}
	}
	sh(&p.SubmitTime)
}

func stateTerm(st *workflow.State) string {
	return core.Some(core.App("Build_state", plancoq.Status(st.Status), plancoq.Time(st.Start), plancoq.Time(st.End)))
}

// ---------------------------------------------------------------- the child: one store

var bigShapes bool

func child(index int, resPath string) {
	ctx := context.Background()
	r := core.NewRand(core.Seed()).Fork(uint64(index))
	set := hplug.NewSet()
	calls := &callLog{n: map[string]int{}}
	set.Action.SetBehaviour(calls.behaviour())
	set.Check.SetBehaviour(calls.behaviour())
	set.Alt.SetBehaviour(calls.behaviour())

	// ---- configuration of the case
	nplans := index % 9
	if index >= 27 {
		nplans = r.Range(0, 8)
	}
	recovery := !r.Chance(0.2)
	mk := maxAges[r.Weighted(maxAgeW)]
	fileBacked := r.Chance(0.2)
	indexed := r.Chance(0.3) // the Vault implements storage.Recovery and has a search index that may be stale
	// family "crash during the close": one stale Running plan (plus up to two plans that are not Running);
	// for EVERY j an incarnation that dies after the j-th write of start-up recovery, then a normal one
	crashFamily := index%6 == 5
	if crashFamily {
		nplans = 1 + r.Intn(3)
		recovery, fileBacked, indexed = true, false, false
		mk = maxAges[[]int{0, 1, 2, 3}[r.Intn(4)]]
	}

	// ---- phase 1: produce durable images with the real engine on a scratch vault
	inner1, err := sqlite.New(ctx, "", set.Reg, sqlite.WithInMemory())
	if err != nil {
		fatal("sqlite.New: %v", err)
	}
	lim := &limitVault{Vault: inner1, owner: map[uuid.UUID]uuid.UUID{}, budget: map[uuid.UUID]int{}, count: map[uuid.UUID]int{}}
	ws1, err := coercion.New(ctx, set.Reg, lim)
	if err != nil {
		fatal("coercion.New (phase 1): %v", err)
	}
	run4 := func(seed *core.Rand, budget int, start bool) (uuid.UUID, int, string, int) {
		o := plangen.Opts{MaxBlocks: 2, MaxSeqs: 2, MaxActions: 2, MaxCheckActions: 2, GroupP: 0.3}
		if bigShapes && index%2 == 1 {
			o = plangen.Opts{MaxBlocks: 3, MaxSeqs: 3, MaxActions: 3, MaxCheckActions: 2, GroupP: 0.45}
		}
		if crashFamily {
			// every j of the close is run: keep the plan at about 6-18 objects
			o = plangen.Opts{MaxBlocks: 1, MaxSeqs: 2, MaxActions: 2, MaxCheckActions: 1, GroupP: 0.25}
			if bigShapes && index%4 == 1 {
				o = plangen.Opts{MaxBlocks: 2, MaxSeqs: 2, MaxActions: 2, MaxCheckActions: 2, GroupP: 0.3}
			}
		}
		g := plangen.New(seed, o)
		p := g.Plan()
		for _, k := range []*workflow.Checks{p.BypassChecks, p.PreChecks, p.ContChecks, p.PostChecks, p.DeferredChecks} {
			if k != nil && k.Delay > 5*time.Millisecond {
				k.Delay = 5 * time.Millisecond
			}
		}
		for _, b := range p.Blocks {
			for _, k := range []*workflow.Checks{b.BypassChecks, b.PreChecks, b.ContChecks, b.PostChecks, b.DeferredChecks} {
				if k != nil && k.Delay > 5*time.Millisecond {
					k.Delay = 5 * time.Millisecond
				}
			}
		}
		id, err := ws1.Submit(ctx, p)
		if err != nil {
			fatal("Submit: %v", err)
		}
		lim.mu.Lock()
		for _, n := range nodesOf(p) {
			lim.owner[n.id] = id
		}
		lim.budget[id] = budget
		lim.mu.Unlock()
		if start {
			if err := ws1.Start(ctx, id); err != nil {
				fatal("Start: %v", err)
			}
			wctx, cancel := context.WithTimeout(ctx, 8*time.Second)
			_, err := ws1.Wait(wctx, id)
			cancel()
			if err != nil {
				fatal("phase 1 run did not finish: %v", err)
			}
		}
		lim.mu.Lock()
		n := lim.count[id]
		lim.mu.Unlock()
		return id, n, g.Nonce, len(nodesOf(p))
	}
	run := func(seed *core.Rand, budget int, start bool) (uuid.UUID, int, string) {
		a, b, c, _ := run4(seed, budget, start)
		return a, b, c
	}

	type built struct {
		img   *workflow.Plan
		desc  planDesc
		nonce string
	}
	var plansB []built
	for j := 0; j < nplans; j++ {
		pr := r.Fork(uint64(1000 + j))
		want := wantKinds[pr.Weighted(wantW)]
		if crashFamily {
			want = "Running"
			if j > 0 {
				want = wantKinds[pr.Intn(4)]
			}
		}
		d := planDesc{Want: want, Budget: -1}
		base := pr.Fork(1) // Fork does not advance base: base.Fork(7) is the same generator every time
		var id uuid.UUID
		var nonce string
		switch want {
		case "NotStarted":
			id, _, nonce = run(base.Fork(7), -1, false)
		case "Running":
			var total int
			_, total, _, d.Objects = run4(base.Fork(7), -1, true) // twin run: counts the writes of a full run
			d.Writes = total
			// the last writes of a run are End's writeEverything (one per object, the plan row first):
			// a crash image is durably Running only before those
			k := 1
			if hi := total - d.Objects; hi > 1 && !pr.Chance(0.05) {
				k = pr.Range(1, hi)
			} else if total > 2 && pr.Chance(0.5) {
				k = pr.Range(1, total-1)
			}
			d.Budget = k
			id, _, nonce = run(base.Fork(7), k, true)
		default:
			id, d.Writes, nonce = run(base.Fork(7), -1, true)
		}
		img, err := inner1.Read(ctx, id)
		if err != nil {
			fatal("phase 1 Read: %v", err)
		}
		plansB = append(plansB, built{img: img, desc: d, nonce: "R" + nonce})
	}

	// ---- craft: statuses, ages, nonces
	tCraft := time.Now()
	for j := range plansB {
		b := &plansB[j]
		pr := r.Fork(uint64(2000 + j))
		p := b.img
		setNonce(p, b.nonce)
		ns := nodesOf(p)
		b.desc.Objects = len(ns)
		switch b.desc.Want {
		case "Failed", "Stopped":
			if b.desc.Want == "Failed" {
				p.State.Status = workflow.Failed
				p.Reason = []workflow.FailureReason{workflow.FRPreCheck, workflow.FRBlock, workflow.FRPostCheck, workflow.FRContCheck, workflow.FRDeferredCheck, workflow.FRExceedRecovery}[pr.Intn(6)]
			} else {
				p.State.Status = workflow.Stopped
				p.Reason = workflow.FRStopped
			}
			n := ns[pr.Intn(len(ns))]
			n.st.Status = p.State.Status
		}
		running := p.State.Status == workflow.Running
		ak := ageKinds[pr.Weighted(ageW)]
		if crashFamily && running {
			ak = "stale-x10"
		}
		b.desc.AgeKind = ak
		var age time.Duration
		switch ak {
		case "live-200ms":
			age = mk.D - 200*time.Millisecond
		case "live-1s":
			age = mk.D - time.Second
		case "live-div10":
			age = mk.D / 10
		case "stale+200ms":
			age = mk.D + 200*time.Millisecond
		case "stale+1s":
			age = mk.D + time.Second
		case "stale-x10", "attempt-recent":
			age = mk.D*10 + time.Hour
		case "future-5s":
			age = -5 * time.Second
		}
		// objects synthetically set Running: in plans that will not be resumed by a correct implementation
		// (not Running, or clearly stale), so that every kind of object is met in that state
		staleKind := strings.HasPrefix(ak, "stale") || ak == "zero-times"
		if (!running || staleKind) && pr.Chance(0.5) {
			k := pr.Range(1, 3)
			for i := 0; i < k; i++ {
				n := ns[1+pr.Intn(len(ns)-1)]
				if n.st.Status != workflow.Running {
					n.st.Status = workflow.Running
					if n.st.Start.IsZero() {
						n.st.Start = tCraft
					}
					n.st.End = time.Time{}
					b.desc.Sprinkled++
				}
			}
		}
		if ak == "zero-times" {
			for _, n := range ns {
				n.st.Start, n.st.End = time.Time{}, time.Time{}
				if n.act != nil {
					for _, at := range n.act.Attempts {
						at.Start, at.End = time.Time{}, time.Time{}
					}
				}
			}
			b.desc.Witness = "none"
		} else if l := latest(p); !l.IsZero() {
			target := tCraft.Add(-age)
			if ak != "attempt-recent" && pr.Chance(0.5) {
				// plain shift: the natural latest time becomes the target
				shiftTimes(p, target.Sub(l))
				b.desc.Witness = "natural"
			} else {
				// everything far older, one random recorded time lifted to the target
				shiftTimes(p, target.Sub(l)-(10*absDur(mk.D)+2*time.Hour))
				var fields []*time.Time
				var names []string
				for _, n := range ns {
					if !n.st.Start.IsZero() {
						fields = append(fields, &n.st.Start)
						names = append(names, n.kind+".Start")
					}
					if !n.st.End.IsZero() {
						fields = append(fields, &n.st.End)
						names = append(names, n.kind+".End")
					}
				}
				attFields := func() (fs []*time.Time, nm []string) {
					for _, n := range ns {
						if n.act == nil {
							continue
						}
						for _, at := range n.act.Attempts {
							if !at.Start.IsZero() {
								fs = append(fs, &at.Start)
								nm = append(nm, "attempt.Start")
							}
							if !at.End.IsZero() {
								fs = append(fs, &at.End)
								nm = append(nm, "attempt.End")
							}
						}
					}
					return
				}
				af, an := attFields()
				if ak == "attempt-recent" {
					// the only recent record is the start or end of an attempt (an action being retried):
					// every State is far older than maxAge, the attempt is 1 ms old
					target = tCraft.Add(-time.Millisecond)
					if len(af) == 0 {
						var acts []*workflow.Action
						for _, n := range ns {
							if n.act != nil && n.st.Status == workflow.Running {
								acts = append(acts, n.act)
							}
						}
						if len(acts) > 0 {
							a := acts[pr.Intn(len(acts))]
							old := a.State.Start
							a.Attempts = append(a.Attempts, &workflow.Attempt{Err: &plugins.Error{Code: 1, Message: "transient"}, Start: old, End: old.Add(time.Millisecond)})
							af, an = attFields()
						}
					}
					if len(af) > 0 {
						fields, names = af, an
					}
				} else {
					fields, names = append(fields, af...), append(names, an...)
				}
				w := pr.Intn(len(fields))
				if pr.Chance(0.5) {
					// prefer an End field when there is one (Start fields are far more numerous in Running images)
					var ends []int
					for i, n := range names {
						if strings.HasSuffix(n, ".End") {
							ends = append(ends, i)
						}
					}
					if len(ends) > 0 {
						w = ends[pr.Intn(len(ends))]
					}
				}
				*fields[w] = target
				b.desc.Witness = names[w]
			}
		} else {
			b.desc.Witness = "none"
		}
		if l := latest(p); !l.IsZero() {
			b.desc.AgeNs = int64(tCraft.Sub(l))
		}
		b.desc.Status = plancoq.Status(p.State.Status)
		for _, n := range ns {
			if n.st.Status == workflow.Running {
				b.desc.RunningIn = append(b.desc.RunningIn, n.kind)
			}
		}
	}

	anySlow := false
	// ---- phase 2: the store under test (crashJ > 0: a first incarnation dies after crashJ writes)
	runStore := func(crashJ int) core.Case {
		nonceOf := func(b built) string {
			if crashJ > 0 {
				return fmt.Sprintf("J%d-%s", crashJ, b.nonce)
			}
			return b.nonce
		}
		for _, b := range plansB {
			setNonce(b.img, nonceOf(b))
		}
		root := ""
		var opts2 []sqlite.Option
		if fileBacked {
			root, err = os.MkdirTemp("", "c11-")
			if err != nil {
				fatal("MkdirTemp: %v", err)
			}
			defer os.RemoveAll(root)
		} else {
			opts2 = append(opts2, sqlite.WithInMemory())
		}
		inner2, err := sqlite.New(ctx, root, set.Reg, opts2...)
		if err != nil {
			fatal("sqlite.New (phase 2): %v", err)
		}
		for _, b := range plansB {
			if err := inner2.Create(ctx, b.img); err != nil {
				fatal("Create: %v", err)
			}
		}
		if fileBacked {
			// a real restart of the store: close it and open the file again
			if err := inner2.Close(ctx); err != nil {
				fatal("Close: %v", err)
			}
			inner2, err = sqlite.New(ctx, root, set.Reg)
			if err != nil {
				fatal("sqlite.New (reopen): %v", err)
			}
		}
		cx := plancoq.NewCtx(set.Lookup)
		lv := &logVault{Vault: inner2, owner: map[uuid.UUID]int{}, writes: map[int]int{}, row: map[uuid.UUID]int{}, size: map[int]int{}, order: map[int][]int{}}
		var beforeTerms, beforeSkel []string
		for j, b := range plansB {
			before, err := inner2.Read(ctx, b.img.ID)
			if err != nil {
				fatal("Read before: %v", err)
			}
			for k, n := range nodesOf(before) {
				lv.owner[n.id] = j
				lv.row[n.id] = k
				lv.size[j]++
			}
			beforeTerms = append(beforeTerms, cx.Plan(before))
			blank(before)
			beforeSkel = append(beforeSkel, cx.Plan(before))
		}

		var opts []coercion.Option
		if mk.Pass {
			opts = append(opts, coercion.WithMaxLastUpdate(mk.D))
		}
		if !recovery {
			opts = append(opts, coercion.WithNoRecovery())
		}
		optOrder := "age,norecovery"
		if len(opts) == 2 && r.Chance(0.5) {
			opts[0], opts[1] = opts[1], opts[0]
			optOrder = "norecovery,age"
		}
		var top storage.Vault = lv
		var iv *indexVault
		var staleIx []string
		staleDesc := []int{}
		if indexed {
			iv = &indexVault{Vault: lv, seen: map[string]bool{}}
			// one durably terminal plan of the store (two now and then) is still listed as Running by the index
			var term []int
			for j, b := range plansB {
				switch b.img.State.Status {
				case workflow.Completed, workflow.Failed, workflow.Stopped:
					term = append(term, j)
				}
			}
			for k := 0; k < 2 && len(term) > 0; k++ {
				if k == 1 && !r.Chance(0.25) {
					break
				}
				w := r.Intn(len(term))
				j := term[w]
				term = append(term[:w], term[w+1:]...)
				iv.stale = append(iv.stale, plansB[j].img.ID)
				staleIx = append(staleIx, core.N(cx.UidIx(plansB[j].img.ID)))
				staleDesc = append(staleDesc, j)
			}
			top = iv
		}
		t0 := time.Now()
		t1 := t0
		if crashJ > 0 {
			// incarnation 1: every Update* after the crashJ-th is lost (the process died just before it)
			lim1 := &limitVault{Vault: inner2, owner: map[uuid.UUID]uuid.UUID{}, budget: map[uuid.UUID]int{}, count: map[uuid.UUID]int{}}
			for id := range lv.owner {
				lim1.owner[id] = uuid.Nil // one budget for the whole store
			}
			lim1.budget[uuid.Nil] = crashJ
			if _, err := coercion.New(ctx, set.Reg, lim1, opts...); err != nil {
				fatal("coercion.New (incarnation 1): %v", err)
			}
			t1 = time.Now()
			time.Sleep(2 * time.Millisecond)
		}
		// family "context already done": coercion.New is handed a context that was cancelled before the call,
		// or whose deadline has passed. Expected: an error, or a complete recovery - never a Workstream (nil
		// error) whose Running plans were left alone.
		ctxKind, ctxName := 0, "live"
		nctx := ctx
		if crashJ == 0 && r.Chance(0.15) {
			if r.Chance(0.5) {
				c, cancel := context.WithCancel(ctx)
				cancel()
				nctx, ctxKind, ctxName = c, 1, "cancelled"
			} else {
				c, cancel := context.WithDeadline(ctx, time.Now().Add(-time.Second))
				defer cancel()
				nctx, ctxKind, ctxName = c, 2, "expired"
			}
		}
		t2 := time.Now()
		ws2, err := coercion.New(nctx, set.Reg, top, opts...)
		t3 := time.Now()
		if crashJ == 0 {
			t0, t1 = t2, t3
		}
		newErr := err != nil
		newErrText := ""
		if newErr {
			newErrText = err.Error()
			if len(newErrText) > 300 {
				newErrText = newErrText[:300]
			}
		}
		slow := !crashFamily && t1.Sub(tCraft) > 150*time.Millisecond

		// wait for whatever was resumed (Wait returns at once for an id without a waiter)
		deadline := time.Now().Add(4 * time.Second)
		waits := make([]string, len(plansB))
		for j, b := range plansB {
			if newErr || ws2 == nil {
				waits[j] = "no-workstream"
				continue
			}
			wctx, cancel := context.WithDeadline(ctx, deadline)
			_, err := ws2.Wait(wctx, b.img.ID)
			cancel()
			switch {
			case err == nil:
				waits[j] = "returned"
			case err == context.Canceled || err == context.DeadlineExceeded:
				waits[j] = "deadline"
			default:
				waits[j] = "error"
			}
		}
		time.Sleep(30 * time.Millisecond)

		// ---- observe
		var obsTerms []string
		var descs []planDesc
		hashParts := []string{fmt.Sprint(recovery), mk.Name}
		nontrivial := false
		for j, b := range plansB {
			after, err := inner2.Read(ctx, b.img.ID)
			if err != nil {
				fatal("Read after: %v", err)
			}
			d := b.desc
			var sts []string
			for _, n := range nodesOf(after) {
				sts = append(sts, stateTerm(n.st))
				if n.st.Status == workflow.Running {
					d.RunAfter++
				}
			}
			d.After = plancoq.Status(after.State.Status)
			d.Reason = plancoq.Reason(after.Reason)
			d.Calls = calls.get(nonceOf(b))
			lv.mu.Lock()
			d.VWrites = lv.writes[j]
			var ord []string
			for _, k := range lv.order[j] {
				ord = append(ord, core.Nat(k))
			}
			d.FirstWrite = -1
			if len(lv.order[j]) > 0 {
				d.FirstWrite = lv.order[j][0]
			}
			lv.mu.Unlock()
			d.Wait = waits[j]
			reason := plancoq.Reason(after.Reason)
			blank(after)
			d.SameDef = cx.Plan(after) == beforeSkel[j]
			obsTerms = append(obsTerms, core.App("Build_pobs", core.B(d.SameDef), reason, core.List(sts), core.Nat(d.Calls), core.Nat(d.VWrites), core.List(ord)))
			descs = append(descs, d)
			hashParts = append(hashParts, d.Status, d.AgeKind, d.Witness, fmt.Sprint(d.Objects), strings.Join(d.RunningIn, ","), d.After, d.Reason)
			if d.Status == "Running" {
				nontrivial = true
			}
		}
		vaultKind := 0
		var callOrder, early []string
		if iv != nil {
			iv.mu.Lock()
			callOrder = append(callOrder, iv.order...)
			early = append(early, iv.early...)
			vaultKind = 1
			if !iv.recovered || len(iv.early) > 0 {
				vaultKind = 2
			}
			iv.mu.Unlock()
		}
		hashParts = append(hashParts, fmt.Sprint(vaultKind, staleDesc, crashJ, ctxKind, newErr))
		// the case term is  (Build_case maxage recovery store stale [run; ..]): the store is written once per
		// store (head), every run of the store adds one run term
		head := core.Sprintf("Build_case %s %s %s %s", core.Z(int64(mk.D)), core.B(recovery), core.List(beforeTerms), core.List(staleIx))
		term := core.App("Build_run", plancoq.Time(t0), plancoq.Time(t1), core.List(obsTerms), core.Nat(vaultKind),
			core.Nat(crashJ), plancoq.Time(t2), plancoq.Time(t3), core.Nat(ctxKind), core.B(newErr))
		statuses := []string{}
		for _, d := range descs {
			statuses = append(statuses, d.Status)
		}
		sort.Strings(statuses)
		lv.mu.Lock()
		stray := lv.stray
		lv.mu.Unlock()
		if slow {
			anySlow = true
		}
		id, kind := fmt.Sprintf("store-%d", index), "store"
		if crashJ > 0 {
			id, kind = fmt.Sprintf("store-%d-crash-%d", index, crashJ), "crash-during-close"
		}
		return core.Case{
			ID:         id,
			Kind:       kind,
			Coq:        term,
			Nontrivial: nontrivial,
			Hash:       core.Hash(hashParts...),
			Dist:       map[string]any{"plans": len(plansB), "recovery": recovery, "max_age": mk.Name, "file_backed": fileBacked, "statuses": statuses, "new_ms": t1.Sub(t0).Milliseconds(), "slack_ms": t1.Sub(tCraft).Milliseconds(), "stray_writes": stray, "option_order": optOrder, "indexed_vault": indexed, "stale_index_plans": staleDesc, "vault_call_order": callOrder, "calls_before_recovery": early, "crash_after_write": crashJ, "context": ctxName, "new_returned_error": newErr, "new_error": newErrText, "group": index, "case_head": head},
			Input:      map[string]any{"seed": core.Seed(), "index": index, "max_age_ns": int64(mk.D), "max_age_option_passed": mk.Pass, "recovery": recovery, "file_backed": fileBacked, "crash_after_write": crashJ},
			Observed:   descs,
		}
	} // runStore

	var res childResult
	if !crashFamily {
		res.Cases = append(res.Cases, runStore(0))
	} else {
		n := 1
		if len(plansB) > 0 && plansB[0].img.State.Status == workflow.Running {
			n = len(nodesOf(plansB[0].img))
		}
		for j := 1; j <= n; j++ {
			res.Cases = append(res.Cases, runStore(j))
		}
	}
	res.Slow = anySlow
	b, _ := json.Marshal(res)
	if err := os.WriteFile(resPath, b, 0o644); err != nil {
		fatal("write result: %v", err)
	}
}

func absDur(d time.Duration) time.Duration {
	if d < 0 {
		return -d
	}
	return d
}

// ---------------------------------------------------------------- the real cosmosdb.Vault and storage.Recovery

// cosmosProbe looks at the REAL *cosmosdb.Vault (over the package's fake client, build tag verif):
//
//	(a) does it still implement storage.Recovery?  coercion.New only repairs the search entries of a Vault
//	    for which `store.(storage.Recovery)` holds, and nothing asserts that at compile time;
//	(b) the state the repair exists for - plan item terminal, search entry still Running - is crafted (the
//	    search-partition write of UpdatePlan is made to fail), then Recovery() is called and the search entry
//	    is looked at again.  How far (b) gets depends on the fake: see the "stopped_at" field.
func cosmosProbe() (out map[string]any) {
	out = map[string]any{}
	ctx := context.Background()
	set := hplug.NewSet()
	v, ctl := cosmosdb.NewFakeVaultOpts(set.Reg, "swarm", 0)
	rec, ok := any(v).(storage.Recovery)
	out["vault_type"] = fmt.Sprintf("%T", v)
	out["implements_recovery"] = ok

	// (c) candidate R9: the FIRST UpdatePlan of a run (sm.Start: NotStarted -> Running) torn between the patch
	// of the plan item and the replace of the search entry (the search-partition write is refused, which is
	// also what a crash between the two writes leaves): item Running, entry still NotStarted.
	func() {
		defer func() {
			if r := recover(); r != nil {
				out["torn_first_write_panic"] = fmt.Sprint(r)
			}
		}()
		ctx := context.Background()
		v2, ctl2 := cosmosdb.NewFakeVaultOpts(set.Reg, "swarm", 0)
		nid := func() uuid.UUID { u, _ := uuid.NewV7(); return u }
		ns := func() *workflow.State { return &workflow.State{Status: workflow.NotStarted} }
		a := &workflow.Action{ID: nid(), Name: "a", Descr: "d", Plugin: hplug.ActionName, Req: hplug.Req{Nonce: "r9"}, State: ns()}
		q := &workflow.Sequence{ID: nid(), Name: "s", Descr: "d", Actions: []*workflow.Action{a}, State: ns()}
		b := &workflow.Block{ID: nid(), Name: "b", Descr: "d", Sequences: []*workflow.Sequence{q}, State: ns(), Concurrency: 1}
		p := &workflow.Plan{ID: nid(), Name: "p", Descr: "d", Blocks: []*workflow.Block{b}, State: ns(), SubmitTime: time.Now()}
		if err := v2.Create(ctx, p); err != nil {
			out["torn_first_write"] = "create failed: " + err.Error()
			return
		}
		p.State.Status = workflow.Running
		p.State.Start = time.Now()
		ctl2.SetPoisonSearchPartition(true)
		ctl2.SetReplaceItemErr(true)
		uerr := v2.UpdatePlan(ctx, p)
		ctl2.SetReplaceItemErr(false)
		ctl2.SetPoisonSearchPartition(false)
		rp, err := v2.Read(ctx, p.ID)
		if err != nil {
			out["torn_first_write"] = "read failed: " + err.Error()
			return
		}
		entry := -1
		if raw, err := ctl2.SearchItemRaw(ctx, p.ID.String()); err == nil {
			var e struct {
				StateStatus int `json:"stateStatus"`
			}
			if json.Unmarshal(raw, &e) == nil {
				entry = e.StateStatus
			}
		}
		out["torn_first_write"] = map[string]any{
			"update_plan_returned_error": uerr != nil,
			"plan_item_status":           plancoq.Status(rp.State.Status),
			"search_entry_status":        entry,
			"search_entry_is_notstarted": entry == int(workflow.NotStarted),
			"torn":                       rp.State.Status == workflow.Running && entry == int(workflow.NotStarted),
		}
	}()

	step := "craft"
	defer func() {
		if r := recover(); r != nil {
			out["stopped_at"] = step
			out["panic"] = fmt.Sprint(r)
		}
	}()
	newID := func() uuid.UUID { u, _ := uuid.NewV7(); return u }
	st := func(s workflow.Status) *workflow.State {
		return &workflow.State{Status: s, Start: time.Now().Add(-time.Minute)}
	}
	a := &workflow.Action{ID: newID(), Name: "a", Descr: "d", Plugin: hplug.ActionName, Req: hplug.Req{Nonce: "probe"}, State: st(workflow.Running)}
	q := &workflow.Sequence{ID: newID(), Name: "s", Descr: "d", Actions: []*workflow.Action{a}, State: st(workflow.Running)}
	b := &workflow.Block{ID: newID(), Name: "b", Descr: "d", Sequences: []*workflow.Sequence{q}, State: st(workflow.Running), Concurrency: 1}
	p := &workflow.Plan{ID: newID(), Name: "p", Descr: "d", Blocks: []*workflow.Block{b}, State: st(workflow.Running), SubmitTime: time.Now().Add(-time.Hour)}
	if err := v.Create(ctx, p); err != nil {
		out["stopped_at"] = "craft: Create: " + err.Error()
		return out
	}
	searchStatus := func() int {
		raw, err := ctl.SearchItemRaw(ctx, p.ID.String())
		if err != nil {
			return -1
		}
		var e struct {
			StateStatus int `json:"stateStatus"`
		}
		if json.Unmarshal(raw, &e) != nil {
			return -1
		}
		return e.StateStatus
	}
	// the plan finishes; the process dies between the plan item's patch and the search entry's replace
	for _, x := range nodesOf(p) {
		x.st.Status = workflow.Completed
		x.st.End = time.Now()
	}
	ctl.SetPoisonSearchPartition(true)
	ctl.SetReplaceItemErr(true)
	uerr := v.UpdatePlan(ctx, p)
	ctl.SetReplaceItemErr(false)
	ctl.SetPoisonSearchPartition(false)
	out["update_with_failing_search_write_error"] = uerr != nil
	rp, err := v.Read(ctx, p.ID)
	if err != nil {
		out["stopped_at"] = "craft: Read: " + err.Error()
		return out
	}
	out["plan_item_status"] = plancoq.Status(rp.State.Status)
	out["search_entry_status_before_recovery"] = searchStatus()
	stale := rp.State.Status == workflow.Completed && searchStatus() == int(workflow.Running)
	out["stale_search_entry_crafted"] = stale
	if !stale {
		out["stopped_at"] = "craft: the fake did not leave the search entry behind"
		return out
	}
	step = "search"
	n, listed := 0, false
	if ch, err := v.Search(ctx, storage.Filters{ByStatus: []workflow.Status{workflow.Running}}); err == nil {
		for r := range ch {
			n++
			if r.Err == nil && r.Result.ID == p.ID {
				listed = true
			}
		}
	}
	out["search_running_results"] = n
	out["search_running_lists_the_finished_plan"] = listed
	if !ok {
		out["stopped_at"] = "the Vault does not implement storage.Recovery: nothing to call"
		return out
	}
	step = "Recovery() (a panic here: the fake Vault of verif_hooks.go does not wire the unexported recovery{reader, updater} field)"
	rerr := rec.Recovery(ctx)
	out["recovery_error"] = fmt.Sprint(rerr)
	after := searchStatus()
	out["search_entry_status_after_recovery"] = after
	out["search_entry_repaired"] = after == int(rp.State.Status)
	if !listed {
		out["stopped_at"] = "Recovery() ran, but the fake answers a status-only Search with an empty result, so Recovery() had no entry to repair"
		return out
	}
	out["stopped_at"] = "complete"
	return out
}

// ---------------------------------------------------------------- the parent: one child per store

func main() {
	n := flag.Int("n", 60, "number of stores")
	out := flag.String("out", "-", "output file (JSONL)")
	childIx := flag.Int("child", -1, "(internal) run store <index> and write the result to -res")
	resPath := flag.String("res", "", "(internal) result file of the child")
	workers := flag.Int("workers", 6, "children run in parallel")
	only := flag.Int("only", -1, "run only this store index (replay)")
	flag.BoolVar(&bigShapes, "big", false, "every second store uses larger plan shapes (thorough tier)")
	flag.Parse()

	if *childIx >= 0 {
		child(*childIx, *resPath)
		return
	}
	w, err := core.NewWriter(*out)
	if err != nil {
		fmt.Fprintln(os.Stderr, err)
		os.Exit(2)
	}
	defer w.Close()
	self, _ := os.Executable()
	tmp, err := os.MkdirTemp("", "c11-res-")
	if err != nil {
		fmt.Fprintln(os.Stderr, err)
		os.Exit(2)
	}
	defer os.RemoveAll(tmp)

	results := make([][]core.Case, *n)
	var wg sync.WaitGroup
	sem := make(chan struct{}, *workers)
	for i := 0; i < *n; i++ {
		if *only >= 0 && i != *only {
			continue
		}
		wg.Add(1)
		sem <- struct{}{}
		go func(i int) {
			defer wg.Done()
			defer func() { <-sem }()
			results[i] = runChild(self, tmp, i)
		}(i)
	}
	wg.Wait()
	if *only < 0 {
		w.Put(core.Case{ID: "cosmos-recovery-probe", Kind: "cosmos-recovery-probe", Observed: cosmosProbe(), Note: "probe"})
	}
	for i := 0; i < *n; i++ {
		if *only >= 0 && i != *only {
			continue
		}
		for _, c := range results[i] {
			w.Put(c)
		}
	}
}

func runChild(self, tmp string, i int) []core.Case {
	var last []core.Case
	for attempt := 0; attempt < 4; attempt++ {
		res := fmt.Sprintf("%s/res-%d-%d.json", tmp, i, attempt)
		args := []string{"-child", fmt.Sprint(i), "-res", res}
		if bigShapes {
			args = append(args, "-big")
		}
		cmd := exec.Command(self, args...)
		cmd.Env = os.Environ()
		var errb strings.Builder
		cmd.Stdout = &errb
		cmd.Stderr = &errb
		if err := cmd.Start(); err != nil {
			return []core.Case{{ID: fmt.Sprintf("store-%d", i), Kind: "store", Note: "spawn: " + err.Error()}}
		}
		done := make(chan error, 1)
		go func() { done <- cmd.Wait() }()
		var werr error
		timedOut := false
		select {
		case werr = <-done:
		case <-time.After(40 * time.Second):
			cmd.Process.Kill()
			<-done
			timedOut = true
		}
		b, rerr := os.ReadFile(res)
		if rerr != nil {
			tail := errb.String()
			if len(tail) > 3000 {
				tail = tail[len(tail)-3000:]
			}
			note := "crash: "
			if timedOut {
				note = "timeout: "
			}
			last = []core.Case{{ID: fmt.Sprintf("store-%d", i), Kind: "store", Note: note + fmt.Sprint(werr) + "\n" + tail,
				Input: map[string]any{"seed": core.Seed(), "index": i}}}
			continue // a fresh child: crashes of resumed runs are not C11's matter, but we want the observation
		}
		var cr childResult
		if err := json.Unmarshal(b, &cr); err != nil {
			last = []core.Case{{ID: fmt.Sprintf("store-%d", i), Kind: "store", Note: "bad result: " + err.Error()}}
			continue
		}
		last = cr.Cases
		for k := range last {
			if last[k].Dist == nil {
				last[k].Dist = map[string]any{}
			}
			last[k].Dist["attempts"] = attempt + 1
		}
		if !cr.Slow {
			return last
		}
		for k := range last {
			last[k].Note = "slow"
		}
	}
	return last
}
