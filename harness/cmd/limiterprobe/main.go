// limiterprobe extracts, with go/parser + go/ast, the normalised statement shape of the functions that the
// detailed mechanism models (coq/limiter/Limiter.v, ContChan.v) transcribe, from
// $VERIF_REPO/internal/execute/sm/sm.go (default /repo), and prints it as JSON and as a Coq term
// (`list (string * list string)`: function name, one token per simple statement / control header / brace,
// in source order).  coq/limiter/SourceShape.v declares the list the models assume; lib/props/mech.py
// proves `observed = assumed` inside Coq on every run.
//
// Normalisation: comments and layout are dropped; string literals become STR (so messages may change);
// everything else is kept, so a moved, added or removed statement changes the list.
// Fail-closed: syntax the printer does not know is emitted as UNKNOWN:<node type>, which never equals the
// assumed list.
package main

import (
	"encoding/json"
	"flag"
	"fmt"
	"go/ast"
	"go/parser"
	"go/token"
	"os"
	"path/filepath"
	"strings"
)

type tok struct {
	T    string `json:"t"`
	Line int    `json:"line"`
}

type fn struct {
	Name   string `json:"name"`
	File   string `json:"file"`
	Tokens []tok  `json:"tokens"`
}

type printer struct {
	fset    *token.FileSet
	out     []tok
	pending []*ast.FuncLit
}

func (p *printer) line(n ast.Node) int { return p.fset.Position(n.Pos()).Line }

func (p *printer) emit(t string, n ast.Node) {
	l := 0
	if n != nil {
		l = p.line(n)
	}
	p.out = append(p.out, tok{T: strings.Join(strings.Fields(t), " "), Line: l})
}

// flush emits the bodies of the function literals met while printing the last statement.
func (p *printer) flush(at ast.Node) {
	lits := p.pending
	p.pending = nil
	for k, lit := range lits {
		p.emit(fmt.Sprintf("func#%d%s", k, p.signature(lit.Type)), lit)
		p.block(lit.Body)
	}
}

func (p *printer) signature(t *ast.FuncType) string {
	return "(" + p.fields(t.Params) + ")" + p.results(t.Results)
}

func (p *printer) results(fl *ast.FieldList) string {
	if fl == nil || len(fl.List) == 0 {
		return ""
	}
	return " (" + p.fields(fl) + ")"
}

func (p *printer) fields(fl *ast.FieldList) string {
	if fl == nil {
		return ""
	}
	var parts []string
	for _, f := range fl.List {
		var names []string
		for _, n := range f.Names {
			names = append(names, n.Name)
		}
		s := strings.Join(names, ", ")
		if s != "" {
			s += " "
		}
		parts = append(parts, s+p.expr(f.Type))
	}
	return strings.Join(parts, ", ")
}

func (p *printer) exprs(l []ast.Expr) string {
	var parts []string
	for _, e := range l {
		parts = append(parts, p.expr(e))
	}
	return strings.Join(parts, ", ")
}

func (p *printer) expr(e ast.Expr) string {
	switch e := e.(type) {
	case nil:
		return ""
	case *ast.Ident:
		return e.Name
	case *ast.BasicLit:
		if e.Kind == token.STRING {
			return "STR"
		}
		if e.Kind == token.CHAR {
			return "CHR"
		}
		return e.Value
	case *ast.SelectorExpr:
		return p.expr(e.X) + "." + e.Sel.Name
	case *ast.CallExpr:
		s := p.expr(e.Fun) + "(" + p.exprs(e.Args)
		if e.Ellipsis.IsValid() {
			s += "..."
		}
		return s + ")"
	case *ast.UnaryExpr:
		return e.Op.String() + p.expr(e.X)
	case *ast.BinaryExpr:
		return p.expr(e.X) + " " + e.Op.String() + " " + p.expr(e.Y)
	case *ast.ParenExpr:
		return "(" + p.expr(e.X) + ")"
	case *ast.IndexExpr:
		return p.expr(e.X) + "[" + p.expr(e.Index) + "]"
	case *ast.IndexListExpr:
		return p.expr(e.X) + "[" + p.exprs(e.Indices) + "]"
	case *ast.SliceExpr:
		s := p.expr(e.X) + "[" + p.expr(e.Low) + ":" + p.expr(e.High)
		if e.Slice3 {
			s += ":" + p.expr(e.Max)
		}
		return s + "]"
	case *ast.StarExpr:
		return "*" + p.expr(e.X)
	case *ast.TypeAssertExpr:
		if e.Type == nil {
			return p.expr(e.X) + ".(type)"
		}
		return p.expr(e.X) + ".(" + p.expr(e.Type) + ")"
	case *ast.KeyValueExpr:
		return p.expr(e.Key) + ": " + p.expr(e.Value)
	case *ast.CompositeLit:
		return p.expr(e.Type) + "{" + p.exprs(e.Elts) + "}"
	case *ast.FuncLit:
		p.pending = append(p.pending, e)
		return fmt.Sprintf("func#%d", len(p.pending)-1)
	case *ast.ArrayType:
		return "[" + p.expr(e.Len) + "]" + p.expr(e.Elt)
	case *ast.MapType:
		return "map[" + p.expr(e.Key) + "]" + p.expr(e.Value)
	case *ast.ChanType:
		switch e.Dir {
		case ast.SEND:
			return "chan<- " + p.expr(e.Value)
		case ast.RECV:
			return "<-chan " + p.expr(e.Value)
		}
		return "chan " + p.expr(e.Value)
	case *ast.StructType:
		if e.Fields == nil || len(e.Fields.List) == 0 {
			return "struct{}"
		}
		return "struct{" + p.fields(e.Fields) + "}"
	case *ast.FuncType:
		return "func" + p.signature(e)
	case *ast.Ellipsis:
		return "..." + p.expr(e.Elt)
	case *ast.InterfaceType:
		if e.Methods == nil || len(e.Methods.List) == 0 {
			return "interface{}"
		}
	}
	return fmt.Sprintf("UNKNOWN:%T", e)
}

// simple renders a simple statement (init / post / comm position) without emitting it.
func (p *printer) simple(s ast.Stmt) string {
	switch s := s.(type) {
	case nil:
		return ""
	case *ast.ExprStmt:
		return p.expr(s.X)
	case *ast.AssignStmt:
		return p.exprs(s.Lhs) + " " + s.Tok.String() + " " + p.exprs(s.Rhs)
	case *ast.IncDecStmt:
		return p.expr(s.X) + s.Tok.String()
	case *ast.SendStmt:
		return p.expr(s.Chan) + " <- " + p.expr(s.Value)
	case *ast.EmptyStmt:
		return ""
	}
	return fmt.Sprintf("UNKNOWN:%T", s)
}

func (p *printer) block(b *ast.BlockStmt) {
	p.emit("{", b)
	if b != nil {
		for _, s := range b.List {
			p.stmt(s)
		}
	}
	p.emit("}", nil)
}

func (p *printer) stmt(s ast.Stmt) {
	switch s := s.(type) {
	case *ast.ExprStmt, *ast.AssignStmt, *ast.IncDecStmt, *ast.SendStmt:
		p.emit(p.simple(s), s)
		p.flush(s)
	case *ast.EmptyStmt:
	case *ast.DeclStmt:
		gd, ok := s.Decl.(*ast.GenDecl)
		if !ok || (gd.Tok != token.VAR && gd.Tok != token.CONST) {
			p.emit("UNKNOWN:DeclStmt", s)
			return
		}
		for _, sp := range gd.Specs {
			vs, ok := sp.(*ast.ValueSpec)
			if !ok {
				p.emit("UNKNOWN:Spec", s)
				continue
			}
			var names []string
			for _, n := range vs.Names {
				names = append(names, n.Name)
			}
			t := gd.Tok.String() + " " + strings.Join(names, ", ")
			if vs.Type != nil {
				t += " " + p.expr(vs.Type)
			}
			if len(vs.Values) > 0 {
				t += " = " + p.exprs(vs.Values)
			}
			p.emit(t, s)
			p.flush(s)
		}
	case *ast.ReturnStmt:
		p.emit(strings.TrimSpace("return "+p.exprs(s.Results)), s)
		p.flush(s)
	case *ast.BranchStmt:
		if s.Label != nil {
			p.emit("UNKNOWN:labelled "+s.Tok.String(), s)
			return
		}
		p.emit(s.Tok.String(), s)
	case *ast.DeferStmt:
		p.emit("defer "+p.expr(s.Call), s)
		p.flush(s)
	case *ast.GoStmt:
		p.emit("go "+p.expr(s.Call), s)
		p.flush(s)
	case *ast.BlockStmt:
		p.block(s)
	case *ast.IfStmt:
		p.ifStmt(s, "if ")
	case *ast.ForStmt:
		h := "for"
		if s.Init != nil || s.Post != nil {
			h += " " + p.simple(s.Init) + "; " + p.expr(s.Cond) + "; " + p.simple(s.Post)
		} else if s.Cond != nil {
			h += " " + p.expr(s.Cond)
		}
		p.emit(h, s)
		p.flush(s)
		p.block(s.Body)
	case *ast.RangeStmt:
		h := "for "
		if s.Key != nil {
			h += p.expr(s.Key)
			if s.Value != nil {
				h += ", " + p.expr(s.Value)
			}
			h += " " + s.Tok.String() + " "
		}
		p.emit(h+"range "+p.expr(s.X), s)
		p.flush(s)
		p.block(s.Body)
	case *ast.SelectStmt:
		p.emit("select", s)
		p.emit("{", s.Body)
		for _, c := range s.Body.List {
			cc, ok := c.(*ast.CommClause)
			if !ok {
				p.emit("UNKNOWN:select clause", c)
				continue
			}
			if cc.Comm == nil {
				p.emit("default:", cc)
			} else {
				p.emit("case "+p.simple(cc.Comm)+":", cc)
				p.flush(cc)
			}
			p.emit("{", cc)
			for _, b := range cc.Body {
				p.stmt(b)
			}
			p.emit("}", nil)
		}
		p.emit("}", nil)
	case *ast.SwitchStmt:
		h := "switch"
		if s.Init != nil {
			h += " " + p.simple(s.Init) + ";"
		}
		if s.Tag != nil {
			h += " " + p.expr(s.Tag)
		}
		p.emit(h, s)
		p.flush(s)
		p.emit("{", s.Body)
		for _, c := range s.Body.List {
			cc, ok := c.(*ast.CaseClause)
			if !ok {
				p.emit("UNKNOWN:switch clause", c)
				continue
			}
			if cc.List == nil {
				p.emit("default:", cc)
			} else {
				p.emit("case "+p.exprs(cc.List)+":", cc)
				p.flush(cc)
			}
			p.emit("{", cc)
			for _, b := range cc.Body {
				p.stmt(b)
			}
			p.emit("}", nil)
		}
		p.emit("}", nil)
	default:
		p.emit(fmt.Sprintf("UNKNOWN:%T", s), s)
	}
}

func (p *printer) ifStmt(s *ast.IfStmt, kw string) {
	h := kw
	if s.Init != nil {
		h += p.simple(s.Init) + "; "
	}
	p.emit(h+p.expr(s.Cond), s)
	p.flush(s)
	p.block(s.Body)
	switch e := s.Else.(type) {
	case nil:
	case *ast.IfStmt:
		p.ifStmt(e, "else if ")
	case *ast.BlockStmt:
		p.emit("else", e)
		p.block(e)
	default:
		p.emit(fmt.Sprintf("UNKNOWN:else %T", e), s)
	}
}

// containsMakeChan reports whether the statement contains a `make(chan ...)` call.
func containsMakeChan(s ast.Stmt) bool {
	found := false
	ast.Inspect(s, func(n ast.Node) bool {
		if c, ok := n.(*ast.CallExpr); ok {
			if id, ok := c.Fun.(*ast.Ident); ok && id.Name == "make" && len(c.Args) > 0 {
				if _, ok := c.Args[0].(*ast.ChanType); ok {
					found = true
				}
			}
		}
		return !found
	})
	return found
}

// whole: functions transcribed statement by statement; filtered: only the statements that create channels.
var whole = []string{"contChecksPassing", "PlanStartContChecks", "BlockStartContChecks", "ExecuteSequences",
	"BlockEnd", "PlanPostChecks", "PlanDeferredChecks", "runContChecks"}
var makeChanOnly = []string{"Start"}

func coqString(s string) string { return "\"" + strings.ReplaceAll(s, "\"", "\"\"") + "\"" }

func main() {
	def := os.Getenv("VERIF_REPO")
	if def == "" {
		def = "/repo"
	}
	repo := flag.String("repo", def, "repository root")
	out := flag.String("out", "", "write JSON here (default stdout)")
	set := flag.String("set", "sm", "sm = internal/execute/sm/sm.go (mechanism models); api = internal/execute/execute.go (Start, runPlan, Wait; C12); readers = sqlite+cosmosdb reader.go Search/List (C15); attempts = sm/actions/actions.go run (C05)")
	flag.Parse()

	type source struct {
		path, prefix string
		whole, filt  []string
	}
	var sources []source
	switch *set {
	case "sm":
		sources = []source{{filepath.Join(*repo, "internal", "execute", "sm", "sm.go"), "", whole, makeChanOnly}}
	case "api":
		sources = []source{{filepath.Join(*repo, "internal", "execute", "execute.go"), "", []string{"Start", "runPlan", "Wait"}, nil}}
	case "readers": // C15: the Search/List producers of both stores
		sources = []source{
			{filepath.Join(*repo, "workflow", "storage", "sqlite", "reader.go"), "sqlite.", []string{"Search", "List"}, nil},
			{filepath.Join(*repo, "workflow", "storage", "cosmosdb", "reader.go"), "cosmosdb.", []string{"Search", "List"}, nil},
		}
	case "attempts": // C05: one plugin invocation under a deadline
		sources = []source{{filepath.Join(*repo, "internal", "execute", "sm", "actions", "actions.go"), "", []string{"run"}, nil}}
	default:
		fmt.Fprintln(os.Stderr, "unknown -set", *set)
		os.Exit(2)
	}
	path := sources[0].path
	var fns []fn
	for _, src := range sources {
		fset := token.NewFileSet()
		file, err := parser.ParseFile(fset, src.path, nil, parser.SkipObjectResolution)
		if err != nil {
			fmt.Fprintln(os.Stderr, "parse:", err)
			os.Exit(2)
		}
		decls := map[string]*ast.FuncDecl{}
		dup := map[string]bool{}
		for _, d := range file.Decls {
			if fd, ok := d.(*ast.FuncDecl); ok && fd.Body != nil {
				if _, seen := decls[fd.Name.Name]; seen {
					dup[fd.Name.Name] = true // same name on two receivers: ambiguous, fail closed below
				}
				decls[fd.Name.Name] = fd
			}
		}
		add := func(name string, filter bool) {
			p := &printer{fset: fset}
			fd := decls[name]
			switch {
			case fd == nil:
				p.emit("UNKNOWN:function not found", nil)
			case dup[name]:
				p.emit("UNKNOWN:function declared twice", fd)
			case filter:
				ast.Inspect(fd.Body, func(n ast.Node) bool {
					if s, ok := n.(ast.Stmt); ok {
						switch s.(type) {
						case *ast.AssignStmt, *ast.ExprStmt, *ast.DeclStmt:
							if containsMakeChan(s) {
								p.stmt(s)
							}
							return false
						}
					}
					return true
				})
			default:
				recv := ""
				if fd.Recv != nil {
					recv = "(" + p.fields(fd.Recv) + ") "
				}
				p.emit("func "+recv+name+p.signature(fd.Type), fd)
				p.block(fd.Body)
			}
			fns = append(fns, fn{Name: src.prefix + name, File: src.path, Tokens: p.out})
		}
		for _, n := range src.filt {
			add(n, true)
		}
		for _, n := range src.whole {
			add(n, false)
		}
	}
	if *set == "sm" {
		// the worker pool / group whose semantics Limiter.v transcribes is a pinned dependency
		mod, _ := os.ReadFile(filepath.Join(*repo, "go.mod"))
		dep := "UNKNOWN:gostdlib/base not required"
		for _, l := range strings.Split(string(mod), "\n") {
			f := strings.Fields(l)
			if len(f) >= 2 && f[0] == "github.com/gostdlib/base" {
				dep = f[0] + " " + f[1]
			}
		}
		fns = append(fns, fn{Name: "go.mod", Tokens: []tok{{T: dep}}})
	}

	var sb strings.Builder
	sb.WriteString("[\n")
	for i, f := range fns {
		sb.WriteString(" (" + coqString(f.Name) + ", [\n")
		for j, t := range f.Tokens {
			sb.WriteString("    " + coqString(t.T))
			if j+1 < len(f.Tokens) {
				sb.WriteString(";")
			}
			sb.WriteString("\n")
		}
		sb.WriteString(" ])")
		if i+1 < len(fns) {
			sb.WriteString(";")
		}
		sb.WriteString("\n")
	}
	sb.WriteString("]")
	res := map[string]any{"file": path, "functions": fns, "coq": sb.String()}
	enc, _ := json.MarshalIndent(res, "", " ")
	if *out == "" {
		os.Stdout.Write(enc)
		fmt.Println()
		return
	}
	if err := os.WriteFile(*out, enc, 0o644); err != nil {
		fmt.Fprintln(os.Stderr, err)
		os.Exit(2)
	}
}
