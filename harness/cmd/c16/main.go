// c16: drives workflow.Validate, Workstream.Submit and Workstream.Start (the real public API, with a
// sqlite vault) on valid generated plans and on mutants of them, in child processes, and prints one
// case per plan: the plan as a Coq term and what the code did with it.
package main

import (
	"bufio"
	"encoding/json"
	"flag"
	"fmt"
	"os"
	"os/exec"
	"path/filepath"
	"runtime/debug"
	"strings"
	gosync "sync"
	"sync/atomic"
	"time"

	"verifharness/c16lib"
	"verifharness/core"
	"verifharness/hplug"
	"verifharness/plancoq"
	"verifharness/plangen"

	"github.com/element-of-surprise/coercion"
	"github.com/element-of-surprise/coercion/workflow"
	"github.com/element-of-surprise/coercion/workflow/context"
	sqlitevault "github.com/element-of-surprise/coercion/workflow/storage/sqlite"
	"github.com/google/uuid"
	"zombiezen.com/go/sqlite"
	"zombiezen.com/go/sqlite/sqlitex"
)

// ---------------------------------------------------------------- generation (parent and child agree)

type spec struct {
	Index  int
	Opts   plangen.Opts
	Kinds  []int
	Tamper string // valid plans only: how the stored plan is altered (through the vault) before Start
	Family string // "seq" (one case after another), "second-use", "concurrent"
	Base   int    // index whose PRNG fork generates the plan (second-use: the group's first index)
	Rekey  bool   // second-use: every key replaced by a fresh v7 key
	Pre    []int  // resubmit: mutation kinds applied (each followed by a Submit) to the very object that is then
	// corrected in place and submitted again; len(c16lib.Kinds) = "the same action twice in a sequence"
}

// index space: [0,nSeq) sequential cases, [nSeq,nSeq+nSecond) the second-use family (groups of 20 on the
// same Workstream, run by the sequential child right after the sequential cases), then nConc concurrent cases.
var nSeq, nSecond, nConc, nLarge, nResub int

// mutations that make a plan malformed (second-use family: every other Submit must be a rejection)
var invalidating = []string{"key-dup-cross-level", "key-dup-same-kind", "name-empty", "timeout-1ns", "nil-element-insert",
	"key-v4", "request-plugin-rejects", "attempts-one", "descr-whitespace", "plugin-unknown", "key-dup-with-checks",
	"state-preset-zero", "empty-slice", "id-preset-v7"}

func kindIndex(name string) int {
	for i, k := range c16lib.Kinds {
		if k.Name == name {
			return i
		}
	}
	panic("unknown mutation kind " + name)
}

// tampers: "u:" = after a real Submit, through the vault's Update methods; "c:" = the plan is given ids,
// states and a submit time by the harness (walk + Defaults, as Submit does) and stored with vault.Create.
var tampers = []string{
	"u:state-running", "u:state-completed", "u:state-failed", "u:state-stopped", "u:state-start-set", "u:state-end-set",
	"u:attempts-set", "u:reason-set",
	"c:untouched", "c:id-v4", "c:id-other-version", "c:submit-zero", "c:submit-31min-old", "c:submit-29min-old",
	"c:non-check-in-group",
}

func specOf(i int) spec {
	r := core.NewRand(core.Seed()).Fork(uint64(i))
	rk := r.Fork(1)
	s := spec{Index: i, Family: "seq", Base: i, Opts: plangen.Opts{
		GroupP: []float64{0.15, 0.3, 0.5, 0.8}[i%4], MaxBlocks: 1 + i%3, MaxSeqs: 1 + (i/3)%3, MaxActions: 1 + (i/9)%3,
		KeyP: []float64{0.1, 0.4, 0.8}[(i/2)%3], AltP: 0.2}}
	if i >= nSeq && i < nSeq+nSecond {
		// second use: 20 Submits in a row of the SAME plan (names, plugin names, nonce, key values), alternately
		// malformed and well formed; in the second half of a group the keys are fresh v7 keys each time
		j := (i - nSeq) % 20
		g := i - j
		s.Family, s.Base, s.Rekey = "second-use", g, j >= 10
		s.Opts = plangen.Opts{GroupP: 0.5, MaxBlocks: 2, MaxSeqs: 2, MaxActions: 3, KeyP: 0.9, AltP: 0.2}
		if j%2 == 0 {
			s.Kinds = []int{kindIndex(invalidating[rk.Intn(len(invalidating))])}
			if j == 0 || j == 6 || j == 14 {
				// a rejection that comes after keys have already gone into the key set
				s.Kinds = []int{kindIndex([]string{"key-dup-cross-level", "key-dup-same-kind", "key-dup-with-checks"}[j%3])}
			}
		}
		return s
	}
	if i >= nSeq+nSecond+nConc {
		// reject, correct in place, resubmit: the case is the LAST Submit, of the corrected (= valid) plan
		j := i - (nSeq + nSecond + nConc)
		nk := len(c16lib.Kinds) + 1
		s.Family = "resubmit"
		s.Opts = plangen.Opts{GroupP: 0.5, MaxBlocks: 2, MaxSeqs: 2, MaxActions: 3, KeyP: 0.6, AltP: 0.2}
		s.Pre = []int{j % nk}
		if (j/nk)%2 == 1 { // rejected twice, for two different reasons, before it is corrected
			s.Pre = append(s.Pre, rk.Intn(nk))
		}
		return s
	}
	if i >= nSeq+nSecond {
		// concurrent: bigger plans (validation takes longer, malformations sit late in the walk more often)
		s.Family = "concurrent"
		s.Opts = plangen.Opts{GroupP: []float64{0.3, 0.6}[i%2], MaxBlocks: 2 + i%2, MaxSeqs: 3, MaxActions: 3,
			KeyP: []float64{0.2, 0.6}[(i/2)%2], AltP: 0.2}
		if i%3 == 0 {
			return s
		}
		n := 1 + rk.Weighted([]int{5, 3, 2})
		for len(s.Kinds) < n {
			s.Kinds = append(s.Kinds, rk.Intn(len(c16lib.Kinds)))
		}
		for k, kk := range s.Kinds { // Submit(nil) is covered sequentially
			if c16lib.Kinds[kk].Name == "nil-plan" {
				s.Kinds[k] = kindIndex("name-empty")
			}
		}
		return s
	}
	if i%5 == 0 {
		if (i/5)%2 == 1 {
			s.Tamper = tampers[(i/10)%len(tampers)]
		}
		return s // valid stream
	}
	m := i - i/5 - 1 // mutant number
	n := 1 + rk.Weighted([]int{5, 3, 2})
	// the first mutation cycles through all kinds (every kind occurs, near-uniform histogram), the others are random
	s.Kinds = append(s.Kinds, m%len(c16lib.Kinds))
	for len(s.Kinds) < n {
		s.Kinds = append(s.Kinds, rk.Intn(len(c16lib.Kinds)))
	}
	// mutation order is random too
	for j := len(s.Kinds) - 1; j > 0; j-- {
		k := rk.Intn(j + 1)
		s.Kinds[j], s.Kinds[k] = s.Kinds[k], s.Kinds[j]
	}
	return s
}

type built struct {
	plan   *workflow.Plan
	did    []string
	regset bool
	nonce  string
	name   string // plan name as generated (before mutations)
	gen    *plangen.Gen
	r      *core.Rand
}

// build generates the plan of a spec; every call with the same spec yields an equal, unshared plan.
func build(s spec, set *c16lib.Set, forSubmit bool) built {
	r := core.NewRand(core.Seed()).Fork(uint64(s.Base)).Fork(2)
	g := plangen.New(r, s.Opts)
	p := g.Plan()
	if s.Family == "second-use" {
		r = core.NewRand(core.Seed()).Fork(uint64(s.Index)).Fork(4) // mutation targets differ from Submit to Submit
		if s.Rekey {
			for _, ob := range c16lib.Objects(p) {
				if k := ob.Key(); k != nil && *k != uuid.Nil {
					*k = plangen.V7(r)
				}
			}
		}
	}
	if s.Family == "concurrent" {
		p.Name = fmt.Sprintf("%s #%d", p.Name, s.Index) // unique: rows of this plan can be found by name
	}
	m := &c16lib.M{R: r, G: g, P: p, Reg: set.Reg, ForSubmit: forSubmit}
	name := p.Name
	did := m.Mutate(s.Kinds)
	if m.NilPlan {
		return built{plan: nil, did: did, nonce: g.Nonce, name: name}
	}
	return built{plan: p, did: did, regset: m.RegSet, nonce: g.Nonce, name: name, gen: g, r: r}
}

// ---- reject, correct in place, resubmit

// snapshot remembers the exported fields of every object of a plan (slices cloned), so that the very same
// objects can later be put back the way they were - as a caller correcting a rejected plan would do.
// The unexported register of an action is deliberately not touched.
type snapshot struct {
	plan   workflow.Plan
	checks map[*workflow.Checks]workflow.Checks
	blocks map[*workflow.Block]workflow.Block
	seqs   map[*workflow.Sequence]workflow.Sequence
	acts   map[*workflow.Action]workflow.Action
}

func clonePtrs[T any](s []*T) []*T {
	if s == nil {
		return nil
	}
	return append([]*T{}, s...)
}

func takeSnapshot(p *workflow.Plan) *snapshot {
	sn := &snapshot{plan: *p, checks: map[*workflow.Checks]workflow.Checks{}, blocks: map[*workflow.Block]workflow.Block{},
		seqs: map[*workflow.Sequence]workflow.Sequence{}, acts: map[*workflow.Action]workflow.Action{}}
	sn.plan.Blocks = clonePtrs(p.Blocks)
	for _, ob := range c16lib.Objects(p) {
		switch ob.Kind {
		case c16lib.KChecks:
			c := *ob.C
			c.Actions = clonePtrs(c.Actions)
			sn.checks[ob.C] = c
		case c16lib.KBlock:
			b := *ob.B
			b.Sequences = clonePtrs(b.Sequences)
			sn.blocks[ob.B] = b
		case c16lib.KSeq:
			q := *ob.S
			q.Actions = clonePtrs(q.Actions)
			sn.seqs[ob.S] = q
		case c16lib.KAction:
			sn.acts[ob.A] = *ob.A
		}
	}
	return sn
}

// restore writes the remembered exported fields back into the same objects.
func (sn *snapshot) restore(p *workflow.Plan) {
	s := sn.plan
	p.ID, p.Name, p.Descr, p.GroupID, p.Meta = s.ID, s.Name, s.Descr, s.GroupID, s.Meta
	p.BypassChecks, p.PreChecks, p.ContChecks, p.PostChecks, p.DeferredChecks = s.BypassChecks, s.PreChecks, s.ContChecks, s.PostChecks, s.DeferredChecks
	p.Blocks, p.State, p.SubmitTime, p.Reason = clonePtrs(s.Blocks), s.State, s.SubmitTime, s.Reason
	for c, v := range sn.checks {
		c.ID, c.Key, c.Delay, c.Actions, c.State = v.ID, v.Key, v.Delay, clonePtrs(v.Actions), v.State
	}
	for b, v := range sn.blocks {
		b.ID, b.Key, b.Name, b.Descr, b.EntranceDelay, b.ExitDelay = v.ID, v.Key, v.Name, v.Descr, v.EntranceDelay, v.ExitDelay
		b.BypassChecks, b.PreChecks, b.ContChecks, b.PostChecks, b.DeferredChecks = v.BypassChecks, v.PreChecks, v.ContChecks, v.PostChecks, v.DeferredChecks
		b.Sequences, b.Concurrency, b.ToleratedFailures, b.State = clonePtrs(v.Sequences), v.Concurrency, v.ToleratedFailures, v.State
	}
	for q, v := range sn.seqs {
		q.ID, q.Key, q.Name, q.Descr, q.Actions, q.State = v.ID, v.Key, v.Name, v.Descr, clonePtrs(v.Actions), v.State
	}
	for a, v := range sn.acts {
		a.ID, a.Key, a.Name, a.Descr, a.Plugin, a.Timeout, a.Retries, a.Req, a.Attempts, a.State =
			v.ID, v.Key, v.Name, v.Descr, v.Plugin, v.Timeout, v.Retries, v.Req, v.Attempts, v.State
	}
}

// preRounds mutates the (valid) plan of b, submits it, and so on for every kind of pre; then corrects the plan
// in place. It returns the verdict of each of those Submits (0 rejected, 1 accepted, 2 panic) and what was applied.
func (w *worker) preRounds(b built, pre []int) (verdicts []int, applied []string) {
	ctx := context.Background()
	sn := takeSnapshot(b.plan)
	m := &c16lib.M{R: b.r, G: b.gen, P: b.plan, Reg: w.set.Reg, ForSubmit: true}
	for _, k := range pre {
		name := "same-action-twice-in-a-sequence"
		ok := false
		if k < len(c16lib.Kinds) {
			name = c16lib.Kinds[k].Name
			if name != "nil-plan" && name != "register-preset" {
				ok = c16lib.Kinds[k].Apply(m)
			}
		} else if ob, found := pickObj(b.r, b.plan, func(o c16lib.Obj) bool { return o.Kind == c16lib.KSeq && len(o.S.Actions) > 0 && o.S.Actions[0] != nil }); found {
			ob.S.Actions = append(ob.S.Actions, ob.S.Actions[0])
			ok = true
		}
		if !ok {
			continue
		}
		applied = append(applied, name)
		var err error
		if pn := guard(func() { _, err = w.ws.Submit(ctx, b.plan) }); pn != "" {
			verdicts = append(verdicts, 2)
		} else {
			verdicts = append(verdicts, code(err))
		}
	}
	sn.restore(b.plan)
	return verdicts, applied
}

func planTerm(cx *plancoq.Ctx, p *workflow.Plan) string {
	if p == nil {
		return "None"
	}
	return core.Some(cx.Plan(p))
}

// ---------------------------------------------------------------- observation (child)

type obs struct {
	Validate   int      `json:"validate"` // 0 error, 1 nil, 2 panic, 3 not run
	Submit     int      `json:"submit"`
	Delta      [5]int   `json:"delta"`
	Shrunk     bool     `json:"shrunk"`
	Stored     bool     `json:"stored"`
	Flags      [3]bool  `json:"flags"` // returned id = stored id; ids new; submit time in window
	Start      int      `json:"start"`
	Fresh      bool     `json:"fresh"`
	Tamper     string   `json:"tamper,omitempty"`
	Pre        []int    `json:"pre_verdicts,omitempty"` // resubmit: verdicts of the Submits before the correction
	PreApplied []string `json:"pre_applied,omitempty"`
	Errs       []string `json:"errs,omitempty"` // error texts, for humans only
	Panic      string   `json:"panic,omitempty"`
	Taint      bool     `json:"taint,omitempty"`
}

type line struct {
	Idx  int       `json:"idx"`
	Case core.Case `json:"case"`
	Obs  obs       `json:"obs"`
}

type worker struct {
	set    *c16lib.Set
	vault  *sqlitevault.Vault
	ws     *coercion.Workstream
	dbPath string
	conn   *sqlite.Conn
	seen   map[uuid.UUID]bool
}

var tables = [5]string{"plans", "blocks", "checks", "sequences", "actions"}

func (w *worker) rows() (c [5]int) {
	for i, t := range tables {
		c[i] = -1
		err := sqlitex.ExecuteTransient(w.conn, "SELECT COUNT(*) FROM "+t+";", &sqlitex.ExecOptions{
			ResultFunc: func(stmt *sqlite.Stmt) error { c[i] = stmt.ColumnInt(0); return nil }})
		if err != nil {
			fmt.Fprintln(os.Stderr, "row count:", err)
		}
	}
	return c
}

func newWorker(dir string) (*worker, error) {
	ctx := context.Background()
	set := c16lib.NewSet()
	if err := os.MkdirAll(dir, 0o700); err != nil {
		return nil, err
	}
	v, err := sqlitevault.New(ctx, dir, set.Reg)
	if err != nil {
		return nil, err
	}
	ws, err := coercion.New(ctx, set.Reg, v)
	if err != nil {
		return nil, err
	}
	path := filepath.Join(dir, "workstream.db")
	conn, err := sqlite.OpenConn(path, sqlite.OpenReadWrite, sqlite.OpenWAL)
	if err != nil {
		return nil, err
	}
	return &worker{set: set, vault: v, ws: ws, dbPath: path, conn: conn, seen: map[uuid.UUID]bool{}}, nil
}

func guard(f func()) (panicked string) {
	defer func() {
		if r := recover(); r != nil {
			panicked = fmt.Sprintf("%v\n%s", r, debug.Stack())
		}
	}()
	f()
	return ""
}

func code(err error) int {
	if err != nil {
		return 0
	}
	return 1
}

type generated struct {
	spec         spec
	did          []string
	termS, termV string
	regset       bool
	objects      int
	cx           *plancoq.Ctx
}

// generate builds the terms of case i without running anything.
func generate(i int, set *c16lib.Set) generated {
	s := specOf(i)
	bP := build(s, set, false)
	c16lib.CanonRequests(bP.plan, true)
	cx := plancoq.NewCtx(set.Lookup)
	g := generated{spec: s, did: bP.did, regset: bP.regset, cx: cx, objects: len(c16lib.Objects(bP.plan))}
	g.termS = planTerm(cx, bP.plan)
	bQ := build(s, set, false)
	c16lib.CanonRequests(bQ.plan, false)
	g.termV = planTerm(plancoq.NewCtx(set.Lookup), bQ.plan)
	return g
}

func mkCase(g generated, o obs, storedTerm, startTerm string) core.Case {
	v := "None"
	if g.termV != g.termS {
		v = core.Some(g.termV)
	}
	delta := make([]string, 5)
	for i, d := range o.Delta {
		delta[i] = core.Nat(d)
	}
	term := core.App("Build_case", g.termS, v, core.B(g.regset), core.Nat(o.Validate), core.Nat(o.Submit),
		core.List(delta), core.B(o.Shrunk), storedTerm,
		core.List([]string{core.B(o.Flags[0]), core.B(o.Flags[1]), core.B(o.Flags[2])}), startTerm, core.Nat(o.Start), core.B(o.Fresh))
	did := g.did
	if len(did) == 0 {
		did = []string{}
	}
	c := core.Case{
		ID:         fmt.Sprintf("c16-%d", g.spec.Index),
		Kind:       map[bool]string{true: "valid", false: "mutant"}[len(g.spec.Kinds) == 0],
		Coq:        term,
		Nontrivial: len(did) > 0 || g.objects > 3,
		Hash:       core.Hash(g.termS, g.termV, startTerm, fmt.Sprint(o.Validate, o.Submit, o.Delta, o.Stored, o.Start)),
		Dist: map[string]any{"mutations": did, "requested": len(g.spec.Kinds), "objects": g.objects,
			"validate": o.Validate, "submit": o.Submit, "start": o.Start, "tamper": g.spec.Tamper, "family": g.spec.Family, "pre": o.PreApplied, "pre_verdicts": o.Pre},
		Input: map[string]any{"seed": core.Seed(), "index": g.spec.Index, "opts": g.spec.Opts, "kinds": kindNames(g.spec.Kinds), "applied": did,
			"family": g.spec.Family, "base": g.spec.Base, "rekey": g.spec.Rekey, "nseq": nSeq, "nsecond": nSecond, "nconc": nConc, "nresub": nResub, "pre": kindNamesX(g.spec.Pre)},
		Observed: o,
	}
	if o.Panic != "" {
		c.Note = "panic: " + o.Panic
	}
	return c
}

func kindNamesX(ks []int) []string {
	out := []string{}
	for _, k := range ks {
		if k < len(c16lib.Kinds) {
			out = append(out, c16lib.Kinds[k].Name)
		} else {
			out = append(out, "same-action-twice-in-a-sequence")
		}
	}
	return out
}

func kindNames(ks []int) []string {
	out := make([]string, len(ks))
	for i, k := range ks {
		out[i] = c16lib.Kinds[k].Name
	}
	return out
}

// start calls Workstream.Start and, when the plan was admitted, waits for it to finish so that it
// does not run into later cases.
func (w *worker) start(id uuid.UUID, o *obs) {
	ctx := context.Background()
	var err error
	if p := guard(func() { err = w.ws.Start(ctx, id) }); p != "" {
		o.Start, o.Taint = 2, true
		if o.Panic == "" {
			o.Panic = "Workstream.Start: " + p
		}
		return
	}
	o.Start = code(err)
	if err != nil {
		o.Errs = append(o.Errs, "Start: "+err.Error())
		return
	}
	wctx, cancel := context.WithTimeout(ctx, 30*time.Second)
	defer cancel()
	if _, werr := w.ws.Wait(wctx, id); werr != nil {
		o.Taint = true
		o.Errs = append(o.Errs, "Wait after Start: "+werr.Error())
	}
}

// readBack reads a stored plan and abstracts it (with the case's interning context).
func (w *worker) readBack(cx *plancoq.Ctx, id uuid.UUID, o *obs) (*workflow.Plan, string) {
	var sp *workflow.Plan
	var err error
	if p := guard(func() { sp, err = w.ws.Plan(context.Background(), id) }); p != "" {
		o.Taint = true
		o.Errs = append(o.Errs, "Plan(id) panicked: "+p)
		return nil, "None"
	}
	if err != nil || sp == nil {
		o.Errs = append(o.Errs, fmt.Sprintf("Plan(id): %v", err))
		return nil, "None"
	}
	c16lib.CanonRequests(sp, false)
	return sp, core.Some(cx.Plan(sp))
}

func pickObj(r *core.Rand, p *workflow.Plan, pred func(c16lib.Obj) bool) (c16lib.Obj, bool) {
	var c []c16lib.Obj
	for _, ob := range c16lib.Objects(p) {
		if pred(ob) {
			c = append(c, ob)
		}
	}
	if len(c) == 0 {
		return c16lib.Obj{}, false
	}
	return c[r.Intn(len(c))], true
}

// tamperUpdate alters one object of a stored plan through the vault's Update methods.
func (w *worker) tamperUpdate(r *core.Rand, sp *workflow.Plan, how string) error {
	ctx := context.Background()
	any := func(c16lib.Obj) bool { return true }
	ob, _ := pickObj(r, sp, any)
	switch how {
	case "u:attempts-set":
		ob, _ = pickObj(r, sp, func(o c16lib.Obj) bool { return o.Kind == c16lib.KAction })
		ob.A.Attempts = []*workflow.Attempt{{Start: time.Unix(1700000000, 0).UTC(), End: time.Unix(1700000001, 0).UTC()}}
	case "u:reason-set":
		ob = c16lib.Obj{Kind: c16lib.KPlan, P: sp}
		sp.Reason = workflow.FRBlock
	default:
		st := *ob.State()
		switch how {
		case "u:state-running":
			st.Status = workflow.Running
		case "u:state-completed":
			st.Status = workflow.Completed
		case "u:state-failed":
			st.Status = workflow.Failed
		case "u:state-stopped":
			st.Status = workflow.Stopped
		case "u:state-start-set":
			st.Start = time.Unix(1700000000, 0).UTC()
		case "u:state-end-set":
			st.End = time.Unix(1700000001, 0).UTC()
		}
	}
	switch ob.Kind {
	case c16lib.KPlan:
		return w.vault.UpdatePlan(ctx, ob.P)
	case c16lib.KChecks:
		return w.vault.UpdateChecks(ctx, ob.C)
	case c16lib.KBlock:
		return w.vault.UpdateBlock(ctx, ob.B)
	case c16lib.KSeq:
		return w.vault.UpdateSequence(ctx, ob.S)
	}
	return w.vault.UpdateAction(ctx, ob.A)
}

// crafted stores a plan with vault.Create after doing by hand what Submit does (ids, states, submit
// time), altered as `how` says; then reads it back and calls Start.
func (w *worker) crafted(g generated, how string, o *obs) (startTerm string) {
	ctx := context.Background()
	r := core.NewRand(core.Seed()).Fork(uint64(g.spec.Index)).Fork(3)
	b := build(g.spec, w.set, false)
	p := b.plan
	for _, ob := range c16lib.Objects(p) {
		*ob.ID() = workflow.NewV7()
		*ob.State() = &workflow.State{Status: workflow.NotStarted}
		if ob.Kind == c16lib.KAction && ob.A.Timeout == 0 {
			ob.A.Timeout = 30 * time.Second
		}
		if ob.Kind == c16lib.KBlock && ob.B.Concurrency < 1 {
			ob.B.Concurrency = 1
		}
	}
	p.SubmitTime = time.Now().UTC()
	switch how {
	case "c:id-v4":
		ob, _ := pickObj(r, p, func(c16lib.Obj) bool { return true })
		*ob.ID() = plangen.V4(r)
	case "c:id-other-version":
		ob, _ := pickObj(r, p, func(c16lib.Obj) bool { return true })
		u := plangen.V7(r)
		u[6] = (u[6] & 0x0f) | ([]byte{1, 3, 5, 6, 8}[r.Intn(5)] << 4)
		*ob.ID() = u
	case "c:submit-zero":
		p.SubmitTime = time.Time{}
	case "c:submit-31min-old":
		p.SubmitTime = time.Now().UTC().Add(-31 * time.Minute)
	case "c:submit-29min-old":
		p.SubmitTime = time.Now().UTC().Add(-29 * time.Minute)
	case "c:non-check-in-group":
		if ob, ok := pickObj(r, p, func(o c16lib.Obj) bool { return o.Kind == c16lib.KAction && o.InChecks }); ok {
			ob.A.Plugin = "verif/action"
		}
	}
	var err error
	if pn := guard(func() { err = w.vault.Create(ctx, p) }); pn != "" || err != nil {
		o.Errs = append(o.Errs, fmt.Sprintf("vault.Create of the crafted plan failed: %v %s", err, pn))
		return "None"
	}
	sp, term := w.readBack(g.cx, p.ID, o)
	if sp == nil {
		return "None"
	}
	o.Fresh = !sp.SubmitTime.Add(30 * time.Minute).Before(time.Now())
	w.start(p.ID, o)
	return term
}

func (w *worker) run(i int, startEvery int) line {
	ctx := context.Background()
	g := generate(i, w.set)
	o := obs{Validate: 3, Submit: 3, Start: 3, Fresh: true, Tamper: g.spec.Tamper}
	storedTerm, startTerm := "None", "None"

	if strings.HasPrefix(g.spec.Tamper, "c:") {
		startTerm = w.crafted(g, g.spec.Tamper, &o)
		return line{Idx: i, Case: mkCase(g, o, storedTerm, startTerm), Obs: o}
	}

	// (1) workflow.Validate on a twin whose actions carry the registry
	bV := build(g.spec, w.set, false)
	c16lib.SetRegisters(bV.plan, w.set.Reg)
	var err error
	if p := guard(func() { err = workflow.Validate(bV.plan) }); p != "" {
		o.Validate, o.Panic, o.Taint = 2, "workflow.Validate: "+p, true
	} else {
		o.Validate = code(err)
		if err != nil {
			o.Errs = append(o.Errs, "Validate: "+err.Error())
		}
	}

	// (2) Workstream.Submit on another twin, with the store's row counts around it
	bS := build(g.spec, w.set, true)
	before := w.rows()
	if g.spec.Family == "resubmit" {
		// the same object is first submitted in malformed states (each must be rejected and leave nothing),
		// then corrected in place; the case proper is the Submit of the corrected plan
		o.Pre, o.PreApplied = w.preRounds(bS, g.spec.Pre)
		rejected := len(o.Pre) > 0
		for _, v := range o.Pre {
			if v == 2 {
				o.Taint = true
			}
			if v != 0 {
				rejected = false
			}
		}
		if !rejected { // the mutation did not apply or did not make the plan malformed: nothing to resubmit
			return line{Idx: i, Case: mkCase(g, o, storedTerm, startTerm), Obs: o}
		}
	}
	var id uuid.UUID
	t0 := time.Now()
	if p := guard(func() { id, err = w.ws.Submit(ctx, bS.plan) }); p != "" {
		o.Submit, o.Taint = 2, true
		if o.Panic == "" {
			o.Panic = "Workstream.Submit: " + p
		}
	} else {
		o.Submit = code(err)
		if err != nil {
			o.Errs = append(o.Errs, "Submit: "+err.Error())
		}
	}
	t1 := time.Now()
	after := w.rows()
	for k := range after {
		if after[k] < before[k] {
			o.Shrunk = true
		} else {
			o.Delta[k] = after[k] - before[k]
		}
	}
	if o.Submit != 1 {
		return line{Idx: i, Case: mkCase(g, o, storedTerm, startTerm), Obs: o}
	}

	// (3) the stored plan
	var sp *workflow.Plan
	sp, storedTerm = w.readBack(g.cx, id, &o)
	if sp == nil {
		return line{Idx: i, Case: mkCase(g, o, storedTerm, startTerm), Obs: o}
	}
	o.Stored = true
	o.Flags[0] = sp.ID == id
	o.Flags[1] = true
	for _, ob := range c16lib.Objects(sp) {
		if w.seen[*ob.ID()] {
			o.Flags[1] = false
		}
	}
	for _, ob := range c16lib.Objects(sp) {
		w.seen[*ob.ID()] = true
	}
	st := sp.SubmitTime
	o.Flags[2] = !st.Before(t0.Add(-time.Second)) && !st.After(t1.Add(time.Second))
	o.Fresh = !st.Add(30 * time.Minute).Before(time.Now())

	// (4) Start: always when a check group holds a non-check plugin or the stored plan was tampered
	// with, else on a sample
	nonCheck := false
	for _, ob := range c16lib.Objects(sp) {
		if ob.Kind == c16lib.KAction && ob.InChecks {
			if _, chk, _ := w.set.Lookup(ob.A.Plugin, ob.A.Req); !chk {
				nonCheck = true
			}
		}
	}
	tampered := false
	if strings.HasPrefix(g.spec.Tamper, "u:") {
		r := core.NewRand(core.Seed()).Fork(uint64(i)).Fork(3)
		if err := w.tamperUpdate(r, sp, g.spec.Tamper); err != nil {
			o.Errs = append(o.Errs, "tamper: "+err.Error())
		} else if sp2, t := w.readBack(g.cx, id, &o); sp2 != nil {
			startTerm, tampered = t, true
		}
	}
	if nonCheck || tampered || (startEvery > 0 && i%startEvery == 0) {
		w.start(id, &o)
	}
	return line{Idx: i, Case: mkCase(g, o, storedTerm, startTerm), Obs: o}
}

func workerMain(from, to, startEvery int, dir string) {
	w, err := newWorker(dir)
	if err != nil {
		fmt.Fprintln(os.Stderr, "worker setup:", err)
		os.Exit(4)
	}
	out := bufio.NewWriterSize(os.Stdout, 1<<20)
	enc := json.NewEncoder(out)
	for i := from; i < to; i++ {
		l := w.run(i, startEvery)
		if err := enc.Encode(l); err != nil {
			fmt.Fprintln(os.Stderr, "encode:", err)
			os.Exit(4)
		}
		out.Flush()
		if l.Obs.Taint {
			os.Exit(3) // a process that saw a panic or a hang is not reused
		}
	}
	os.Exit(0)
}

// ---------------------------------------------------------------- concurrent batch (child)

type citem struct {
	g      generated
	bV, bS built
	o      obs
	id     uuid.UUID
	t0, t1 time.Time
}

// parallel runs f on every item from `par` goroutines that start together.
func parallel(items []*citem, par int, f func(*citem)) {
	var wg gosync.WaitGroup
	var next atomic.Int64
	startGate := make(chan struct{})
	for k := 0; k < par; k++ {
		wg.Add(1)
		go func() {
			defer wg.Done()
			<-startGate
			for {
				j := int(next.Add(1)) - 1
				if j >= len(items) {
					return
				}
				f(items[j])
			}
		}()
	}
	close(startGate)
	wg.Wait()
}

func (w *worker) count(q string, args ...any) int {
	n := -1
	err := sqlitex.ExecuteTransient(w.conn, q, &sqlitex.ExecOptions{Args: args,
		ResultFunc: func(stmt *sqlite.Stmt) error { n = stmt.ColumnInt(0); return nil }})
	if err != nil {
		fmt.Fprintln(os.Stderr, "count:", q, err)
	}
	return n
}

// rowsOfPlan counts the rows that belong to one plan id.
func (w *worker) rowsOfPlan(id uuid.UUID) (c [5]int) {
	c[0] = w.count("SELECT COUNT(*) FROM plans WHERE id = ?;", id.String())
	for i, t := range tables[1:] {
		c[i+1] = w.count("SELECT COUNT(*) FROM "+t+" WHERE plan_id = ?;", id.String())
	}
	return c
}

// traces counts what a rejected Submit left behind: rows under the id the submitted object may have been
// given, a plan row with this case's (unique) plan name, action rows whose request carries this case's nonce.
func (w *worker) traces(it *citem) (c [5]int) {
	if p := it.bS.plan; p != nil && p.ID != uuid.Nil {
		c = w.rowsOfPlan(p.ID)
	}
	if n := w.count("SELECT COUNT(*) FROM plans WHERE name = ?;", it.bS.name); n > c[0] {
		c[0] = n
	}
	if n := w.count("SELECT COUNT(*) FROM actions WHERE CAST(req AS TEXT) LIKE ?;", "%"+it.bS.nonce+"%"); n > c[4] {
		c[4] = n
	}
	return c
}

func concWorkerMain(from, to, par int, dir string) {
	w, err := newWorker(dir)
	if err != nil {
		fmt.Fprintln(os.Stderr, "worker setup:", err)
		os.Exit(4)
	}
	ctx := context.Background()
	var items []*citem
	for i := from; i < to; i++ {
		g := generate(i, w.set)
		it := &citem{g: g, bV: build(g.spec, w.set, false), bS: build(g.spec, w.set, true),
			o: obs{Validate: 3, Submit: 3, Start: 3, Fresh: true}}
		c16lib.SetRegisters(it.bV.plan, w.set.Reg)
		items = append(items, it)
	}
	// large plans go to a second Workstream with an in-memory vault (the id source is process-wide)
	var seenMu gosync.Mutex
	var largeCases []core.Case
	memVault, err := sqlitevault.New(ctx, "", w.set.Reg, sqlitevault.WithInMemory())
	if err != nil {
		fmt.Fprintln(os.Stderr, "in-memory vault:", err)
		os.Exit(4)
	}
	wsLarge, err := coercion.New(ctx, w.set.Reg, memVault)
	if err != nil {
		fmt.Fprintln(os.Stderr, "second workstream:", err)
		os.Exit(4)
	}
	if nLarge > 0 {
		// one deep plan on its own, before anything else runs
		largeCases = append(largeCases, w.submitLarge(wsLarge, "deep-alone", "nothing else running", 1, 100*nLarge/2, 200, &seenMu))
	}
	// phase A: workflow.Validate from `par` goroutines at once
	parallel(items, par, func(it *citem) {
		var err error
		if p := guard(func() { err = workflow.Validate(it.bV.plan) }); p != "" {
			it.o.Validate, it.o.Panic, it.o.Taint = 2, "workflow.Validate: "+p, true
			return
		}
		it.o.Validate = code(err)
		if err != nil {
			it.o.Errs = append(it.o.Errs, "Validate: "+err.Error())
		}
	})
	// phase B: Workstream.Submit from `par` goroutines at once, on ONE Workstream
	before := w.rows()
	largeDone := make(chan []core.Case, 1)
	go func() {
		var cs []core.Case
		if nLarge > 0 {
			// a wide plan and a deep one, submitted while the concurrent batch's Submits are running
			cs = append(cs, w.submitLarge(wsLarge, "wide-during-batch", "the concurrent batch's Submits", 60*nLarge/2, 10, 10, &seenMu))
			cs = append(cs, w.submitLarge(wsLarge, "deep-during-batch", "the concurrent batch's Submits", 1, 40, 150, &seenMu))
		}
		largeDone <- cs
	}()
	parallel(items, par, func(it *citem) {
		var err error
		it.t0 = time.Now()
		if p := guard(func() { it.id, err = w.ws.Submit(ctx, it.bS.plan) }); p != "" {
			it.o.Submit, it.o.Taint = 2, true
			if it.o.Panic == "" {
				it.o.Panic = "Workstream.Submit: " + p
			}
		} else {
			it.o.Submit = code(err)
			if err != nil {
				it.o.Errs = append(it.o.Errs, "Submit: "+err.Error())
			}
		}
		it.t1 = time.Now()
	})
	largeCases = append(largeCases, <-largeDone...)
	after := w.rows()
	// phase C: what each Submit left in the store, per plan
	out := bufio.NewWriterSize(os.Stdout, 1<<20)
	enc := json.NewEncoder(out)
	var expect [5]int
	for _, it := range items {
		storedTerm := "None"
		o := &it.o
		switch o.Submit {
		case 1:
			o.Delta = w.rowsOfPlan(it.id)
			cnt := c16lib.Counts(it.bS.plan)
			for k := range expect {
				expect[k] += cnt[k]
			}
			var sp *workflow.Plan
			sp, storedTerm = w.readBack(it.g.cx, it.id, o)
			if sp != nil {
				o.Stored = true
				o.Flags[0] = sp.ID == it.id
				o.Flags[1] = true
				for _, ob := range c16lib.Objects(sp) {
					if w.seen[*ob.ID()] {
						o.Flags[1] = false
					}
				}
				for _, ob := range c16lib.Objects(sp) {
					w.seen[*ob.ID()] = true
				}
				st := sp.SubmitTime
				o.Flags[2] = !st.Before(it.t0.Add(-time.Second)) && !st.After(it.t1.Add(time.Second))
				for _, ob := range c16lib.Objects(sp) {
					if ob.Kind == c16lib.KAction && ob.InChecks {
						if _, chk, _ := w.set.Lookup(ob.A.Plugin, ob.A.Req); !chk {
							w.start(it.id, o) // a refusal is expected: nothing runs
							break
						}
					}
				}
			}
		default:
			o.Delta = w.traces(it)
		}
		enc.Encode(line{Idx: it.g.spec.Index, Case: mkCase(it.g, *o, storedTerm, "None"), Obs: *o})
	}
	for _, lc := range largeCases {
		enc.Encode(line{Idx: -2, Case: lc})
	}
	// the whole batch: the tables grew by exactly the objects of the accepted plans
	for k := range expect {
		if after[k]-before[k] != expect[k] {
			note := fmt.Sprintf("concurrent batch of %d Submits: the tables %v grew by %v but the accepted plans have %v objects",
				len(items), tables, [5]int{after[0] - before[0], after[1] - before[1], after[2] - before[2], after[3] - before[3], after[4] - before[4]}, expect)
			enc.Encode(line{Idx: -1, Case: core.Case{ID: "c16-batch", Kind: "batch", Note: note}})
			break
		}
	}
	out.Flush()
	os.Exit(0)
}

// ---------------------------------------------------------------- large plans (child; Go-side monitor only)

// largePlan builds a valid plan of nb blocks x ns sequences x na actions (plus a pre-check group per block).
func largePlan(tag string, nb, ns, na int) *workflow.Plan {
	act := func(name string, check bool) *workflow.Action {
		a := &workflow.Action{Name: name, Descr: "d " + name, Plugin: "verif/action", Req: hplug.Req{Nonce: tag, Path: name}}
		if check {
			a.Plugin = "verif/check"
		}
		return a
	}
	p := &workflow.Plan{Name: "large " + tag, Descr: "large plan",
		PreChecks: &workflow.Checks{Actions: []*workflow.Action{act("pc", true)}}}
	for b := 0; b < nb; b++ {
		blk := &workflow.Block{Name: fmt.Sprintf("b%d", b), Descr: "block", Concurrency: 4,
			PreChecks: &workflow.Checks{Actions: []*workflow.Action{act(fmt.Sprintf("b%d-pre", b), true)}}}
		for q := 0; q < ns; q++ {
			sq := &workflow.Sequence{Name: fmt.Sprintf("b%d-s%d", b, q), Descr: "sequence"}
			for a := 0; a < na; a++ {
				sq.Actions = append(sq.Actions, act(fmt.Sprintf("b%d-s%d-a%d", b, q, a), false))
			}
			blk.Sequences = append(blk.Sequences, sq)
		}
		p.Blocks = append(p.Blocks, blk)
	}
	return p
}

type largeObs struct {
	Tag        string   `json:"tag"`
	Shape      [3]int   `json:"shape"`
	Objects    int      `json:"objects"`
	During     string   `json:"during"` // what else was going on in the process
	SubmitOK   bool     `json:"submit_ok"`
	Panic      string   `json:"panic,omitempty"`
	Err        string   `json:"err,omitempty"`
	Dup        int      `json:"duplicate_ids"` // ids of the submitted tree equal to an earlier id of the same tree
	Nil        int      `json:"nil_ids"`
	NotV7      int      `json:"non_v7_ids"`
	SeenBefore int      `json:"ids_seen_before"` // ids some other plan of this process already had
	Readable   bool     `json:"readable"`
	ReadSame   bool     `json:"read_back_same_ids"`
	Millis     int64    `json:"submit_ms"`
	Problems   []string `json:"problems"`
}

// submitLarge submits one large valid plan through the real Submit of ws and judges the ids it was given.
// The monitor is on the Go side: it checks, on the real uuid source, the premise of theorem c16_submit
// (the id supply is injective, never nil, version 7) and the theorem's conclusion for this plan.
func (w *worker) submitLarge(ws *coercion.Workstream, tag, during string, nb, ns, na int, seenMu *gosync.Mutex) core.Case {
	ctx := context.Background()
	p := largePlan(tag, nb, ns, na)
	o := largeObs{Tag: tag, Shape: [3]int{nb, ns, na}, During: during, Objects: len(c16lib.Objects(p))}
	var id uuid.UUID
	var err error
	t0 := time.Now()
	if pn := guard(func() { id, err = ws.Submit(ctx, p) }); pn != "" {
		o.Panic = pn
		o.Problems = append(o.Problems, "Submit of a well-formed plan panicked")
	} else if err != nil {
		o.Err = err.Error()
		o.Problems = append(o.Problems, "Submit rejected a well-formed plan: "+err.Error())
	} else {
		o.SubmitOK = true
	}
	o.Millis = time.Since(t0).Milliseconds()
	// the ids the submitted tree was given (Submit works in place), whatever the vault said afterwards
	own := map[uuid.UUID]bool{}
	assigned := 0
	seenMu.Lock()
	for _, ob := range c16lib.Objects(p) {
		u := *ob.ID()
		if u == uuid.Nil {
			o.Nil++
			continue
		}
		assigned++
		if u.Version() != 7 {
			o.NotV7++
		}
		if own[u] {
			o.Dup++
		} else if w.seen[u] {
			o.SeenBefore++
		}
		own[u] = true
	}
	for u := range own {
		w.seen[u] = true
	}
	seenMu.Unlock()
	if assigned > 0 || o.SubmitOK {
		if o.Dup > 0 {
			o.Problems = append(o.Problems, fmt.Sprintf("%d of the %d objects got an id that another object of the same plan already had", o.Dup, o.Objects))
		}
		if o.Nil > 0 {
			o.Problems = append(o.Problems, fmt.Sprintf("%d objects were left with a nil id", o.Nil))
		}
		if o.NotV7 > 0 {
			o.Problems = append(o.Problems, fmt.Sprintf("%d ids are not version 7", o.NotV7))
		}
		if o.SeenBefore > 0 {
			o.Problems = append(o.Problems, fmt.Sprintf("%d ids had already been given to another plan of this process", o.SeenBefore))
		}
	}
	if o.SubmitOK {
		var sp *workflow.Plan
		var rerr error
		if pn := guard(func() { sp, rerr = ws.Plan(ctx, id) }); pn != "" || rerr != nil || sp == nil {
			o.Problems = append(o.Problems, fmt.Sprintf("the accepted plan cannot be read back: %v %s", rerr, pn))
		} else {
			o.Readable = true
			back := map[uuid.UUID]bool{}
			n := 0
			for _, ob := range c16lib.Objects(sp) {
				back[*ob.ID()] = true
				n++
			}
			o.ReadSame = n == o.Objects && len(back) == len(own)
			for u := range back {
				if !own[u] {
					o.ReadSame = false
				}
			}
			if !o.ReadSame {
				o.Problems = append(o.Problems, fmt.Sprintf("the plan read back has %d objects with %d distinct ids; %d objects with %d distinct ids were submitted", n, len(back), o.Objects, len(own)))
			}
		}
	}
	if o.Problems == nil {
		o.Problems = []string{}
	}
	return core.Case{ID: "c16-large-" + tag, Kind: "large", Nontrivial: true, Hash: core.Hash("large", tag, fmt.Sprint(o.Shape)),
		Dist:     map[string]any{"objects": o.Objects, "family": "large", "during": during, "ok": len(o.Problems) == 0},
		Input:    map[string]any{"seed": core.Seed(), "tag": tag, "blocks": nb, "sequences": ns, "actions": na, "nseq": nSeq, "nsecond": nSecond, "nconc": nConc},
		Observed: o, Note: strings.Join(o.Problems, "; ")}
}

// runConc runs the concurrent batch in a child and returns its lines (and what went wrong, if anything).
func runConc(self, dir string, from, to, par int) (map[int]line, []line, string) {
	cmd := exec.Command(self, "-concworker", "-from", fmt.Sprint(from), "-to", fmt.Sprint(to), "-par", fmt.Sprint(par), "-db", dir,
		"-n", fmt.Sprint(nSeq), "-second", fmt.Sprint(nSecond), "-conc", fmt.Sprint(nConc), "-large", fmt.Sprint(nLarge), "-resub", fmt.Sprint(nResub))
	cmd.Env = os.Environ()
	var stderr, stdout strings.Builder
	cmd.Stderr, cmd.Stdout = &stderr, &stdout
	if err := cmd.Start(); err != nil {
		return nil, nil, err.Error()
	}
	done := make(chan error, 1)
	go func() { done <- cmd.Wait() }()
	problem := ""
	select {
	case err := <-done:
		if err != nil {
			problem = fmt.Sprintf("the child running the concurrent batch exited with %v", err)
		}
	case <-time.After(240 * time.Second):
		cmd.Process.Kill()
		<-done
		problem = "the child running the concurrent batch produced no result within 240 s (hang)"
	}
	got := map[int]line{}
	var extra []line
	sc := bufio.NewScanner(strings.NewReader(stdout.String()))
	sc.Buffer(make([]byte, 1<<20), 1<<28)
	for sc.Scan() {
		var l line
		if json.Unmarshal(sc.Bytes(), &l) == nil {
			if l.Idx < 0 {
				extra = append(extra, l)
			} else {
				got[l.Idx] = l
			}
		}
	}
	if problem != "" {
		tail := stderr.String()
		if len(tail) > 3000 {
			tail = tail[len(tail)-3000:]
		}
		problem += "\n" + tail
	}
	return got, extra, problem
}

// ---------------------------------------------------------------- parent

func main() {
	n := flag.Int("n", 400, "number of sequential cases")
	second := flag.Int("second", 60, "number of second-use cases (groups of 20 Submits of one plan on the same Workstream)")
	conc := flag.Int("conc", 400, "number of cases submitted concurrently on one Workstream")
	par := flag.Int("par", 8, "goroutines of the concurrent batch")
	large := flag.Int("large", 2, "size factor of the large-plan family run with the concurrent batch (0 = none; 2 = 20 000, 6 700 and 6 000 objects)")
	resub := flag.Int("resub", 114, "number of reject-correct-resubmit cases")
	isConc := flag.Bool("concworker", false, "run the concurrent batch in this process (child mode)")
	outp := flag.String("out", "-", "output file (JSONL)")
	isWorker := flag.Bool("worker", false, "run cases in this process (child mode)")
	from := flag.Int("from", 0, "first case (child mode)")
	to := flag.Int("to", 0, "one past the last case (child mode)")
	dir := flag.String("db", "", "directory of the sqlite vault (child mode)")
	startEvery := flag.Int("start-every", 3, "call Start on every k-th accepted plan (0 = only where a refusal is expected)")
	only := flag.Int("only", -1, "run just this case index")
	flag.Parse()
	nSeq, nSecond, nConc, nLarge, nResub = *n, *second, *conc, *large, *resub

	if *isConc {
		concWorkerMain(*from, *to, *par, *dir)
		return
	}
	if *isWorker {
		workerMain(*from, *to, *startEvery, *dir)
		return
	}

	w, err := core.NewWriter(*outp)
	if err != nil {
		fmt.Fprintln(os.Stderr, err)
		os.Exit(2)
	}
	defer w.Close()
	self, err := os.Executable()
	if err != nil {
		fmt.Fprintln(os.Stderr, err)
		os.Exit(2)
	}
	base, err := os.MkdirTemp(".", "c16db-")
	if err != nil {
		fmt.Fprintln(os.Stderr, err)
		os.Exit(2)
	}
	defer os.RemoveAll(base)
	set := c16lib.NewSet()

	lo, hi := 0, nSeq+nSecond
	if *only >= 0 {
		lo, hi = *only, *only+1
		if *only >= nSeq+nSecond {
			lo, hi = 0, 0
		} else if *only >= nSeq {
			lo = *only - (*only-nSeq)%20 // a second-use case is replayed with its group
		}
	}
	children := 0
	seqRange := func(lo, hi int) {
		next := lo
		for next < hi {
			children++
			cmd := exec.Command(self, "-worker", "-from", fmt.Sprint(next), "-to", fmt.Sprint(hi),
				"-db", filepath.Join(base, fmt.Sprintf("w%d", children)), "-start-every", fmt.Sprint(*startEvery),
				"-n", fmt.Sprint(nSeq), "-second", fmt.Sprint(nSecond), "-conc", fmt.Sprint(nConc), "-resub", fmt.Sprint(nResub))
			cmd.Env = os.Environ()
			var stderr strings.Builder
			cmd.Stderr = &stderr
			pipe, err := cmd.StdoutPipe()
			if err != nil {
				fmt.Fprintln(os.Stderr, err)
				os.Exit(2)
			}
			if err := cmd.Start(); err != nil {
				fmt.Fprintln(os.Stderr, err)
				os.Exit(2)
			}
			lines := make(chan line)
			go func() {
				sc := bufio.NewScanner(pipe)
				sc.Buffer(make([]byte, 1<<20), 1<<28)
				for sc.Scan() {
					var l line
					if json.Unmarshal(sc.Bytes(), &l) == nil {
						lines <- l
					}
				}
				close(lines)
			}()
			hung := false
		read:
			for {
				select {
				case l, ok := <-lines:
					if !ok {
						break read
					}
					if l.Idx == next {
						if *only < 0 || l.Idx == *only {
							w.Put(l.Case)
						}
						next++
					}
				case <-time.After(90 * time.Second):
					hung = true
					cmd.Process.Kill()
					break read
				}
			}
			for range lines {
			}
			werr := cmd.Wait()
			code := cmd.ProcessState.ExitCode()
			if next < hi && (hung || (code != 0 && code != 3)) {
				// the child died or hung inside case `next` without reporting it: that is the observation
				g := generate(next, set)
				what := fmt.Sprintf("child process exited with %v (code %d) while running this case", werr, code)
				if hung {
					what = "child process produced nothing for 90 s while running this case (hang)"
				}
				tail := stderr.String()
				if len(tail) > 3000 {
					tail = tail[len(tail)-3000:]
				}
				o := obs{Validate: 4, Submit: 3, Start: 3, Fresh: true, Panic: what + "\n" + tail, Taint: true}
				if *only < 0 || next == *only {
					w.Put(mkCase(g, o, "None", "None"))
				}
				next++
			}
		}
	}
	seqRange(lo, hi)

	// the reject-correct-resubmit family, one case after another in a child of its own
	rfrom, rto := nSeq+nSecond+nConc, nSeq+nSecond+nConc+nResub
	if *only < 0 {
		seqRange(rfrom, rto)
	} else if *only >= rfrom {
		seqRange(*only, *only+1)
	}

	// the concurrent batch, in a child of its own (fresh Workstream, fresh vault)
	cfrom, cto := nSeq+nSecond, nSeq+nSecond+nConc
	if nConc > 0 && (*only < 0 || (*only >= cfrom && *only < cto)) {
		got, extra, problem := runConc(self, filepath.Join(base, "conc"), cfrom, cto, *par)
		missing := 0
		for i := cfrom; i < cto; i++ {
			l, ok := got[i]
			if !ok {
				missing++
				continue
			}
			if *only < 0 || i == *only {
				w.Put(l.Case)
			}
		}
		for _, l := range extra {
			w.Put(l.Case)
		}
		if problem != "" || missing > 0 {
			w.Put(core.Case{ID: "c16-batch-crash", Kind: "batch",
				Note: fmt.Sprintf("concurrent batch: %d of %d cases reported nothing. %s", missing, cto-cfrom, problem)})
		}
	}
}
