// engine: runs generated plans on the real engine and prints one core.Case per plan run (JSONL).
//
//	engine -profile mixed -n 300 -out cases.jsonl [-multi k] [-poll] [-only i,j] [-reps r] [-workers w]
//
// Cases run in CHILD PROCESSES (this binary re-executed with -child): a process in which a case hung, leaked a
// goroutine or showed activity after release is discarded and a fresh one started; a hang is re-run up to 3
// times in fresh children before it is reported. Every random choice derives from VERIF_SEED, the profile and
// the case index, so `-only i` replays exactly that case.
package main

import (
	"bufio"
	"encoding/json"
	"flag"
	"fmt"
	"os"
	"os/exec"
	"runtime"
	"sort"
	"strconv"
	"strings"
	"sync"
	"time"

	"verifharness/core"
	"verifharness/engine"
)

type job struct {
	Idx     []int          `json:"idx"`
	Profile string         `json:"profile"`
	Poll    bool           `json:"poll"`
	Opts    engine.Options `json:"opts"`
}

func childMain() {
	if ms := envInt("VERIF_WAIT_MS", 0); ms > 0 { // test hook: shorten the Wait deadline
		engine.WaitDeadline = time.Duration(ms) * time.Millisecond
	}
	runtime.GOMAXPROCS(max(2, envInt("VERIF_CHILD_PROCS", 4)))
	in := bufio.NewScanner(os.Stdin)
	in.Buffer(make([]byte, 1<<20), 1<<20)
	out := bufio.NewWriter(os.Stdout)
	seed := core.Seed()
	for in.Scan() {
		var j job
		if err := json.Unmarshal(in.Bytes(), &j); err != nil {
			continue
		}
		if f := os.Getenv("VERIF_TEST_DIE_FILE"); f != "" { // test hook for the death re-run policy: die once
			if _, err := os.Stat(f); err != nil {
				os.WriteFile(f, []byte("x"), 0o644)
				fmt.Fprintln(os.Stderr, "test hook: simulated fatal error, dying once")
				os.Exit(3)
			}
		}
		specs := make([]*engine.Spec, len(j.Idx))
		for k, i := range j.Idx {
			specs[k] = engine.Generate(seed, j.Profile, i, j.Opts)
			if j.Poll {
				specs[k].Poll = true
			}
		}
		res := engine.RunGroup(specs, seed, j.Opts)
		b, _ := json.Marshal(res)
		out.Write(b)
		out.WriteByte('\n')
		out.Flush()
	}
}

func tail(s string, n int) string {
	if len(s) > n {
		return "..." + s[len(s)-n:]
	}
	return s
}

func envInt(k string, d int) int {
	if v, err := strconv.Atoi(os.Getenv(k)); err == nil && v > 0 {
		return v
	}
	return d
}

type child struct {
	cmd  *exec.Cmd
	in   *bufio.Writer
	out  *bufio.Scanner
	errb *tailBuf
}

// tailBuf keeps the last bytes the child wrote to stderr (a Go panic / log.Fatalf message ends up there).
type tailBuf struct {
	mu sync.Mutex
	b  []byte
}

func (t *tailBuf) Write(p []byte) (int, error) {
	t.mu.Lock()
	t.b = append(t.b, p...)
	if len(t.b) > 16000 {
		t.b = t.b[len(t.b)-16000:]
	}
	t.mu.Unlock()
	return len(p), nil
}

func (t *tailBuf) String() string {
	t.mu.Lock()
	defer t.mu.Unlock()
	return string(t.b)
}

func startChild() (*child, error) {
	cmd := exec.Command(os.Args[0], "-child")
	cmd.Env = os.Environ()
	eb := &tailBuf{}
	cmd.Stderr = eb
	ip, err := cmd.StdinPipe()
	if err != nil {
		return nil, err
	}
	op, err := cmd.StdoutPipe()
	if err != nil {
		return nil, err
	}
	if err := cmd.Start(); err != nil {
		return nil, err
	}
	sc := bufio.NewScanner(op)
	sc.Buffer(make([]byte, 1<<20), 1<<28)
	return &child{cmd: cmd, in: bufio.NewWriter(ip), out: sc, errb: eb}, nil
}

func (c *child) kill() {
	if c != nil && c.cmd.Process != nil {
		c.cmd.Process.Kill()
		c.cmd.Wait()
	}
}

// run sends one job; nil result = the child died (died = true: its output ended) or did not answer in time.
func (c *child) run(j job, timeout time.Duration) (res []engine.Result, died bool) {
	b, _ := json.Marshal(j)
	c.in.Write(b)
	c.in.WriteByte('\n')
	if c.in.Flush() != nil {
		return nil, true
	}
	ch := make(chan []engine.Result, 1)
	go func() {
		if c.out.Scan() {
			var res []engine.Result
			if json.Unmarshal(c.out.Bytes(), &res) == nil {
				ch <- res
				return
			}
		}
		ch <- nil
	}()
	select {
	case r := <-ch:
		return r, r == nil
	case <-time.After(timeout):
		return nil, false
	}
}

func main() {
	isChild := flag.Bool("child", false, "internal: run jobs from stdin")
	profile := flag.String("profile", "mixed", "generator profile: "+strings.Join(engine.Profiles, "|")+"|finalfn")
	n := flag.Int("n", 300, "number of plan runs")
	from := flag.Int("from", 0, "first case index")
	out := flag.String("out", "-", "output file (JSONL)")
	multi := flag.Int("multi", 1, "run this many plans concurrently on one Workstream")
	poll := flag.Bool("poll", false, "poll Workstream.Plan every ~200us and log distinct snapshots as EvRead")
	only := flag.String("only", "", "comma separated case indices to run (replay)")
	reps := flag.Int("reps", 1, "repeat every case this many times (replay of schedule-dependent cases)")
	deferred := flag.Float64("deferred", 0, "every scope without a deferred group gets one with this probability (0 = the profiles as they are)")
	racestart := flag.Int("racestart", 0, "k >= 2: call Workstream.Start from k goroutines released together (exactly one must succeed)")
	cancelctx := flag.Float64("cancelctx", 0.5, "probability that Start gets a context which is cancelled 0-3 ms after Start returned (must not affect execution)")
	workers := flag.Int("workers", 0, "child processes (default: min(16, NumCPU))")
	flag.Parse()
	if *isChild {
		childMain()
		return
	}
	if *profile == "finalfn" { // direct correspondence of Final.v with finalStates: pure function, no child needed
		w, err := core.NewWriter(*out)
		if err != nil {
			fmt.Fprintln(os.Stderr, err)
			os.Exit(2)
		}
		for _, c := range engine.FinalFn(core.Seed(), *from, *n) {
			w.Put(c)
		}
		w.Close()
		return
	}
	ok := false
	for _, p := range engine.Profiles {
		ok = ok || p == *profile
	}
	if !ok {
		fmt.Fprintln(os.Stderr, "unknown profile", *profile)
		os.Exit(2)
	}
	w, err := core.NewWriter(*out)
	if err != nil {
		fmt.Fprintln(os.Stderr, err)
		os.Exit(2)
	}
	defer w.Close()

	var idx []int
	if *only != "" {
		for _, s := range strings.Split(*only, ",") {
			if v, err := strconv.Atoi(strings.TrimSpace(s)); err == nil {
				for k := 0; k < *reps; k++ {
					idx = append(idx, v)
				}
			}
		}
	} else {
		for i := 0; i < *n; i++ {
			for k := 0; k < *reps; k++ {
				idx = append(idx, *from+i)
			}
		}
	}
	var jobs []job
	for i := 0; i < len(idx); i += max(1, *multi) {
		jobs = append(jobs, job{Idx: idx[i:min(len(idx), i+max(1, *multi))], Profile: *profile, Poll: *poll, Opts: engine.Options{DeferredP: *deferred, RaceStart: *racestart, CancelCtxP: *cancelctx}})
	}
	nw := *workers
	if nw <= 0 {
		nw = min(16, runtime.NumCPU())
	}
	nw = max(1, min(nw, len(jobs)))

	type done struct {
		pos int
		res []engine.Result
	}
	results := make([][]engine.Result, len(jobs))
	next := make(chan int, len(jobs))
	for i := range jobs {
		next <- i
	}
	close(next)
	var wg sync.WaitGroup
	var statMu sync.Mutex
	stats := map[string]int{}
	for k := 0; k < nw; k++ {
		wg.Add(1)
		go func() {
			defer wg.Done()
			var c *child
			defer func() { c.kill() }()
			for pos := range next {
				var final []engine.Result
				hangs, lates := 0, 0
				diedOnce, deathStderr := false, ""
				for try := 0; try < 4; try++ {
					if c == nil {
						if c, err = startChild(); err != nil {
							fmt.Fprintln(os.Stderr, "cannot start child:", err)
							os.Exit(2)
						}
					}
					res, died := c.run(jobs[pos], engine.WaitDeadline+20*time.Second)
					taint, hang, late := res == nil, res == nil && !died, false
					stderr := ""
					if res == nil && died {
						c.cmd.Wait()
						stderr = c.errb.String()
					}
					for _, r := range res {
						taint = taint || r.Taint
						hang = hang || r.Hang
						late = late || r.Late
					}
					if taint {
						c.kill()
						c = nil
						statMu.Lock()
						stats["children_discarded"]++
						statMu.Unlock()
					}
					if res == nil { // the child process panicked / exited, or froze: an observation of the case(s) it was running
						res = make([]engine.Result, len(jobs[pos].Idx))
						for q, i := range jobs[pos].Idx {
							sp := engine.Generate(core.Seed(), jobs[pos].Profile, i, jobs[pos].Opts)
							cs := core.Case{ID: fmt.Sprintf("%s-%d", jobs[pos].Profile, i), Kind: "child-froze", Coq: "",
								Note:  "hang: the child process did not answer",
								Dist:  map[string]any{"profile": jobs[pos].Profile},
								Input: map[string]any{"seed": core.Seed(), "index": i, "profile": jobs[pos].Profile, "spec": sp, "opts": jobs[pos].Opts}}
							if died {
								cs.Kind = "panic"
								cs.Note = "panic: the process running the engine died: " + tail(stderr, 3000)
								cs.Observed = map[string]any{"stderr": tail(stderr, 6000)}
								cs.Dist["panic"] = true
							}
							res[q] = engine.Result{Hang: !died, Taint: true, Case: cs}
						}
						if died {
							diedOnce, deathStderr = true, stderr
						}
					}
					final = res
					if hang && hangs < 2 { // re-run a hang up to 3x in fresh children before it is reported
						hangs++
						continue
					}
					if late && !hang && lates < 2 { // a plugin entered after its deadline: machine load, not the engine
						lates++
						continue
					}
					break
				}
				if diedOnce {
					// The child died while running this job. Re-run its cases in fresh children, 3 rounds. If a round
					// dies again the death is reported (kind "panic"); otherwise a marker case (kind
					// "child-death-unreproduced") is emitted together with the traces of ALL re-run rounds, which are
					// checked like any other trace.
					var extra []engine.Result
					again := ""
					for round := 1; round <= 3 && again == ""; round++ {
						if c == nil {
							if c, err = startChild(); err != nil {
								fmt.Fprintln(os.Stderr, "cannot start child:", err)
								os.Exit(2)
							}
						}
						res, died := c.run(jobs[pos], engine.WaitDeadline+20*time.Second)
						if res == nil {
							if died {
								c.cmd.Wait()
								again = fmt.Sprintf("died again in re-run round %d: %s", round, tail(c.errb.String(), 3000))
							} else {
								again = fmt.Sprintf("froze in re-run round %d", round)
							}
							c.kill()
							c = nil
							break
						}
						taint := false
						for q := range res {
							taint = taint || res[q].Taint
							res[q].Case.ID += fmt.Sprintf("-deathrerun%d", round)
							if res[q].Case.Dist == nil {
								res[q].Case.Dist = map[string]any{}
							}
							res[q].Case.Dist["death_rerun"] = round
						}
						if taint {
							c.kill()
							c = nil
						}
						extra = append(extra, res...)
					}
					statMu.Lock()
					if again != "" {
						stats["panics"]++
						for q := range final {
							final[q].Case.Note += "\n" + again
						}
					} else {
						stats["child_deaths_unreproduced"]++
						ids := make([]string, len(final))
						for q := range final {
							ids[q] = final[q].Case.ID
						}
						marker := engine.Result{Case: core.Case{ID: final[0].Case.ID + "-death", Kind: "child-death-unreproduced", Coq: "",
							Note:     "child-died-once: " + tail(deathStderr, 3000),
							Dist:     map[string]any{"profile": jobs[pos].Profile, "child_death_unreproduced": true},
							Input:    map[string]any{"seed": core.Seed(), "profile": jobs[pos].Profile, "indices": jobs[pos].Idx, "opts": jobs[pos].Opts, "cases": ids},
							Observed: map[string]any{"stderr": tail(deathStderr, 6000), "rerun_rounds": 3, "rerun_cases": len(extra)}}}
						final = append([]engine.Result{marker}, extra...)
					}
					statMu.Unlock()
				}
				for q := range final {
					if final[q].Case.Dist == nil {
						final[q].Case.Dist = map[string]any{}
					}
					if in, ok := final[q].Case.Input.(map[string]any); ok {
						in["opts"] = jobs[pos].Opts
						in["poll"] = jobs[pos].Poll
					}
					final[q].Case.Dist["hang_reruns"] = hangs
					final[q].Case.Dist["late_reruns"] = lates
					if final[q].Late {
						final[q].Case.Dist["late_start"] = true
					}
				}
				results[pos] = final
			}
		}()
	}
	wg.Wait()
	total, hangs := 0, 0
	for _, rs := range results {
		for _, r := range rs {
			w.Put(r.Case)
			total++
			if r.Hang {
				hangs++
			}
		}
	}
	keys := make([]string, 0, len(stats))
	for k := range stats {
		keys = append(keys, k)
	}
	sort.Strings(keys)
	fmt.Fprintf(os.Stderr, "engine: profile=%s runs=%d hangs=%d", *profile, total, hangs)
	for _, k := range keys {
		fmt.Fprintf(os.Stderr, " %s=%d", k, stats[k])
	}
	fmt.Fprintln(os.Stderr)
}
