// c18: drives workflow/utils/clone on plans crafted into five execution states (fresh, submitted, running,
// completed, failed), for the five object kinds and the four option sets of keep-secrets x keep-state.
// Per case it prints the original and every clone as labelled Coq terms (labels = interned addresses),
// what workflow.Validate and a real Submit (in-memory sqlite Workstream) said about the clone, and the
// verdicts of the Go-side monitors: address-range overlap between clone and original, mutate-everything
// in the clone / observe the original and vice versa, panics.
package main

import (
	"context"
	"flag"
	"fmt"
	"os"
	"reflect"
	"runtime"
	"runtime/debug"
	"sort"
	"strings"
	"time"

	"verifharness/c18x"
	"verifharness/core"
	"verifharness/hplug"
	"verifharness/plancoq"
	"verifharness/plangen"

	"github.com/element-of-surprise/coercion"
	"github.com/element-of-surprise/coercion/workflow"
	"github.com/element-of-surprise/coercion/workflow/storage/sqlite"
	"github.com/element-of-surprise/coercion/workflow/utils/clone"
)

var kinds = []string{"plan", "block", "sequence", "plan", "checks", "action"}

type built struct {
	plan     *workflow.Plan
	obj      workflow.Object
	kind     string
	mode     string
	stream   string
	did      []string
	secure   int
	opts     plangen.Opts
	isCheckA bool // obj is an action of a checks group
	metaShape string
}

func allChecks(p *workflow.Plan) []*workflow.Checks {
	var all []*workflow.Checks
	add := func(cs ...*workflow.Checks) {
		for _, c := range cs {
			if c != nil {
				all = append(all, c)
			}
		}
	}
	add(p.BypassChecks, p.PreChecks, p.ContChecks, p.PostChecks, p.DeferredChecks)
	for _, b := range p.Blocks {
		if b != nil {
			add(b.BypassChecks, b.PreChecks, b.ContChecks, b.PostChecks, b.DeferredChecks)
		}
	}
	return all
}

// pick selects the object of the wanted kind (falling back to the plan when there is none).
func pick(r *core.Rand, b *built) {
	p := b.plan
	b.obj = p
	var blocks []*workflow.Block
	for _, x := range p.Blocks {
		if x != nil {
			blocks = append(blocks, x)
		}
	}
	var seqs []*workflow.Sequence
	for _, x := range blocks {
		for _, s := range x.Sequences {
			if s != nil {
				seqs = append(seqs, s)
			}
		}
	}
	switch b.kind {
	case "block":
		if len(blocks) > 0 {
			b.obj = blocks[r.Intn(len(blocks))]
			return
		}
	case "sequence":
		if len(seqs) > 0 {
			b.obj = seqs[r.Intn(len(seqs))]
			return
		}
	case "checks":
		if cs := allChecks(p); len(cs) > 0 {
			b.obj = cs[r.Intn(len(cs))]
			return
		}
	case "action":
		var as []*workflow.Action
		var chk []bool
		for _, s := range seqs {
			for _, a := range s.Actions {
				if a != nil {
					as, chk = append(as, a), append(chk, false)
				}
			}
		}
		for _, c := range allChecks(p) {
			for _, a := range c.Actions {
				if a != nil {
					as, chk = append(as, a), append(chk, true)
				}
			}
		}
		if len(as) > 0 {
			j := r.Intn(len(as))
			b.obj, b.isCheckA = as[j], chk[j]
			return
		}
	}
	b.kind = "plan"
}

// build is a pure function of (seed, i): calling it again yields an identical, unshared original.
func build(root *core.Rand, i int, set *hplug.Set, big bool) *built {
	r := root.Fork(uint64(i))
	b := &built{kind: kinds[i%len(kinds)], mode: c18x.Modes[(i/len(kinds))%len(c18x.Modes)], stream: "regular"}
	if i%5 == 4 {
		b.stream = "irregular"
	}
	// shape parameters come from the PRNG (not from the index) so that they are independent of kind and mode
	b.opts = plangen.Opts{GroupP: []float64{0.15, 0.35, 0.6}[r.Intn(3)], MaxBlocks: r.Range(1, 2), MaxSeqs: r.Range(1, 2), MaxActions: r.Range(1, 3), KeyP: 0.3, AltP: 0.3}
	if big {
		b.opts.MaxBlocks, b.opts.MaxSeqs = r.Range(1, 3), r.Range(1, 3)
	}
	g := plangen.New(r, b.opts)
	b.plan = g.Plan()
	strict := 0.0
	if i%5 == 3 {
		strict = 0.5
	}
	b.secure = c18x.AddSecure(r, b.plan, 0.35, strict, g.Nonce)
	b.metaShape = c18x.Reshape(r, b.plan)
	if b.stream == "irregular" {
		b.did = c18x.Irregular(r, b.plan, i/5)
	}
	c18x.Decorate(r, b.plan, b.mode, set.Reg)
	if b.stream == "irregular" && b.mode != "fresh" && r.Chance(0.5) {
		// an empty, non-nil attempts slice somewhere
		for _, s := range b.plan.Blocks {
			if s != nil && len(s.Sequences) > 0 && s.Sequences[0] != nil && len(s.Sequences[0].Actions) > 0 && s.Sequences[0].Actions[0] != nil {
				s.Sequences[0].Actions[0].Attempts = make([]*workflow.Attempt, 0, r.Intn(2)*4)
				b.did = append(b.did, "attempts=empty")
				break
			}
		}
	}
	pick(r, b)
	return b
}

// optionLists gives every way the option set {keep-secrets if ks, keep-state if st} can be passed: every order,
// and with an option repeated. The specification is the set (the model's option record is two booleans).
func optionLists(ks, st bool) [][]clone.Option {
	S, T := clone.WithKeepSecrets, clone.WithKeepState
	switch {
	case ks && st:
		return [][]clone.Option{{S(), T()}, {T(), S()}, {S(), T(), S()}, {T(), S(), T()}, {T(), T(), S()}, {S(), S(), T()}}
	case ks:
		return [][]clone.Option{{S()}, {S(), S()}}
	case st:
		return [][]clone.Option{{T()}, {T(), T()}}
	}
	return [][]clone.Option{nil}
}

func cloneOpts(ks, st bool, variant int) []clone.Option {
	ls := optionLists(ks, st)
	return ls[variant%len(ls)]
}

var ctxKinds = []string{"live", "cancelled", "deadline-passed", "cancelled-during-call"}

// mkCtx builds the Context a clone function is called with. The property has no exception for the state of
// that Context: a clone made under a cancelled or expired Context must be the clone made under a live one.
func mkCtx(kind int) (context.Context, func()) {
	switch kind % 4 {
	case 1:
		ctx, cancel := context.WithCancel(context.Background())
		cancel()
		return ctx, func() {}
	case 2:
		ctx, cancel := context.WithDeadline(context.Background(), time.Now().Add(-time.Second))
		return ctx, cancel
	case 3:
		// cancelled from another goroutine while the call is (probably) running: best effort
		ctx, cancel := context.WithCancel(context.Background())
		go func() {
			runtime.Gosched()
			cancel()
		}()
		return ctx, cancel
	}
	return context.Background(), func() {}
}

// doClone calls the real clone function of the object's kind under a Context of the given kind.
// A nil result is returned as a nil Object.
func doClone(obj workflow.Object, ks, st bool, ctxKind int, variant ...int) (res workflow.Object, panicked string) {
	defer func() {
		if r := recover(); r != nil {
			res, panicked = nil, fmt.Sprintf("%v\n%s", r, debug.Stack())
		}
	}()
	ctx, done := mkCtx(ctxKind)
	defer done()
	v := 0
	if len(variant) > 0 {
		v = variant[0]
	}
	o := cloneOpts(ks, st, v)
	switch x := obj.(type) {
	case *workflow.Plan:
		if c := clone.Plan(ctx, x, o...); c != nil {
			return c, ""
		}
	case *workflow.Block:
		if c := clone.Block(ctx, x, o...); c != nil {
			return c, ""
		}
	case *workflow.Sequence:
		if c := clone.Sequence(ctx, x, o...); c != nil {
			return c, ""
		}
	case *workflow.Checks:
		if c := clone.Checks(ctx, x, o...); c != nil {
			return c, ""
		}
	case *workflow.Action:
		if c := clone.Action(ctx, x, o...); c != nil {
			return c, ""
		}
	}
	return nil, ""
}

func dummyBlock() *workflow.Block {
	return &workflow.Block{Name: "wrapper block", Descr: "wrapper", Sequences: []*workflow.Sequence{{Name: "wrapper seq", Descr: "wrapper",
		Actions: []*workflow.Action{{Name: "wrapper action", Descr: "wrapper", Plugin: hplug.ActionName, Req: hplug.Req{Nonce: "w"}}}}}}
}

// wrap puts a cloned sub-object into a minimal plan that is valid but for the object itself.
func wrap(obj workflow.Object, isCheckA bool) *workflow.Plan {
	w := &workflow.Plan{Name: "wrapper plan", Descr: "wrapper"}
	switch x := obj.(type) {
	case *workflow.Plan:
		return x
	case *workflow.Block:
		w.Blocks = []*workflow.Block{x}
	case *workflow.Sequence:
		w.Blocks = []*workflow.Block{{Name: "wrapper block", Descr: "wrapper", Sequences: []*workflow.Sequence{x}}}
	case *workflow.Checks:
		w.PreChecks = x
		w.Blocks = []*workflow.Block{dummyBlock()}
	case *workflow.Action:
		if isCheckA {
			w.PostChecks = &workflow.Checks{Actions: []*workflow.Action{x}}
			w.Blocks = []*workflow.Block{dummyBlock()}
		} else {
			s := &workflow.Sequence{Name: "wrapper seq", Descr: "wrapper", Actions: []*workflow.Action{x}}
			w.Blocks = []*workflow.Block{{Name: "wrapper block", Descr: "wrapper", Sequences: []*workflow.Sequence{s}}}
		}
	}
	return w
}

func actionsOf(p *workflow.Plan) []*workflow.Action {
	var as []*workflow.Action
	for _, c := range allChecks(p) {
		as = append(as, c.Actions...)
	}
	for _, b := range p.Blocks {
		if b == nil {
			continue
		}
		for _, s := range b.Sequences {
			if s != nil {
				as = append(as, s.Actions...)
			}
		}
	}
	return as
}

func objActions(obj workflow.Object) []*workflow.Action {
	var as []*workflow.Action
	switch x := obj.(type) {
	case *workflow.Plan:
		as = actionsOf(x)
	case *workflow.Block:
		as = actionsOf(&workflow.Plan{Blocks: []*workflow.Block{x}})
	case *workflow.Sequence:
		as = x.Actions
	case *workflow.Checks:
		as = x.Actions
	case *workflow.Action:
		as = []*workflow.Action{x}
	}
	var out []*workflow.Action
	for _, a := range as {
		if a != nil {
			out = append(out, a)
		}
	}
	return out
}

func validates(set *hplug.Set, w *workflow.Plan) (ok bool, msg string) {
	defer func() {
		if r := recover(); r != nil {
			ok, msg = false, fmt.Sprintf("panic: %v", r)
		}
	}()
	for _, a := range actionsOf(w) {
		if a != nil && !a.HasRegister() {
			a.SetRegister(set.Reg)
		}
	}
	if err := workflow.Validate(w); err != nil {
		return false, err.Error()
	}
	return true, ""
}

func submits(ws *coercion.Workstream, w *workflow.Plan) (ok bool, msg string) {
	defer func() {
		if r := recover(); r != nil {
			ok, msg = false, fmt.Sprintf("panic: %v", r)
		}
	}()
	if _, err := ws.Submit(context.Background(), w); err != nil {
		return false, err.Error()
	}
	return true, ""
}

type obsOut struct {
	KeepSecrets bool   `json:"keep_secrets"`
	KeepState   bool   `json:"keep_state"`
	Ctx         string `json:"context"`
	OptList     int    `json:"option_list"`
	Nil         bool   `json:"nil_result"`
	Validate    bool   `json:"validate_ok"`
	ValidateMsg string `json:"validate_msg,omitempty"`
	Submit      bool   `json:"submit_ok"`
	SubmitMsg   string `json:"submit_msg,omitempty"`
	Go          int    `json:"go_monitor"`
	GoMsg       string `json:"go_msg,omitempty"`
	Nodes       int    `json:"clone_nodes"`
	Writes      int    `json:"mutations"`
}

func main() {
	n := flag.Int("n", 180, "number of cases")
	out := flag.String("out", "-", "output file (JSONL)")
	big := flag.Bool("big", false, "larger shapes")
	only := flag.Int("only", -1, "run only this case index")
	flag.Parse()

	w, err := core.NewWriter(*out)
	if err != nil {
		fmt.Fprintln(os.Stderr, err)
		os.Exit(2)
	}
	defer w.Close()
	root := core.NewRand(core.Seed())
	set := hplug.NewSet()
	set.Reg.MustRegister(c18x.SecPlugin{})
	look := c18x.Lookup(set)

	ctx := context.Background()
	vault, err := sqlite.New(ctx, "", set.Reg, sqlite.WithInMemory())
	if err != nil {
		fmt.Fprintln(os.Stderr, "sqlite:", err)
		os.Exit(2)
	}
	ws, err := coercion.New(ctx, set.Reg, vault)
	if err != nil {
		fmt.Fprintln(os.Stderr, "workstream:", err)
		os.Exit(2)
	}

	for i := 0; i < *n; i++ {
		if *only >= 0 && i != *only {
			continue
		}
		b := build(root, i, set, *big)
		cx := plancoq.NewCtx(look)
		lab := c18x.NewLabels()
		lp := c18x.NewLP(cx, lab)

		origTerm := lp.LObj(b.obj)
		var origRegions []c18x.Region
		c18x.Regions(reflect.ValueOf(b.obj), "orig", &origRegions)
		selfcheck := ""
		for _, rg := range origRegions {
			if !lp.Addrs[rg.Start] {
				selfcheck = "original: reflect walk found " + rg.Kind + " " + rg.Path + " that the labelled term does not contain"
			}
		}
		origDump := c18x.Dump(b.obj)
		origNodes := len(origRegions)

		// registry and scrub tables over every request / response of the original
		regT, scrT := map[string]bool{}, map[string]bool{}
		addReg := func(plugin string, req any) {
			v := "None"
			if r, chk, acc := look(plugin, req); r {
				v = core.Some(core.Pair(core.B(chk), core.B(acc)))
			}
			regT[core.Sprintf("(%s, %s, %s)", cx.Tok(plugin), cx.Blob(req), v)] = true
		}
		addScr := func(v any) {
			if c18x.HasSecure(v) {
				a, s := cx.Blob(v), cx.Blob(c18x.Scrub(v))
				if a != s {
					scrT[core.Pair(a, s)] = true
				}
			}
		}
		nAtt, nErr, nWrapped := 0, 0, 0
		for _, a := range objActions(b.obj) {
			addReg(a.Plugin, a.Req)
			addReg(a.Plugin, c18x.Scrub(a.Req))
			addScr(a.Req)
			for _, at := range a.Attempts {
				nAtt++
				addScr(at.Resp)
				if at.Err != nil {
					nErr++
					if at.Err.Wrapped != nil {
						nWrapped++
					}
				}
			}
		}
		keysOf := func(m map[string]bool) []string {
			ks := make([]string, 0, len(m))
			for k := range m {
				ks = append(ks, k)
			}
			sort.Strings(ks)
			return ks
		}

		var obsTerms []string
		var obsOuts []obsOut
		// every printed clone stays reachable until the case is written: an address is never reused within a
		// case, so equal labels always mean shared memory and the terms are reproducible
		var alive []any
		var notes []string
		for _, ks := range []bool{false, true} {
			for _, st := range []bool{false, true} {
				// the Context kind rotates with the case and the option set: a case sees all four kinds, a run
				// sees every (object kind, option set, Context kind) combination
				ck := (i/6 + len(obsOuts)) % 4
				ov := (i/6 + i/24) % len(optionLists(ks, st)) // the order / repetition the options are passed in rotates too
				oo := obsOut{KeepSecrets: ks, KeepState: st, Ctx: ctxKinds[ck], OptList: ov}
				fail := func(code int, msg string) {
					if oo.Go == 0 {
						oo.Go, oo.GoMsg = code, msg
					}
				}
				c, pan := doClone(b.obj, ks, st, ck, ov)
				alive = append(alive, c)
				if pan != "" {
					fail(4, "clone panicked: "+pan)
				}
				cloneTerm := "None"
				if c != nil {
					lp.Reset()
					func() {
						defer func() {
							if r := recover(); r != nil {
								fail(6, fmt.Sprintf("the clone is outside the modelled domain: %v", r))
							}
						}()
						cloneTerm = core.Some(lp.LObj(c))
					}()
					var cr []c18x.Region
					c18x.Regions(reflect.ValueOf(c), "clone", &cr)
					oo.Nodes = len(cr)
					for _, rg := range cr {
						if !lp.Addrs[rg.Start] {
							selfcheck = "clone: reflect walk found " + rg.Kind + " " + rg.Path + " that the labelled term does not contain"
						}
					}
					if ov := c18x.Overlap(cr, origRegions); ov != "" {
						fail(1, ov)
					}
				} else {
					oo.Nil = true
				}

				// the clone must not depend on the Context: under every kind of Context the same clone as under a live one
				liveC, _ := doClone(b.obj, ks, st, 0)
				liveDump := c18x.Dump(liveC)
				for k := 1; k < 4; k++ {
					ck2, pan2 := doClone(b.obj, ks, st, k)
					if pan2 != "" {
						fail(4, "clone panicked under a "+ctxKinds[k]+" context: "+pan2)
					} else if d := c18x.FirstDiff(liveDump, c18x.Dump(ck2)); d != "" {
						fail(7, "the clone made under a "+ctxKinds[k]+" context differs from the one made under a live context: "+d)
					}
				}

				// nor on the order in which the options are passed, nor on an option being repeated
				for v := range optionLists(ks, st) {
					cv, panv := doClone(b.obj, ks, st, 0, v)
					if panv != "" {
						fail(4, fmt.Sprintf("clone panicked with option list #%d: %s", v, panv))
					} else if d := c18x.FirstDiff(liveDump, c18x.Dump(cv)); d != "" {
						fail(8, fmt.Sprintf("the clone made with option list #%d (another order / a repeated option) differs from the one made with list #0: %s", v, d))
					}
				}

				// Validate and Submit, each on a clone of its own
				if c2, _ := doClone(b.obj, ks, st, ck, ov); c2 != nil {
					oo.Validate, oo.ValidateMsg = validates(set, wrap(c2, b.isCheckA))
				}
				if c3, _ := doClone(b.obj, ks, st, ck, ov); c3 != nil {
					oo.Submit, oo.SubmitMsg = submits(ws, wrap(c3, b.isCheckA))
					if d := c18x.FirstDiff(origDump, c18x.Dump(b.obj)); d != "" {
						fail(5, "submitting the clone changed the original: "+d)
					}
				}

				// destructive monitors run on identical rebuilds of the original, so that the original whose term
				// is printed is never written to by the harness.
				// (a) mutate everything in the clone, observe the original
				bA := build(root, i, set, *big)
				if cA, _ := doClone(bA.obj, ks, st, ck, ov); cA != nil {
					snap := c18x.Dump(bA.obj)
					func() {
						defer func() {
							if r := recover(); r != nil {
								selfcheck = fmt.Sprintf("mutating the clone panicked: %v", r)
							}
						}()
						oo.Writes = c18x.MutateAll(cA)
					}()
					if d := c18x.FirstDiff(snap, c18x.Dump(bA.obj)); d != "" {
						fail(2, "mutating the clone changed the original: "+d)
					}
				}
				// (b) mutate everything in the original, observe its clone
				bB := build(root, i, set, *big)
				if cB, _ := doClone(bB.obj, ks, st, ck, ov); cB != nil {
					snap := c18x.Dump(cB)
					func() {
						defer func() {
							if r := recover(); r != nil {
								selfcheck = fmt.Sprintf("mutating the original panicked: %v", r)
							}
						}()
						c18x.MutateAll(bB.obj)
					}()
					if d := c18x.FirstDiff(snap, c18x.Dump(cB)); d != "" {
						fail(3, "mutating the original changed the clone: "+d)
					}
				}
				if oo.Go != 0 {
					notes = append(notes, fmt.Sprintf("ks=%v st=%v: %s", ks, st, oo.GoMsg))
				}
				obsTerms = append(obsTerms, core.App("Build_obs", core.B(ks), core.B(st), cloneTerm, core.B(oo.Validate), core.B(oo.Submit), core.Nat(oo.Go)))
				obsOuts = append(obsOuts, oo)
			}
		}
		if selfcheck != "" {
			fmt.Fprintf(os.Stderr, "c18 harness self-check failed in case %d: %s\n", i, selfcheck)
			os.Exit(3)
		}
		term := core.App("Build_case", origTerm, core.List(keysOf(regT)), core.List(keysOf(scrT)), core.List(obsTerms))
		cs := core.Case{
			ID:         fmt.Sprintf("clone-%d", i),
			Kind:       b.kind + "/" + b.mode + "/" + b.stream,
			Coq:        term,
			Nontrivial: origNodes > 3,
			Hash:       core.Hash(term),
			Dist: map[string]any{"kind": b.kind, "mode": b.mode, "stream": b.stream, "irregular": b.did, "nodes": origNodes,
				"actions": len(objActions(b.obj)), "secure_reqs": b.secure, "attempts": nAtt, "errors": nErr, "wrapped_errors": nWrapped,
				"labels": lab.Count(), "scrub_entries": len(scrT), "meta_shape": b.metaShape},
			Input:    map[string]any{"seed": core.Seed(), "index": i, "opts": b.opts, "kind": b.kind, "mode": b.mode, "stream": b.stream, "irregular": b.did, "big": *big},
			Observed: obsOuts,
			Note:     strings.Join(notes, " | "),
		}
		w.Put(cs)
		runtime.KeepAlive(alive)
	}
}
