// Package hplug (import path verifharness/c05homonym) is a HOMONYM of verifharness/hplug for the C05 harness: its
// types print as `hplug.Resp` / `*hplug.AltResp` with %T, exactly like the response types the harness plugins
// declare, but they are different reflect.Types. A plugin answering with one of them answers with the WRONG type.
package hplug

// Resp has the same name (and shape) as verifharness/hplug.Resp.
type Resp struct {
	Path  string
	Value int64
	Items []string
}

// AltResp has the same name (and shape) as verifharness/hplug.AltResp.
type AltResp struct {
	Echo string
	M    map[string]int
}
