// Package c16lib holds what the C16 harness needs beyond the shared packages: a plugin whose request
// is only valid after its own Defaults() ran, the registry/lookup of the C16 cases, the enumeration of
// the objects of a (possibly malformed) plan, and the structural mutations.
package c16lib

import (
	"fmt"
	"time"

	"verifharness/core"
	"verifharness/hplug"
	"verifharness/plangen"

	"github.com/element-of-surprise/coercion/plugins"
	"github.com/element-of-surprise/coercion/plugins/registry"
	"github.com/element-of-surprise/coercion/workflow"
	"github.com/element-of-surprise/coercion/workflow/context"
	"github.com/google/uuid"
	"github.com/gostdlib/base/retry/exponential"
)

// ---------------------------------------------------------------- plugin with defaulting request

const DefName = "c16/defreq"

// DReq is valid only when Mode is set; its Defaults method (called by Submit's requestDefaults) sets it.
type DReq struct {
	Nonce string
	Path  string
	Mode  string
}

func (r *DReq) Defaults() {
	if r != nil && r.Mode == "" {
		r.Mode = "std"
	}
}

type DResp struct{ Done bool }

type DefPlugin struct{}

func (DefPlugin) Name() string { return DefName }
func (DefPlugin) Execute(ctx context.Context, req any) (any, *plugins.Error) {
	return DResp{Done: true}, nil
}
func (DefPlugin) ValidateReq(req any) error {
	r, ok := req.(*DReq)
	if !ok || r == nil {
		return fmt.Errorf("want *DReq, got %T", req)
	}
	if r.Mode == "" {
		return fmt.Errorf("mode is required")
	}
	return nil
}
func (DefPlugin) Request() any  { return &DReq{} }
func (DefPlugin) Response() any { return DResp{} }
func (DefPlugin) IsCheck() bool { return false }
func (DefPlugin) RetryPolicy() exponential.Policy {
	return exponential.Policy{InitialInterval: 100 * time.Microsecond, Multiplier: 1.1, MaxInterval: time.Millisecond}
}
func (DefPlugin) Init() error { return nil }

// Set is the registry of the C16 cases: the three shared harness plugins and DefPlugin.
type Set struct {
	H   *hplug.Set
	Reg *registry.Register
	Def DefPlugin
}

func NewSet() *Set {
	h := hplug.NewSet()
	s := &Set{H: h, Reg: h.Reg}
	s.Reg.MustRegister(s.Def)
	return s
}

// Lookup is the harness's own knowledge of how a plugin name is registered and whether that plugin
// accepts req (asked of the harness's own plugin code, not through the code under test).
func (s *Set) Lookup(name string, req any) (registered, isCheck, accepts bool) {
	if name == DefName {
		return true, false, s.Def.ValidateReq(req) == nil
	}
	return s.H.Lookup(name, req)
}

// ---------------------------------------------------------------- objects of a plan

const (
	KPlan = iota
	KChecks
	KBlock
	KSeq
	KAction
)

// Obj is one non-nil object of a plan.
type Obj struct {
	Kind     int
	P        *workflow.Plan
	C        *workflow.Checks
	B        *workflow.Block
	S        *workflow.Sequence
	A        *workflow.Action
	InChecks bool // action directly under a Checks object
	Level    int  // 0 plan, 1 plan group / block, 2 block group / sequence / plan-group action, 3 ..
}

func (o Obj) ID() *uuid.UUID {
	switch o.Kind {
	case KPlan:
		return &o.P.ID
	case KChecks:
		return &o.C.ID
	case KBlock:
		return &o.B.ID
	case KSeq:
		return &o.S.ID
	}
	return &o.A.ID
}

func (o Obj) Key() *uuid.UUID {
	switch o.Kind {
	case KChecks:
		return &o.C.Key
	case KBlock:
		return &o.B.Key
	case KSeq:
		return &o.S.Key
	case KAction:
		return &o.A.Key
	}
	return nil
}

func (o Obj) State() **workflow.State {
	switch o.Kind {
	case KPlan:
		return &o.P.State
	case KChecks:
		return &o.C.State
	case KBlock:
		return &o.B.State
	case KSeq:
		return &o.S.State
	}
	return &o.A.State
}

func (o Obj) NameDescr() (*string, *string) {
	switch o.Kind {
	case KPlan:
		return &o.P.Name, &o.P.Descr
	case KBlock:
		return &o.B.Name, &o.B.Descr
	case KSeq:
		return &o.S.Name, &o.S.Descr
	case KAction:
		return &o.A.Name, &o.A.Descr
	}
	return nil, nil
}

func PlanGroups(p *workflow.Plan) [5]**workflow.Checks {
	return [5]**workflow.Checks{&p.BypassChecks, &p.PreChecks, &p.ContChecks, &p.PostChecks, &p.DeferredChecks}
}
func BlockGroups(b *workflow.Block) [5]**workflow.Checks {
	return [5]**workflow.Checks{&b.BypassChecks, &b.PreChecks, &b.ContChecks, &b.PostChecks, &b.DeferredChecks}
}

// Objects lists every non-nil object reachable from p (the harness's own traversal).
func Objects(p *workflow.Plan) []Obj {
	if p == nil {
		return nil
	}
	out := []Obj{{Kind: KPlan, P: p}}
	acts := func(as []*workflow.Action, inChecks bool, lvl int) {
		for _, a := range as {
			if a != nil {
				out = append(out, Obj{Kind: KAction, A: a, InChecks: inChecks, Level: lvl})
			}
		}
	}
	groups := func(gs [5]**workflow.Checks, lvl int) {
		for _, g := range gs {
			if *g != nil {
				out = append(out, Obj{Kind: KChecks, C: *g, Level: lvl})
				acts((*g).Actions, true, lvl+1)
			}
		}
	}
	groups(PlanGroups(p), 1)
	for _, b := range p.Blocks {
		if b == nil {
			continue
		}
		out = append(out, Obj{Kind: KBlock, B: b, Level: 1})
		groups(BlockGroups(b), 2)
		for _, s := range b.Sequences {
			if s == nil {
				continue
			}
			out = append(out, Obj{Kind: KSeq, S: s, Level: 2})
			acts(s.Actions, false, 3)
		}
	}
	return out
}

// Counts returns the number of plans, blocks, checks, sequences, actions among the objects.
func Counts(p *workflow.Plan) [5]int {
	var c [5]int
	for _, o := range Objects(p) {
		switch o.Kind {
		case KPlan:
			c[0]++
		case KBlock:
			c[1]++
		case KChecks:
			c[2]++
		case KSeq:
			c[3]++
		case KAction:
			c[4]++
		}
	}
	return c
}

// SetRegisters gives every action the registry (what Submit's populateRegistry does), for calling
// workflow.Validate directly.
func SetRegisters(p *workflow.Plan, reg *registry.Register) {
	for _, o := range Objects(p) {
		if o.Kind == KAction {
			o.A.SetRegister(reg)
		}
	}
}

// RegisterSet says whether some action already carries a register.
func RegisterSet(p *workflow.Plan) bool {
	for _, o := range Objects(p) {
		if o.Kind == KAction && o.A.HasRegister() {
			return true
		}
	}
	return false
}

type defaulter interface{ Defaults() }

// CanonRequests prepares a plan for printing: with defaults=true every request that has a Defaults
// method gets it called (what Submit's requestDefaults will do to the submitted twin); empty slices and
// maps inside harness requests become nil (the storage codec does not distinguish them; C13's subject).
func CanonRequests(p *workflow.Plan, defaults bool) {
	for _, o := range Objects(p) {
		if o.Kind != KAction {
			continue
		}
		if defaults {
			if d, ok := o.A.Req.(defaulter); ok {
				d.Defaults()
			}
		}
		if r, ok := o.A.Req.(hplug.Req); ok {
			if len(r.Tags) == 0 {
				r.Tags = nil
			}
			if len(r.KV) == 0 {
				r.KV = nil
			}
			o.A.Req = r
		}
	}
}

// ---------------------------------------------------------------- mutations

// M is the state of mutating one plan.
type M struct {
	R       *core.Rand
	G       *plangen.Gen
	P       *workflow.Plan
	Reg     *registry.Register
	NilPlan bool // Submit(nil) / Validate(nil)
	RegSet  bool // an action got a register (only applied to the Submit twin)
	ForSubmit bool
}

type Kind struct {
	Name  string
	Apply func(m *M) bool // false = no applicable object in this plan
}

func (m *M) pick(pred func(Obj) bool) (Obj, bool) {
	var c []Obj
	for _, o := range Objects(m.P) {
		if pred(o) {
			c = append(c, o)
		}
	}
	if len(c) == 0 {
		return Obj{}, false
	}
	return c[m.R.Intn(len(c))], true
}

func named(o Obj) bool    { return o.Kind != KChecks }
func keyed(o Obj) bool    { return o.Kind != KPlan }
func isAction(o Obj) bool { return o.Kind == KAction }
func anyObj(o Obj) bool   { return true }

func strMut(which int, val string) func(m *M) bool {
	return func(m *M) bool {
		o, ok := m.pick(named)
		if !ok {
			return false
		}
		n, d := o.NameDescr()
		if which == 0 {
			*n = val
		} else {
			*d = val
		}
		return true
	}
}

func actMut(f func(m *M, a *workflow.Action)) func(m *M) bool {
	return func(m *M) bool {
		o, ok := m.pick(isAction)
		if !ok {
			return false
		}
		f(m, o.A)
		return true
	}
}

func actMutWhere(pred func(Obj) bool, f func(m *M, a *workflow.Action)) func(m *M) bool {
	return func(m *M) bool {
		o, ok := m.pick(func(o Obj) bool { return o.Kind == KAction && pred(o) })
		if !ok {
			return false
		}
		f(m, o.A)
		return true
	}
}

// slot is one slice of child pointers.
type slot struct {
	blocks *[]*workflow.Block
	seqs   *[]*workflow.Sequence
	acts   *[]*workflow.Action
}

func (s slot) len() int {
	switch {
	case s.blocks != nil:
		return len(*s.blocks)
	case s.seqs != nil:
		return len(*s.seqs)
	}
	return len(*s.acts)
}

func (m *M) slots() []slot {
	var out []slot
	for _, o := range Objects(m.P) {
		switch o.Kind {
		case KPlan:
			out = append(out, slot{blocks: &o.P.Blocks})
		case KBlock:
			out = append(out, slot{seqs: &o.B.Sequences})
		case KSeq:
			out = append(out, slot{acts: &o.S.Actions})
		case KChecks:
			out = append(out, slot{acts: &o.C.Actions})
		}
	}
	return out
}

func insertAt[T any](s []T, i int, v T) []T {
	s = append(s, v)
	copy(s[i+1:], s[i:])
	s[i] = v
	return s
}

// slotMut: mode 0 = replace one element by nil, 1 = insert a nil element, 2 = slice of one nil,
// 3 = empty non-nil slice, 4 = nil slice.
func slotMut(mode int) func(m *M) bool {
	return func(m *M) bool {
		ss := m.slots()
		if len(ss) == 0 {
			return false
		}
		s := ss[m.R.Intn(len(ss))]
		n := s.len()
		if mode == 0 && n == 0 {
			mode = 1
		}
		i := 0
		if mode == 0 {
			i = m.R.Intn(n)
		} else if mode == 1 {
			i = m.R.Intn(n + 1)
		}
		switch {
		case s.blocks != nil:
			switch mode {
			case 0:
				(*s.blocks)[i] = nil
			case 1:
				*s.blocks = insertAt(*s.blocks, i, nil)
			case 2:
				*s.blocks = []*workflow.Block{nil}
			case 3:
				*s.blocks = []*workflow.Block{}
			case 4:
				*s.blocks = nil
			}
		case s.seqs != nil:
			switch mode {
			case 0:
				(*s.seqs)[i] = nil
			case 1:
				*s.seqs = insertAt(*s.seqs, i, nil)
			case 2:
				*s.seqs = []*workflow.Sequence{nil}
			case 3:
				*s.seqs = []*workflow.Sequence{}
			case 4:
				*s.seqs = nil
			}
		default:
			switch mode {
			case 0:
				(*s.acts)[i] = nil
			case 1:
				*s.acts = insertAt(*s.acts, i, nil)
			case 2:
				*s.acts = []*workflow.Action{nil}
			case 3:
				*s.acts = []*workflow.Action{}
			case 4:
				*s.acts = nil
			}
		}
		return true
	}
}

func (m *M) groupSlots() []**workflow.Checks {
	var out []**workflow.Checks
	for _, o := range Objects(m.P) {
		switch o.Kind {
		case KPlan:
			g := PlanGroups(o.P)
			out = append(out, g[:]...)
		case KBlock:
			g := BlockGroups(o.B)
			out = append(out, g[:]...)
		}
	}
	return out
}

func otherVersion(r *core.Rand) uuid.UUID {
	u := plangen.V7(r)
	v := []byte{1, 2, 3, 4, 5, 6, 8}[r.Intn(7)]
	u[6] = (u[6] & 0x0f) | (v << 4)
	return u
}

func idMut(f func(r *core.Rand) uuid.UUID) func(m *M) bool {
	return func(m *M) bool {
		o, ok := m.pick(anyObj)
		if !ok {
			return false
		}
		*o.ID() = f(m.R)
		return true
	}
}

func keyMut(f func(r *core.Rand) uuid.UUID) func(m *M) bool {
	return func(m *M) bool {
		o, ok := m.pick(keyed)
		if !ok {
			return false
		}
		*o.Key() = f(m.R)
		return true
	}
}

func stateMut(f func() *workflow.State) func(m *M) bool {
	return func(m *M) bool {
		o, ok := m.pick(anyObj)
		if !ok {
			return false
		}
		*o.State() = f()
		return true
	}
}

// dupKey gives two distinct objects the same key; rel selects the pair.
func dupKey(rel string) func(m *M) bool {
	return func(m *M) bool {
		objs := Objects(m.P)
		var pairs [][2]Obj
		for i, a := range objs {
			if !keyed(a) {
				continue
			}
			for _, b := range objs[i+1:] {
				if !keyed(b) {
					continue
				}
				ok := false
				switch rel {
				case "same-kind":
					ok = a.Kind == b.Kind
				case "cross-kind":
					ok = a.Kind != b.Kind
				case "checks":
					ok = a.Kind == KChecks || b.Kind == KChecks
				case "cross-level":
					ok = a.Level != b.Level
				default:
					ok = true
				}
				if ok {
					pairs = append(pairs, [2]Obj{a, b})
				}
			}
		}
		if len(pairs) == 0 {
			return false
		}
		pr := pairs[m.R.Intn(len(pairs))]
		k := *pr[0].Key()
		if k == uuid.Nil || k.Version() != 7 {
			k = *pr[1].Key()
		}
		if k == uuid.Nil || k.Version() != 7 {
			k = plangen.V7(m.R)
		}
		*pr[0].Key() = k
		*pr[1].Key() = k
		return true
	}
}

func timeoutMut(f func(r *core.Rand) time.Duration) func(m *M) bool {
	return actMut(func(m *M, a *workflow.Action) { a.Timeout = f(m.R) })
}

func inSeq(o Obj) bool    { return !o.InChecks }
func inChecks(o Obj) bool { return o.InChecks }
func hasReq(o Obj) bool   { _, ok := o.A.Req.(hplug.Req); return ok }

func blockMut(f func(m *M, b *workflow.Block)) func(m *M) bool {
	return func(m *M) bool {
		o, ok := m.pick(func(o Obj) bool { return o.Kind == KBlock })
		if !ok {
			return false
		}
		f(m, o.B)
		return true
	}
}

func planMut(f func(m *M, p *workflow.Plan)) func(m *M) bool {
	return func(m *M) bool {
		if m.P == nil {
			return false
		}
		f(m, m.P)
		return true
	}
}

// Kinds is the table of structural mutations (each applied at a uniformly chosen applicable object).
var Kinds = []Kind{
	{"name-empty", strMut(0, "")},
	{"name-whitespace", strMut(0, " \t\n ")},
	{"descr-empty", strMut(1, "")},
	{"descr-whitespace", strMut(1, "   ")},
	{"plugin-empty", actMut(func(m *M, a *workflow.Action) { a.Plugin = "" })},
	{"plugin-whitespace", actMut(func(m *M, a *workflow.Action) { a.Plugin = " \t" })},
	{"plugin-unknown", actMut(func(m *M, a *workflow.Action) { a.Plugin = "verif/nosuch" })},
	{"plugin-padded-name", actMut(func(m *M, a *workflow.Action) { a.Plugin = " " + a.Plugin + " " })},
	{"nil-element-replace", slotMut(0)},
	{"nil-element-insert", slotMut(1)},
	{"only-nil-element", slotMut(2)},
	{"empty-slice", slotMut(3)},
	{"nil-slice", slotMut(4)},
	{"empty-group", func(m *M) bool {
		gs := m.groupSlots()
		if len(gs) == 0 {
			return false
		}
		*gs[m.R.Intn(len(gs))] = &workflow.Checks{}
		return true
	}},
	{"drop-group", func(m *M) bool {
		var gs []**workflow.Checks
		for _, g := range m.groupSlots() {
			if *g != nil {
				gs = append(gs, g)
			}
		}
		if len(gs) == 0 {
			return false
		}
		*gs[m.R.Intn(len(gs))] = nil
		return true
	}},
	{"add-group", func(m *M) bool {
		var gs []**workflow.Checks
		for _, g := range m.groupSlots() {
			if *g == nil {
				gs = append(gs, g)
			}
		}
		if len(gs) == 0 {
			return false
		}
		*gs[m.R.Intn(len(gs))] = m.G.Checks("added")
		return true
	}},
	{"nil-plan", func(m *M) bool { m.NilPlan = true; return true }},
	{"id-preset-v7", idMut(plangen.V7)},
	{"id-preset-v4", idMut(plangen.V4)},
	{"state-preset-zero", stateMut(func() *workflow.State { return &workflow.State{} })},
	{"state-preset-running", stateMut(func() *workflow.State { return &workflow.State{Status: workflow.Running} })},
	{"state-preset-times", stateMut(func() *workflow.State {
		return &workflow.State{Start: time.Unix(1700000000, 0), End: time.Unix(1700000001, 0)}
	})},
	{"attempts-empty-nonnil", actMut(func(m *M, a *workflow.Action) { a.Attempts = []*workflow.Attempt{} })},
	{"attempts-one", actMut(func(m *M, a *workflow.Action) {
		a.Attempts = []*workflow.Attempt{{Resp: hplug.Resp{Path: "x"}, Start: time.Unix(1700000000, 0), End: time.Unix(1700000001, 0)}}
	})},
	{"reason-preset", planMut(func(m *M, p *workflow.Plan) {
		p.Reason = []workflow.FailureReason{workflow.FRPreCheck, workflow.FRBlock, workflow.FRPostCheck, workflow.FRContCheck,
			workflow.FRDeferredCheck, workflow.FRStopped, workflow.FRExceedRecovery}[m.R.Intn(7)]
	})},
	{"submit-time-preset", planMut(func(m *M, p *workflow.Plan) { p.SubmitTime = time.Unix(1700000000+int64(m.R.Intn(1000)), 5) })},
	{"register-preset", func(m *M) bool {
		o, ok := m.pick(isAction)
		if !ok {
			return false
		}
		m.RegSet = true
		if m.ForSubmit {
			o.A.SetRegister(m.Reg)
		}
		return true
	}},
	{"key-fresh-v7", keyMut(plangen.V7)},
	{"key-v4", keyMut(plangen.V4)},
	{"key-other-version", keyMut(otherVersion)},
	{"key-dup-same-kind", dupKey("same-kind")},
	{"key-dup-cross-kind", dupKey("cross-kind")},
	{"key-dup-cross-level", dupKey("cross-level")},
	{"key-dup-with-checks", dupKey("checks")},
	{"timeout-1ns", timeoutMut(func(r *core.Rand) time.Duration { return 1 })},
	{"timeout-4.999s", timeoutMut(func(r *core.Rand) time.Duration { return 4999 * time.Millisecond })},
	{"timeout-5s-minus-1ns", timeoutMut(func(r *core.Rand) time.Duration { return 5*time.Second - 1 })},
	{"timeout-below-5s-random", timeoutMut(func(r *core.Rand) time.Duration {
		return time.Duration(1 + r.Uint64()%uint64(5*time.Second-1))
	})},
	{"timeout-exactly-5s", timeoutMut(func(r *core.Rand) time.Duration { return 5 * time.Second })},
	{"timeout-5s-plus-1ns", timeoutMut(func(r *core.Rand) time.Duration { return 5*time.Second + 1 })},
	{"timeout-negative", timeoutMut(func(r *core.Rand) time.Duration {
		return -time.Duration(1 + r.Uint64()%uint64(100*time.Second))
	})},
	{"timeout-zero", timeoutMut(func(r *core.Rand) time.Duration { return 0 })},
	{"timeout-large", timeoutMut(func(r *core.Rand) time.Duration { return time.Duration(1+r.Intn(48)) * time.Hour })},
	{"request-plugin-rejects", actMutWhere(hasReq, func(m *M, a *workflow.Action) {
		r := a.Req.(hplug.Req)
		r.Bad = true
		a.Req = r
	})},
	{"request-wrong-type", actMut(func(m *M, a *workflow.Action) {
		if _, ok := a.Req.(hplug.Req); ok {
			a.Req = hplug.AltReq{Nonce: m.G.Nonce, N: 1}
		} else {
			a.Req = hplug.Req{Nonce: m.G.Nonce}
		}
	})},
	{"request-nil", actMut(func(m *M, a *workflow.Action) { a.Req = nil })},
	{"request-valid-only-after-defaults", actMutWhere(inSeq, func(m *M, a *workflow.Action) {
		a.Plugin = DefName
		a.Req = &DReq{Nonce: m.G.Nonce, Path: "d"}
	})},
	{"request-with-defaults-already-valid", actMutWhere(inSeq, func(m *M, a *workflow.Action) {
		a.Plugin = DefName
		a.Req = &DReq{Nonce: m.G.Nonce, Path: "d", Mode: "custom"}
	})},
	{"non-check-plugin-in-check-group", actMutWhere(inChecks, func(m *M, a *workflow.Action) {
		a.Plugin = hplug.ActionName
		a.Req = hplug.Req{Nonce: m.G.Nonce, Path: "noncheck"}
	})},
	{"check-plugin-in-sequence", actMutWhere(inSeq, func(m *M, a *workflow.Action) {
		a.Plugin = hplug.CheckName
		a.Req = hplug.Req{Nonce: m.G.Nonce, Path: "chk"}
	})},
	{"concurrency-minus-3", blockMut(func(m *M, b *workflow.Block) { b.Concurrency = -3 })},
	{"concurrency-zero", blockMut(func(m *M, b *workflow.Block) { b.Concurrency = 0 })},
	{"retries-minus-5", actMut(func(m *M, a *workflow.Action) { a.Retries = -5 })},
	{"tolerated-failures-negative", blockMut(func(m *M, b *workflow.Block) { b.ToleratedFailures = -1 - m.R.Intn(3) })},
	{"delay-negative", func(m *M) bool {
		o, ok := m.pick(func(o Obj) bool { return o.Kind == KChecks || o.Kind == KBlock })
		if !ok {
			return false
		}
		if o.Kind == KChecks {
			o.C.Delay = -time.Second
		} else {
			o.B.EntranceDelay = -time.Second
		}
		return true
	}},
	{"group-id-v4", planMut(func(m *M, p *workflow.Plan) { p.GroupID = plangen.V4(m.R) })},
	{"meta-set", planMut(func(m *M, p *workflow.Plan) { p.Meta = []byte("meta") })},
}

// Mutate applies the listed kinds in order and returns the names of those that found a target.
func (m *M) Mutate(kinds []int) []string {
	var did []string
	for _, k := range kinds {
		if m.P == nil {
			break
		}
		if Kinds[k].Apply(m) {
			did = append(did, Kinds[k].Name)
		}
	}
	return did
}
