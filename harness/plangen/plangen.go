// Package plangen generates workflow.Plan values from one PRNG state.
package plangen

import (
	"fmt"
	"time"

	"verifharness/core"
	"verifharness/hplug"

	"github.com/element-of-surprise/coercion/workflow"
	"github.com/google/uuid"
)

// Opts bounds the generated shapes. Zero values get defaults.
type Opts struct {
	MaxBlocks, MaxSeqs, MaxActions, MaxCheckActions int
	GroupP                                         float64 // probability that each of the 10 check groups is present
	KeyP                                           float64 // probability that an object carries a (v7) key
	AltP                                           float64 // probability that a sequence action uses the Alt plugin
}

func (o *Opts) defaults() {
	if o.MaxBlocks == 0 {
		o.MaxBlocks = 3
	}
	if o.MaxSeqs == 0 {
		o.MaxSeqs = 3
	}
	if o.MaxActions == 0 {
		o.MaxActions = 3
	}
	if o.MaxCheckActions == 0 {
		o.MaxCheckActions = 2
	}
	if o.GroupP == 0 {
		o.GroupP = 0.4
	}
}

type Gen struct {
	R     *core.Rand
	O     Opts
	Nonce string
	n     int
}

func New(r *core.Rand, o Opts) *Gen {
	o.defaults()
	return &Gen{R: r, O: o, Nonce: fmt.Sprintf("n%016x", r.Uint64())}
}

func (g *Gen) name(kind string) string { g.n++; return fmt.Sprintf("%s-%d", kind, g.n) }

func (g *Gen) key() uuid.UUID {
	if g.R.Chance(g.O.KeyP) {
		return V7(g.R)
	}
	return uuid.Nil
}

// V7 builds a version-7 uuid from the PRNG (deterministic, unlike uuid.NewV7).
func V7(r *core.Rand) uuid.UUID {
	var u uuid.UUID
	a, b := r.Uint64(), r.Uint64()
	for i := 0; i < 8; i++ {
		u[i] = byte(a >> (8 * i))
		u[8+i] = byte(b >> (8 * i))
	}
	u[6] = (u[6] & 0x0f) | 0x70
	u[8] = (u[8] & 0x3f) | 0x80
	return u
}

// V4 builds a version-4 uuid from the PRNG.
func V4(r *core.Rand) uuid.UUID {
	u := V7(r)
	u[6] = (u[6] & 0x0f) | 0x40
	return u
}

func (g *Gen) timeout() time.Duration {
	switch g.R.Intn(4) {
	case 0:
		return 0
	case 1:
		return 5 * time.Second
	default:
		return time.Duration(g.R.Range(5, 120)) * time.Second
	}
}

// Action generates a valid action. check selects the check plugin.
func (g *Gen) Action(check bool, path string) *workflow.Action {
	a := &workflow.Action{
		Key:     g.key(),
		Name:    g.name("action"),
		Descr:   g.name("action descr"),
		Timeout: g.timeout(),
		Retries: g.R.Intn(4),
	}
	switch {
	case check:
		a.Plugin = hplug.CheckName
		a.Req = g.req(path)
	case g.R.Chance(g.O.AltP):
		a.Plugin = hplug.AltName
		a.Req = hplug.AltReq{Nonce: g.Nonce, Path: path, N: g.R.Intn(100)}
	default:
		a.Plugin = hplug.ActionName
		a.Req = g.req(path)
	}
	return a
}

func (g *Gen) req(path string) hplug.Req {
	r := hplug.Req{Nonce: g.Nonce, Path: path, Arg: int64(g.R.Intn(1000))}
	if g.R.Chance(0.3) {
		r.Tags = []string{g.name("tag")}
	}
	if g.R.Chance(0.2) {
		r.KV = map[string]string{"k": g.name("v")}
	}
	return r
}

func (g *Gen) Checks(path string) *workflow.Checks {
	c := &workflow.Checks{Key: g.key()}
	if g.R.Chance(0.5) {
		c.Delay = time.Duration(g.R.Range(1, 50)) * time.Millisecond
	}
	n := g.R.Range(1, g.O.MaxCheckActions)
	for i := 0; i < n; i++ {
		c.Actions = append(c.Actions, g.Action(true, fmt.Sprintf("%s/%d", path, i)))
	}
	return c
}

func (g *Gen) maybeChecks(path string) *workflow.Checks {
	if g.R.Chance(g.O.GroupP) {
		return g.Checks(path)
	}
	return nil
}

func (g *Gen) Sequence(path string) *workflow.Sequence {
	s := &workflow.Sequence{Key: g.key(), Name: g.name("seq"), Descr: g.name("seq descr")}
	n := g.R.Range(1, g.O.MaxActions)
	for i := 0; i < n; i++ {
		s.Actions = append(s.Actions, g.Action(false, fmt.Sprintf("%s/%d", path, i)))
	}
	return s
}

func (g *Gen) Block(path string) *workflow.Block {
	b := &workflow.Block{
		Key: g.key(), Name: g.name("block"), Descr: g.name("block descr"),
		BypassChecks:      g.maybeChecks(path + "/bypass"),
		PreChecks:         g.maybeChecks(path + "/pre"),
		ContChecks:        g.maybeChecks(path + "/cont"),
		PostChecks:        g.maybeChecks(path + "/post"),
		DeferredChecks:    g.maybeChecks(path + "/deferred"),
		Concurrency:       g.R.Range(0, 3),
		ToleratedFailures: g.R.Range(-1, 2),
	}
	if g.R.Chance(0.2) {
		b.EntranceDelay = time.Duration(g.R.Range(1, 5)) * time.Millisecond
	}
	if g.R.Chance(0.2) {
		b.ExitDelay = time.Duration(g.R.Range(1, 5)) * time.Millisecond
	}
	n := g.R.Range(1, g.O.MaxSeqs)
	for i := 0; i < n; i++ {
		b.Sequences = append(b.Sequences, g.Sequence(fmt.Sprintf("%s/s%d", path, i)))
	}
	return b
}

// Plan generates a valid, fresh (never submitted) plan.
func (g *Gen) Plan() *workflow.Plan {
	p := &workflow.Plan{
		Name: g.name("plan"), Descr: g.name("plan descr"),
		BypassChecks:   g.maybeChecks("p/bypass"),
		PreChecks:      g.maybeChecks("p/pre"),
		ContChecks:     g.maybeChecks("p/cont"),
		PostChecks:     g.maybeChecks("p/post"),
		DeferredChecks: g.maybeChecks("p/deferred"),
	}
	if g.R.Chance(0.5) {
		p.GroupID = V7(g.R)
	}
	switch g.R.Intn(3) {
	case 0:
		p.Meta = []byte(g.name("meta"))
	case 1:
		p.Meta = []byte{}
	}
	n := g.R.Range(1, g.O.MaxBlocks)
	for i := 0; i < n; i++ {
		p.Blocks = append(p.Blocks, g.Block(fmt.Sprintf("b%d", i)))
	}
	return p
}
