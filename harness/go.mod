module verifharness

go 1.24.0

require (
	github.com/Azure/azure-sdk-for-go/sdk/azcore v1.17.0
	github.com/Azure/azure-sdk-for-go/sdk/data/azcosmos v1.2.0
	github.com/brunoga/deep v1.2.4
	github.com/element-of-surprise/coercion v0.0.0
	github.com/go-json-experiment/json v0.0.0-20250211222650-7564cc53b040
	github.com/google/uuid v1.6.0
	github.com/gostdlib/base v0.0.0-20250328165134-6931dc0137f3
	zombiezen.com/go/sqlite v1.4.0
)

require (
	github.com/Azure/azure-sdk-for-go/sdk/internal v1.10.0 // indirect
	github.com/Azure/retry v0.0.0-20250221010952-92c9290cea0f // indirect
	github.com/andybalholm/brotli v1.1.1 // indirect
	github.com/beorn7/perks v1.0.1 // indirect
	github.com/cenkalti/backoff/v4 v4.3.0 // indirect
	github.com/cespare/xxhash/v2 v2.3.0 // indirect
	github.com/davecgh/go-spew v1.1.2-0.20180830191138-d8f796af33cc // indirect
	github.com/dustin/go-humanize v1.0.1 // indirect
	github.com/emicklei/go-restful/v3 v3.12.1 // indirect
	github.com/fxamacker/cbor/v2 v2.7.0 // indirect
	github.com/go-logr/logr v1.4.2 // indirect
	github.com/go-logr/stdr v1.2.2 // indirect
	github.com/go-openapi/jsonpointer v0.21.0 // indirect
	github.com/go-openapi/jsonreference v0.21.0 // indirect
	github.com/go-openapi/swag v0.23.0 // indirect
	github.com/gofiber/fiber/v2 v2.52.6 // indirect
	github.com/gogo/protobuf v1.3.2 // indirect
	github.com/golang/protobuf v1.5.4 // indirect
	github.com/google/gnostic-models v0.6.9 // indirect
	github.com/google/go-cmp v0.7.0 // indirect
	github.com/google/gofuzz v1.2.0 // indirect
	github.com/grpc-ecosystem/grpc-gateway/v2 v2.26.3 // indirect
	github.com/jedib0t/go-pretty/v6 v6.6.6 // indirect
	github.com/josharian/intern v1.0.0 // indirect
	github.com/json-iterator/go v1.1.12 // indirect
	github.com/klauspost/compress v1.17.11 // indirect
	github.com/kylelemons/godebug v1.1.0 // indirect
	github.com/mailru/easyjson v0.9.0 // indirect
	github.com/mattn/go-colorable v0.1.14 // indirect
	github.com/mattn/go-isatty v0.0.20 // indirect
	github.com/mattn/go-runewidth v0.0.16 // indirect
	github.com/modern-go/concurrent v0.0.0-20180306012644-bacd9c7ef1dd // indirect
	github.com/modern-go/reflect2 v1.0.2 // indirect
	github.com/munnerz/goautoneg v0.0.0-20191010083416-a7dc8b61c822 // indirect
	github.com/pkg/errors v0.9.1 // indirect
	github.com/prometheus/client_golang v1.20.5 // indirect
	github.com/prometheus/client_model v0.6.1 // indirect
	github.com/prometheus/common v0.62.0 // indirect
	github.com/prometheus/procfs v0.15.1 // indirect
	github.com/remyoudompheng/bigfft v0.0.0-20230129092748-24d4a6f8daec // indirect
	github.com/rivo/uniseg v0.4.7 // indirect
	github.com/sanity-io/litter v1.5.6 // indirect
	github.com/shirou/gopsutil/v4 v4.25.1 // indirect
	github.com/spf13/afero v1.12.0 // indirect
	github.com/tidwall/pretty v1.2.1 // indirect
	github.com/tklauser/go-sysconf v0.3.14 // indirect
	github.com/tklauser/numcpus v0.9.0 // indirect
	github.com/valyala/bytebufferpool v1.0.0 // indirect
	github.com/valyala/fasthttp v1.58.0 // indirect
	github.com/valyala/tcplisten v1.0.0 // indirect
	github.com/x448/float16 v0.8.4 // indirect
	go.opentelemetry.io/auto/sdk v1.1.0 // indirect
	go.opentelemetry.io/contrib/instrumentation/host v0.59.0 // indirect
	go.opentelemetry.io/contrib/instrumentation/runtime v0.59.0 // indirect
	go.opentelemetry.io/otel v1.35.0 // indirect
	go.opentelemetry.io/otel/exporters/otlp/otlptrace v1.34.0 // indirect
	go.opentelemetry.io/otel/exporters/otlp/otlptrace/otlptracegrpc v1.34.0 // indirect
	go.opentelemetry.io/otel/exporters/prometheus v0.56.0 // indirect
	go.opentelemetry.io/otel/exporters/stdout/stdouttrace v1.34.0 // indirect
	go.opentelemetry.io/otel/metric v1.35.0 // indirect
	go.opentelemetry.io/otel/sdk v1.35.0 // indirect
	go.opentelemetry.io/otel/sdk/metric v1.34.0 // indirect
	go.opentelemetry.io/otel/trace v1.35.0 // indirect
	go.opentelemetry.io/proto/otlp v1.5.0 // indirect
	golang.org/x/exp v0.0.0-20250210185358-939b2ce775ac // indirect
	golang.org/x/net v0.35.0 // indirect
	golang.org/x/oauth2 v0.27.0 // indirect
	golang.org/x/sys v0.30.0 // indirect
	golang.org/x/term v0.29.0 // indirect
	golang.org/x/text v0.22.0 // indirect
	golang.org/x/time v0.10.0 // indirect
	google.golang.org/genproto/googleapis/api v0.0.0-20250303144028-a0af3efb3deb // indirect
	google.golang.org/genproto/googleapis/rpc v0.0.0-20250303144028-a0af3efb3deb // indirect
	google.golang.org/grpc v1.71.0 // indirect
	google.golang.org/protobuf v1.36.5 // indirect
	gopkg.in/evanphx/json-patch.v4 v4.12.0 // indirect
	gopkg.in/inf.v0 v0.9.1 // indirect
	gopkg.in/yaml.v3 v3.0.1 // indirect
	k8s.io/api v0.32.1 // indirect
	k8s.io/apimachinery v0.32.1 // indirect
	k8s.io/client-go v0.32.1 // indirect
	k8s.io/klog/v2 v2.130.1 // indirect
	k8s.io/kube-openapi v0.0.0-20241212222426-2c72e554b1e7 // indirect
	k8s.io/utils v0.0.0-20241210054802-24370beab758 // indirect
	modernc.org/libc v1.61.13 // indirect
	modernc.org/mathutil v1.7.1 // indirect
	modernc.org/memory v1.8.2 // indirect
	modernc.org/sqlite v1.35.0 // indirect
	sigs.k8s.io/json v0.0.0-20241014173422-cfa47c3a1cc8 // indirect
	sigs.k8s.io/structured-merge-diff/v4 v4.5.0 // indirect
	sigs.k8s.io/yaml v1.4.0 // indirect
)

replace github.com/element-of-surprise/coercion => /repo
