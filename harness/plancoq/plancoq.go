// Package plancoq abstracts Go workflow values into terms of Coercion.Base.Plan
// (DESIGN.md section 5). The abstraction uses only Go's own library functions
// (strings.TrimSpace, uuid.Version, reflect.TypeOf, encoding/json) and is part of the trusted base.
package plancoq

import (
	"encoding/json"
	"fmt"
	"reflect"
	"strings"
	"time"

	"verifharness/core"

	"github.com/element-of-surprise/coercion/plugins"
	"github.com/element-of-surprise/coercion/workflow"
	"github.com/google/uuid"
)

// Lookup tells, from the harness's own knowledge, how a plugin name is registered.
type Lookup func(name string, req any) (registered, isCheck, accepts bool)

// Ctx interns the strings, uuids, types and values of one case, so that equal indices mean equal values.
type Ctx struct {
	strs  map[string]uint64
	uids  map[uuid.UUID]uint64
	types map[string]uint64
	vals  map[string]uint64
	Look  Lookup
}

func NewCtx(l Lookup) *Ctx {
	return &Ctx{strs: map[string]uint64{}, uids: map[uuid.UUID]uint64{}, types: map[string]uint64{}, vals: map[string]uint64{}, Look: l}
}

func intern[K comparable](m map[K]uint64, k K) uint64 {
	if v, ok := m[k]; ok {
		return v
	}
	v := uint64(len(m) + 1)
	m[k] = v
	return v
}

func (c *Ctx) Tok(s string) string {
	return core.App("Build_tok", core.B(strings.TrimSpace(s) == ""), core.B(s == ""), core.N(intern(c.strs, s)))
}

func (c *Ctx) Uid(u uuid.UUID) string {
	if u == uuid.Nil {
		return "(Build_uid 0%N false)"
	}
	return core.App("Build_uid", core.N(intern(c.uids, u)), core.B(u.Version() == 7))
}

// UidIx is the index Uid would print (0 for Nil).
func (c *Ctx) UidIx(u uuid.UUID) uint64 {
	if u == uuid.Nil {
		return 0
	}
	return intern(c.uids, u)
}

// Blob abstracts an `any` request/response value.
func (c *Ctx) Blob(v any) string {
	if v == nil {
		return "(Build_blob true true 0%N 0%N)"
	}
	ty := intern(c.types, reflect.TypeOf(v).String())
	b, err := json.Marshal(v)
	if err != nil {
		return core.App("Build_blob", "false", "false", core.N(ty), "0%N")
	}
	return core.App("Build_blob", "false", "true", core.N(ty), core.N(intern(c.vals, string(b))))
}

// Bytes abstracts a []byte (Meta): nil and empty are both "nil" (the property says "empty meta").
func (c *Ctx) Bytes(b []byte) string {
	if len(b) == 0 {
		return "(Build_blob true true 0%N 0%N)"
	}
	return core.App("Build_blob", "false", "true", "0%N", core.N(intern(c.vals, "bytes:"+string(b))))
}

// Time abstracts an instant: 0 = the zero time, otherwise Unix nanoseconds.
func Time(t time.Time) string {
	if t.IsZero() {
		return "0%Z"
	}
	return core.Z(t.UnixNano())
}

func Status(s workflow.Status) string {
	switch s {
	case workflow.NotStarted:
		return "NotStarted"
	case workflow.Running:
		return "Running"
	case workflow.Completed:
		return "Completed"
	case workflow.Failed:
		return "Failed"
	case workflow.Stopped:
		return "Stopped"
	}
	panic(fmt.Sprintf("status %d outside the modelled domain", s))
}

func Reason(r workflow.FailureReason) string {
	switch r {
	case workflow.FRUnknown:
		return "FRUnknown"
	case workflow.FRPreCheck:
		return "FRPreCheck"
	case workflow.FRBlock:
		return "FRBlock"
	case workflow.FRPostCheck:
		return "FRPostCheck"
	case workflow.FRContCheck:
		return "FRContCheck"
	case workflow.FRDeferredCheck:
		return "FRDeferredCheck"
	case workflow.FRStopped:
		return "FRStopped"
	case workflow.FRExceedRecovery:
		return "FRExceedRecovery"
	}
	panic(fmt.Sprintf("reason %d outside the modelled domain", r))
}

func (c *Ctx) State(s *workflow.State) string {
	if s == nil {
		return "None"
	}
	return core.Some(core.App("Build_state", Status(s.Status), Time(s.Start), Time(s.End)))
}

func (c *Ctx) PErr(e *plugins.Error) string {
	if e == nil {
		return "None"
	}
	return core.Some(c.perr(e))
}

func (c *Ctx) perr(e *plugins.Error) string {
	w := "None"
	if e.Wrapped != nil {
		w = core.Some(c.perr(e.Wrapped))
	}
	return core.App("PErr", core.N(uint64(e.Code)), core.N(intern(c.strs, e.Message)), core.B(e.Permanent), w)
}

func (c *Ctx) Attempt(a *workflow.Attempt) string {
	return core.App("Build_attempt", c.Blob(a.Resp), c.PErr(a.Err), Time(a.Start), Time(a.End))
}

func (c *Ctx) Action(a *workflow.Action) string {
	att := "None"
	if a.Attempts != nil {
		xs := make([]string, len(a.Attempts))
		for i, x := range a.Attempts {
			xs[i] = c.Attempt(x)
		}
		att = core.Some(core.List(xs))
	}
	reg := "None"
	if c.Look != nil {
		if r, chk, acc := c.Look(a.Plugin, a.Req); r {
			reg = core.Some(core.Pair(core.B(chk), core.B(acc)))
		}
	}
	return core.App("Build_action", c.Uid(a.ID), c.Uid(a.Key), c.Tok(a.Name), c.Tok(a.Descr), c.Tok(a.Plugin),
		core.Z(int64(a.Timeout)), core.Z(int64(a.Retries)), c.Blob(a.Req), att, c.State(a.State), reg)
}

func (c *Ctx) actions(as []*workflow.Action) string {
	if as == nil {
		return "None"
	}
	xs := make([]string, len(as))
	for i, a := range as {
		if a == nil {
			xs[i] = "None"
		} else {
			xs[i] = core.Some(c.Action(a))
		}
	}
	return core.Some(core.List(xs))
}

func (c *Ctx) Checks(k *workflow.Checks) string {
	return core.App("Build_checks", c.Uid(k.ID), c.Uid(k.Key), core.Z(int64(k.Delay)), c.actions(k.Actions), c.State(k.State))
}

func (c *Ctx) optChecks(k *workflow.Checks) string {
	if k == nil {
		return "None"
	}
	return core.Some(c.Checks(k))
}

func (c *Ctx) Sequence(s *workflow.Sequence) string {
	return core.App("Build_sequence", c.Uid(s.ID), c.Uid(s.Key), c.Tok(s.Name), c.Tok(s.Descr), c.actions(s.Actions), c.State(s.State))
}

func (c *Ctx) Block(b *workflow.Block) string {
	seqs := "None"
	if b.Sequences != nil {
		xs := make([]string, len(b.Sequences))
		for i, s := range b.Sequences {
			if s == nil {
				xs[i] = "None"
			} else {
				xs[i] = core.Some(c.Sequence(s))
			}
		}
		seqs = core.Some(core.List(xs))
	}
	return core.App("Build_block", c.Uid(b.ID), c.Uid(b.Key), c.Tok(b.Name), c.Tok(b.Descr),
		core.Z(int64(b.EntranceDelay)), core.Z(int64(b.ExitDelay)),
		c.optChecks(b.BypassChecks), c.optChecks(b.PreChecks), c.optChecks(b.ContChecks), c.optChecks(b.PostChecks), c.optChecks(b.DeferredChecks),
		seqs, core.Z(int64(b.Concurrency)), core.Z(int64(b.ToleratedFailures)), c.State(b.State))
}

func (c *Ctx) Plan(p *workflow.Plan) string {
	blocks := "None"
	if p.Blocks != nil {
		xs := make([]string, len(p.Blocks))
		for i, b := range p.Blocks {
			if b == nil {
				xs[i] = "None"
			} else {
				xs[i] = core.Some(c.Block(b))
			}
		}
		blocks = core.Some(core.List(xs))
	}
	return core.App("Build_plan", c.Uid(p.ID), c.Uid(p.GroupID), c.Tok(p.Name), c.Tok(p.Descr), c.Bytes(p.Meta),
		c.optChecks(p.BypassChecks), c.optChecks(p.PreChecks), c.optChecks(p.ContChecks), c.optChecks(p.PostChecks), c.optChecks(p.DeferredChecks),
		blocks, c.State(p.State), Time(p.SubmitTime), Reason(p.Reason))
}

// ---- object paths (Base.Plan.obj) ----

func Grp(i int) string { return [...]string{"GBypass", "GPre", "GCont", "GPost", "GDeferred"}[i] }

func ScopePlan() string        { return "SPlan" }
func ScopeBlock(b int) string  { return core.App("SBlock", core.Nat(b)) }
func OPlan() string            { return "OPlan" }
func OChecks(sc string, g int) string { return core.App("OChecks", sc, Grp(g)) }
func OBlock(b int) string      { return core.App("OBlock", core.Nat(b)) }
func OSeq(b, s int) string     { return core.App("OSeq", core.Nat(b), core.Nat(s)) }
func OChkAct(sc string, g, i int) string {
	return core.App("OAct", core.App("AChk", sc, Grp(g), core.Nat(i)))
}
func OSeqAct(b, s, i int) string {
	return core.App("OAct", core.App("ASeq", core.Nat(b), core.Nat(s), core.Nat(i)))
}

// PathIndex maps every object pointer of a plan to its path term (nil elements have none).
func PathIndex(p *workflow.Plan) map[workflow.Object]string {
	m := map[workflow.Object]string{p: OPlan()}
	grp := func(sc string, ks [5]*workflow.Checks) {
		for g, k := range ks {
			if k == nil {
				continue
			}
			m[k] = OChecks(sc, g)
			for i, a := range k.Actions {
				if a != nil {
					m[a] = OChkAct(sc, g, i)
				}
			}
		}
	}
	grp(ScopePlan(), [5]*workflow.Checks{p.BypassChecks, p.PreChecks, p.ContChecks, p.PostChecks, p.DeferredChecks})
	for bi, b := range p.Blocks {
		if b == nil {
			continue
		}
		m[b] = OBlock(bi)
		grp(ScopeBlock(bi), [5]*workflow.Checks{b.BypassChecks, b.PreChecks, b.ContChecks, b.PostChecks, b.DeferredChecks})
		for si, s := range b.Sequences {
			if s == nil {
				continue
			}
			m[s] = OSeq(bi, si)
			for ai, a := range s.Actions {
				if a != nil {
					m[a] = OSeqAct(bi, si, ai)
				}
			}
		}
	}
	return m
}
